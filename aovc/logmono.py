"""Log-monomial encoding (DESIGN 4.2): positive quantities combined by * / ** and 10**x are carried as the
base-10 logarithm of their value, a LINEAR z3 real expression:
      log10( c * prod x_i^q_i * 10^e )  =  sum_p v_p(c) * LG_p  +  sum q_i * lg_x_i  +  e
with one symbol LG_p per prime p occurring in a literal (and LG_PI for pi), constrained by LG_2 + LG_5 = 1 and by
tight rational enclosures computed with mpmath.  Identities between products of powers then are linear real
arithmetic, decided for ALL positive inputs; identities between *published constants* are decided within an explicit
tolerance from the enclosures.  Sums of monomials are outside the encoding (Unsupported)."""
from fractions import Fraction
import z3
from .values import Unsupported, is_conc, is_z3, zr, _num, PI, DefinednessError

_prime_syms = {}
_axioms = {}


def _enclosure(name, value_fn):
    import mpmath
    mpmath.mp.dps = 40
    v = value_fn()
    lo = Fraction(int(mpmath.floor(v * 10**25)), 10**25)
    hi = lo + Fraction(1, 10**25)
    return lo, hi


def LG(p):
    """symbol for log10(p), p prime or 'PI'"""
    if p not in _prime_syms:
        import mpmath
        name = "LG_%s" % p
        sym = z3.Real(name)
        _prime_syms[p] = sym
        if p == "PI":
            lo, hi = _enclosure(name, lambda: mpmath.log10(mpmath.pi))
        else:
            lo, hi = _enclosure(name, lambda: mpmath.log10(p))
        _axioms[p] = [sym > z3.RealVal(str(lo)), sym < z3.RealVal(str(hi))]
    return _prime_syms[p]


def axioms():
    out = []
    for p, ax in _axioms.items():
        out.extend(ax)
    if 2 in _prime_syms and 5 in _prime_syms:
        out.append(_prime_syms[2] + _prime_syms[5] == 1)
    return out


def factor(n):
    out = {}
    d = 2
    while d * d <= n:
        while n % d == 0:
            out[d] = out.get(d, 0) + 1
            n //= d
        d += 1
    if n > 1:
        out[n] = out.get(n, 0) + 1
    return out


def log_of_rational(q):
    q = Fraction(q)
    if q <= 0:
        raise Unsupported("log-monomial encoding needs positive constants, got %s" % q)
    e = z3.RealVal(0)
    for p, k in factor(q.numerator).items():
        e = e + k * LG(p)
    for p, k in factor(q.denominator).items():
        e = e - k * LG(p)
    return z3.simplify(e)


class LogVal:
    """a positive real carried as log10(value) (a linear z3 Real expression)"""

    def __init__(self, L):
        self.L = L

    def __repr__(self):
        return "LogVal(%s)" % self.L

    @staticmethod
    def sym(name):
        return LogVal(z3.Real("lg_" + name))

    @staticmethod
    def coerce(x):
        if isinstance(x, LogVal):
            return x
        if isinstance(x, bool):
            raise Unsupported("bool in log-monomial arithmetic")
        if is_conc(x):
            return LogVal(log_of_rational(Fraction(_num(x))))
        if is_z3(x):
            if x.eq(PI):
                return LogVal(LG("PI"))
            raise Unsupported("general real term %s in log-monomial arithmetic (only products of powers are encoded)" % x)
        raise Unsupported("cannot use %s in log-monomial arithmetic" % type(x).__name__)

    def __aovc_sop__(self, op, a, b, ctx=None):
        if op == "neg":
            raise Unsupported("negation of a positive log-monomial")
        if op == "pow":
            if isinstance(a, LogVal) and is_conc(b):
                return LogVal(z3.simplify(a.L * zr(Fraction(_num(b)))))
            if isinstance(b, LogVal):
                raise Unsupported("log-monomial in an exponent")
            if isinstance(a, LogVal) and is_z3(b):
                raise Unsupported("symbolic exponent on a log-monomial")
        if op in ("add", "sub"):
            if is_conc(a) and _num(a) == 0 and op == "add":
                return b
            if is_conc(b) and _num(b) == 0:
                return a
            raise Unsupported("sum of log-monomials (outside the encoding)")
        if op == "ite":
            c, a = a
            A, B = LogVal.coerce(a), LogVal.coerce(b)
            return LogVal(z3.If(c, A.L, B.L))
        if op.startswith("cmp"):
            # order of positive reals = order of their logs; a comparison against a non-positive constant is decided outright
            rel = op[3:]
            for x, other_is_left in ((a, False), (b, True)):
                if is_conc(x) and _num(x) <= 0:
                    if x is b:      # a (positive) rel b (<= 0)
                        return {"<": False, "<=": False, ">": True, ">=": True, "==": False, "!=": True}[rel]
                    return {"<": True, "<=": True, ">": False, ">=": False, "==": False, "!=": True}[rel]
            A, B = LogVal.coerce(a), LogVal.coerce(b)
            return {"<": A.L < B.L, "<=": A.L <= B.L, ">": A.L > B.L, ">=": A.L >= B.L, "==": A.L == B.L, "!=": A.L != B.L}[rel]
        A, B = LogVal.coerce(a), LogVal.coerce(b)
        if op == "mul":
            return LogVal(z3.simplify(A.L + B.L))
        if op == "div":
            return LogVal(z3.simplify(A.L - B.L))
        if op == "eq":
            return A.L == B.L
        raise Unsupported("operation %s on log-monomials" % op)


def pow10(e):
    """10 ** e for an ordinary real expression e"""
    return LogVal(zr(e))


def close(a, b, rel_tol):
    """|a/b - 1| <= rel_tol, stated on the logs with exact enclosures of log10(1 +- tol)"""
    import mpmath
    mpmath.mp.dps = 40
    A, B = LogVal.coerce(a), LogVal.coerce(b)
    up = Fraction(int(mpmath.floor(mpmath.log10(1 + mpmath.mpf(str(rel_tol))) * 10**25)), 10**25)
    dn = Fraction(int(mpmath.ceil(mpmath.log10(1 - mpmath.mpf(str(rel_tol))) * 10**25)), 10**25)
    d = A.L - B.L
    return z3.And(d <= z3.RealVal(str(up)), d >= z3.RealVal(str(dn)))
