"""Operator words (DESIGN 4.4): a value that is a linear image of ONE symbolic input array is carried as
    scalar * op_n ... op_2 op_1 (input)
with ops  fft(ax) / ifft(ax) (NumPy conventions: unnormalised forward, 1/N inverse), roll(ax, s) (out[i] = in[i-s], indices
mod N), phase(phi) (multiplication by exp(i*phi(idx)), phi a real functional array), weight(w) (real weights), re (real part).
Linearity in the input is structural: a body that is not of this form is rejected (Unsupported).
Equalities between words and the energy functional reduce to arithmetic obligations (rolls equal mod N, phases equal
pointwise, scalars equal) that the SMT solver decides for all sizes."""
import z3
from .values import *      # noqa
from .values import _num
from .arrays import Arr, dim_eq
from .symex import BoundMethod, PyException


class Lin:
    def __init__(self, shape, ops=(), scalar=1, name="U", dtype="complex", prov=None):
        self.shape = list(shape)
        self.ops = list(ops)
        self.scalar = scalar
        self.name = name
        self.dtype = dtype
        # memory ownership for frame clauses: the input word (no ops) is the caller's array
        self.prov = frozenset([name]) if (prov is None and not ops and is_conc(scalar) and scalar == 1) else frozenset(prov or ())

    def __aovc_inplace__(self, it, opname, rhs, varname):
        """x op= rhs on an ndarray mutates the array object: a write into caller memory if this value is (an alias of) the input"""
        if self.prov:
            for p in sorted(self.prov):
                it.ctx.frame_events.append((p, "in-place %s on %s" % (opname, varname), list(it.ctx.pc), it.ctx.lineno, it.ctx.func))
        res = it.binop(opname, self, rhs)
        if isinstance(res, Lin):
            res.prov = self.prov       # same array object
        return res

    def __aovc_asarray__(self, it, dt):
        return self                    # numpy.asarray of a complex ndarray is the same object

    def __aovc_array__(self, it, dt):
        return Lin(self.shape, self.ops, self.scalar, self.name, self.dtype, prov=())

    @property
    def ndim(self):
        return len(self.shape)

    def with_op(self, op):
        return Lin(self.shape, self.ops + [op], self.scalar, self.name, self.dtype, prov=())

    def scaled(self, c, ctx=None, div=False):
        s = s_div(self.scalar, c, ctx) if div else s_mul(self.scalar, c, ctx)
        return Lin(self.shape, self.ops, s, self.name, self.dtype, prov=())

    # ---- protocol with the executor
    def __aovc_attr__(self, it, name):
        if name == "shape":
            return tuple(self.shape)
        if name == "ndim":
            return self.ndim
        if name == "real":
            return self.with_op(("re",))
        if name == "dtype":
            from .symex import DType
            return DType("complex128")
        return BoundMethod(self, name)

    def __aovc_method__(self, it, name, args, kwargs):
        if name == "copy":
            return Lin(self.shape, self.ops, self.scalar, self.name, self.dtype, prov=())
        if name == "astype":
            return self
        return NotImplemented

    def __aovc_unop__(self, it, op):
        if op == "USub":
            return self.scaled(-1)
        if op == "UAdd":
            return self
        raise Unsupported("unary %s on a linear image (not linear)" % op)

    def __aovc_binop__(self, it, op, other, swapped):
        if isinstance(other, Lin):
            raise Unsupported("binary %s between two linear images of the input (sum / product of words is outside the encoding)" % op)
        if op == "Mult":
            return self.times(it, other)
        if op == "Div" and not swapped:
            if is_scalar(other):
                return self.scaled(other, it.ctx, div=True)
            if isinstance(other, Arr):
                inv = Arr(list(other.shape), (lambda f: (lambda idx: s_div(1, f(idx), it.ctx)))(other.snapshot()), other.dtype)
                return self.times(it, inv)
        raise Unsupported("operation %s on a linear image of the input is not linear" % op)

    def times(self, it, other):
        if is_scalar(other):
            return self.scaled(other, it.ctx)
        if isinstance(other, Arr):
            if other.ndim > self.ndim:
                raise Unsupported("broadcasting a linear image to a larger rank")
            off = self.ndim - other.ndim
            for k, d in enumerate(other.shape):
                e = dim_eq(d, self.shape[off + k])
                if e is True or (is_conc(d) and _num(d) == 1):
                    continue
                it.ctx.definedness(cmp("==", d, self.shape[off + k]), "elementwise product: shapes agree")
            snap = other.snapshot()
            oshape = list(other.shape)

            def elem(idx, snap=snap, off=off, oshape=oshape):
                sub = [0 if (is_conc(d) and _num(d) == 1) else i for i, d in zip(idx[off:], oshape)]
                return snap(sub)
            pvars = [z3.Int(fresh_name("p")) for _ in self.shape]
            probe = elem(pvars)

            def index_free(t):
                if is_conc(t):
                    return True
                from .npmodel import free_consts
                fv = free_consts(z3.simplify(zr(t)))
                return not any(str(p) in fv for p in pvars)
            if isinstance(probe, Polar):
                w = self
                r_is_one = is_conc(probe.r) and _num(probe.r) == 1
                if not r_is_one:
                    if index_free(probe.r):
                        w = w.scaled(probe.r, it.ctx)       # constant modulus: part of the scalar
                    else:
                        w = w.with_op(("weight", lambda idx: elem(idx).r))
                return w.with_op(("phase", lambda idx: elem(idx).phi))
            if isinstance(probe, Cx):
                raise Unsupported("elementwise product with a general complex array (only exp(1j*real) and real arrays are encoded)")
            if index_free(probe):
                return self.scaled(probe, it.ctx)
            return self.with_op(("weight", lambda idx: elem(idx)))
        raise Unsupported("product of a linear image with %s" % type(other).__name__)


# ----------------------------------------------------------------------------- library calls on words

def _axes(axes, ndim, default):
    if axes is None:
        axes = default
    if not isinstance(axes, (tuple, list)):
        axes = [axes]
    out = []
    for a in axes:
        if not is_conc(a):
            raise Unsupported("symbolic axis")
        a = int(a)
        if a < 0:
            a += ndim
        if not 0 <= a < ndim:
            raise PyException("AxisError", "axis out of range")
        out.append(a)
    return out


def shift(it, x, axes, sign):
    for ax in _axes(axes, x.ndim, list(range(x.ndim))):
        n = x.shape[ax]
        h = it.floordiv(n, 2)
        x = x.with_op(("roll", ax, h if sign > 0 else r_neg(h)))
    return x


def transform(it, x, kind, axes, n=None, s=None):
    if n is not None or s is not None:
        raise Unsupported("fft with explicit length n= / s= (zero padding / truncation) on a linear image")
    for ax in axes:
        x = x.with_op((kind, ax))
    return x


# ----------------------------------------------------------------------------- normal form and comparison

def normalise(it, w, hyps_valid, mod_const=False):
    """merge adjacent rolls / phases / weights, cancel adjacent fft-ifft pairs (commuting across other axes),
    drop ops that are provably trivial under the hypotheses (roll by 0 mod N, phase 0, weight 1)"""
    ops = list(w.ops)
    shape = w.shape
    nd = len(shape)
    probe = [z3.Int("nf!%d" % k) for k in range(nd)]
    inb = z3.And(*[z3.And(p >= 0, zi(p) < zi(d)) for p, d in zip(probe, shape)]) if nd else z3.BoolVal(True)

    memo = {}

    def trivial(op):
        k = id(op)
        if k not in memo:
            memo[k] = (op, _trivial(op))      # keep op alive so that ids are not reused
        return memo[k][1]

    def _trivial(op):
        if op[0] == "roll":
            n = shape[op[1]]
            return hyps_valid(z3.Implies(zi(n) > 0, it.mod(op[2], n) == 0) if not is_conc(n) else (zi(op[2]) % int(n) == 0))
        if op[0] == "phase":
            from . import cas
            if mod_const:
                probe2 = [z3.Int("nf2!%d" % k) for k in range(nd)]
                inb2 = z3.And(*[z3.And(p >= 0, zi(p) < zi(d)) for p, d in zip(probe2, shape)])
                if cas.is_zero(zr(op[1](probe)) - zr(op[1](probe2))):
                    return True
                return hyps_valid(z3.Implies(z3.And(inb, inb2), zr(op[1](probe)) == zr(op[1](probe2))))
            if cas.is_zero(zr(op[1](probe))):
                return True
            return hyps_valid(z3.Implies(inb, zr(op[1](probe)) == 0))
        if op[0] == "weight":
            return hyps_valid(z3.Implies(inb, zr(op[1](probe)) == 1))
        return False

    def axis_of(op):
        return op[1] if op[0] in ("roll", "fft", "ifft") else None

    changed = True
    while changed:
        changed = False
        # drop trivial
        for k, op in enumerate(ops):
            if op[0] in ("roll", "phase", "weight") and trivial(op):
                ops.pop(k)
                changed = True
                break
        if changed:
            continue
        for k in range(len(ops) - 1):
            a, b = ops[k], ops[k + 1]
            if a[0] == "roll" and b[0] == "roll" and a[1] == b[1]:
                ops[k:k + 2] = [("roll", a[1], r_add(a[2], b[2]))]
                changed = True
                break
            if a[0] == "phase" and b[0] == "phase":
                ops[k:k + 2] = [("phase", (lambda f, g: (lambda idx: r_add(f(idx), g(idx))))(a[1], b[1]))]
                changed = True
                break
            if a[0] == "weight" and b[0] == "weight":
                ops[k:k + 2] = [("weight", (lambda f, g: (lambda idx: r_mul(f(idx), g(idx))))(a[1], b[1]))]
                changed = True
                break
            if a[0] == "weight" and b[0] == "phase":
                ops[k:k + 2] = [b, a]          # canonical order: phase before weight (they commute)
                changed = True
                break
        if changed:
            continue
        # cancel fft/ifft on the same axis separated only by ops on other axes
        for k, a in enumerate(ops):
            if a[0] not in ("fft", "ifft"):
                continue
            for j in range(k + 1, len(ops)):
                b = ops[j]
                if b[0] in ("fft", "ifft") and b[1] == a[1]:
                    if b[0] != a[0]:
                        ops.pop(j)
                        ops.pop(k)
                        changed = True
                    break
                if axis_of(b) is None or axis_of(b) == a[1]:
                    break
            if changed:
                break
        if changed:
            continue
        # canonical order of commuting neighbours on different axes: sort by axis (bubble one step)
        for k in range(len(ops) - 1):
            a, b = ops[k], ops[k + 1]
            if axis_of(a) is not None and axis_of(b) is not None and axis_of(a) > axis_of(b):
                ops[k:k + 2] = [b, a]
                changed = True
                break
    return Lin(shape, ops, w.scalar, w.name, w.dtype, prov=())


def describe(w):
    out = []
    for op in w.ops:
        if op[0] == "roll":
            out.append("roll(ax%d,%s)" % (op[1], z3.simplify(zi(op[2])) if is_z3(op[2]) else op[2]))
        elif op[0] in ("fft", "ifft"):
            out.append("%s(ax%d)" % (op[0], op[1]))
        else:
            out.append(op[0])
    return " . ".join(reversed(out)) if out else "id"


def equal_obligations(it, w1, w2, hyps_valid, phase_mod_const=False, shape=None):
    """[(name, formula)] whose conjunction implies w1 == w2 as operators (both already symbolic words on the same input)"""
    a, b = normalise(it, w1, hyps_valid, phase_mod_const), normalise(it, w2, hyps_valid, phase_mod_const)
    obl = []
    shape = a.shape
    nd = len(shape)
    if len(a.ops) != len(b.ops) or any(x[0] != y[0] for x, y in zip(a.ops, b.ops)) or any(x[0] in ("roll", "fft", "ifft") and x[1] != y[1] for x, y in zip(a.ops, b.ops)):
        obl.append(("structure[%s  vs  %s]" % (describe(a), describe(b)), z3.BoolVal(False)))
        return obl
    idx = [z3.Int("w!%d" % k) for k in range(nd)]
    inb = z3.And(*[z3.And(p >= 0, zi(p) < zi(d)) for p, d in zip(idx, shape)]) if nd else z3.BoolVal(True)
    # constant phase factors commute with every op: the argument of the scalar is compared jointly with the LAST phase op
    pa, pb = (None, None) if phase_mod_const else (polar_of_scalar(a.scalar, hyps_valid), polar_of_scalar(b.scalar, hyps_valid))
    joint = pa is not None and pb is not None
    last_phase = max([k for k, x in enumerate(a.ops) if x[0] == "phase"], default=None)
    idx2 = [z3.Int("w2!%d" % k2) for k2 in range(nd)]
    inb2 = z3.And(*[z3.And(p >= 0, zi(p) < zi(dd)) for p, dd in zip(idx2, shape)]) if nd else z3.BoolVal(True)
    total = z3.RealVal(0)
    for k, (x, y) in enumerate(zip(a.ops, b.ops)):
        if x[0] == "roll":
            n = shape[x[1]]
            obl.append(("roll%d.equal-mod-N" % k, z3.Implies(zi(n) > 0, (zi(x[2]) - zi(y[2])) % zi(n) == 0)))
        elif x[0] == "phase":
            d = zr(x[1](idx)) - zr(y[1](idx))
            d2 = zr(x[1](idx2)) - zr(y[1](idx2))
            from . import cas
            if phase_mod_const:
                if cas.is_zero(d - d2):
                    obl.append(("phase%d.equal-up-to-constant[rational identity, sympy]" % k, z3.BoolVal(True)))
                else:
                    obl.append(("phase%d.equal-up-to-constant" % k, z3.Implies(z3.And(inb, inb2), d == d2)))
            elif joint:
                # constant phase factors commute with every op: non-last phase ops may differ by a constant, the constants are
                # accounted for together with the argument of the scalar at the last phase op
                total = total + d
                if k != last_phase:
                    if cas.is_zero(d - d2):
                        obl.append(("phase%d.equal-up-to-constant[rational identity, sympy]" % k, z3.BoolVal(True)))
                    else:
                        obl.append(("phase%d.equal-up-to-constant" % k, z3.Implies(z3.And(inb, inb2), d == d2)))
            else:
                obl.append(("phase%d.equal-pointwise" % k, z3.Implies(inb, d == 0)))
        elif x[0] == "weight":
            obl.append(("weight%d.equal-pointwise" % k, z3.Implies(inb, zr(x[1](idx)) == zr(y[1](idx)))))
    if not phase_mod_const:
        if joint:
            obl.append(("scalar.equal-modulus", zr(pa[0]) == zr(pb[0])))
            dd = total + pa[1] - pb[1]
            from . import cas
            hit = [q for q in (0, 1, -1, 2, -2) if cas.is_zero(dd - q * 2 * PI)]
            if hit:
                obl.append(("phases+arg(scalar).equal-mod-2pi[rational identity, sympy]", z3.BoolVal(True)))
            else:
                obl.append(("phases+arg(scalar).equal-mod-2pi", z3.Implies(inb, z3.Or(*[dd == q * 2 * PI for q in (0, 1, -1, 2, -2)]))))
        else:
            obl.append(("scalar.equal", s_eq(to_cx_scalar(a.scalar), to_cx_scalar(b.scalar))))
    if phase_mod_const:
        obl.append(("scalar.equal-modulus", zr(s_abs2(a.scalar)) == zr(s_abs2(b.scalar))))
    return obl


def polar_of_scalar(s, hyps_valid):
    """(modulus >= 0, angle) of a complex scalar whose direction is decidable under the hypotheses, else None"""
    def signed(r, theta):
        if is_conc(r):
            return (abs(_num(r)), theta) if _num(r) >= 0 else (abs(_num(r)), theta + PI)
        if hyps_valid(zr(r) > 0):
            return (r, theta)
        if hyps_valid(zr(r) < 0):
            return (r_neg(r), theta + PI)
        return None
    if isinstance(s, Polar):
        return signed(s.r, zr(s.phi))
    if isinstance(s, Cx):
        if is_conc(s.im) and _num(s.im) == 0:
            return signed(s.re, z3.RealVal(0))
        if is_conc(s.re) and _num(s.re) == 0:
            return signed(s.im, PI / 2)
        if hyps_valid(zr(s.im) == 0):
            return signed(s.re, z3.RealVal(0))
        if hyps_valid(zr(s.re) == 0):
            return signed(s.im, PI / 2)
        return None
    return signed(s, z3.RealVal(0))


def to_cx_scalar(s):
    if isinstance(s, Polar):
        # r*exp(i*phi) with constant phi: keep as is (s_eq compares r and phi)
        return s
    return s


def energy_factor(it, w):
    """f with  ||w(x)||^2 = f * ||x||^2  (sums over the whole array), for words without non-constant weights and 're'"""
    f = s_abs2(w.scalar)
    for op in w.ops:
        if op[0] == "fft":
            f = r_mul(f, w.shape[op[1]])
        elif op[0] == "ifft":
            f = r_div(f, w.shape[op[1]], it.ctx)
        elif op[0] in ("roll", "phase"):
            continue
        else:
            raise Unsupported("energy of a word containing %s" % op[0])
    return f
