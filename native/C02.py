import sys, os
sys.path.insert(0, os.path.dirname(os.path.abspath(__file__)))
import numpy
from _harness import main
import aotools
from aotools.turbulence import slopecovariance as SC


def bad(msg, obs=None, exp=None):
    return {"message": msg, "observed": obs, "expected": exp}


def psd(rng, N, gaps=True):
    Q, _ = numpy.linalg.qr(rng.normal(size=(N, N)))
    ev = numpy.array([10.0 ** (-(k // 2)) for k in range(N)]) if gaps else rng.uniform(0.5, 2, N)
    return (Q * ev) @ Q.T, ev


def chk_normal(inp):
    rng = numpy.random.default_rng(21)
    for (T, n) in ((4, 1), (5, 2), (3, 1)):
        C, ev = psd(rng, 2 * T)
        Cno, Coo = C[:2 * n, 2 * n:], C[2 * n:, 2 * n:]
        for cond in (0, 3e-2, 3e-3):
            R = SC.create_tomographic_covariance_reconstructor(C.copy(), n, cond)
            if R.shape != Cno.shape:
                return bad("reconstructor shape", list(R.shape), list(Cno.shape))
            w, V = numpy.linalg.eigh(Coo)
            keep = w > cond * w.max() if cond > 0 else w > 1e-13 * w.max()
            P = V[:, keep] @ V[:, keep].T                       # projector on the retained singular subspace
            lhs, rhs = R @ Coo @ P, Cno @ P
            if not numpy.allclose(lhs, rhs, rtol=0, atol=1e-8 * abs(C).max()):
                return bad("normal equations R C_oo = C_no fail on the retained singular subspace (conditioning %g, T=%d, n=%d)" % (cond, T, n), float(abs(lhs - rhs).max()), 0.0)
            if not numpy.allclose(R @ (numpy.eye(len(P)) - P), 0, atol=1e-8 * abs(R).max()):
                return bad("reconstructor has weight outside the retained singular subspace (conditioning %g)" % cond, float(abs(R @ (numpy.eye(len(P)) - P)).max()), 0.0)
    # duplicate sensor: on-axis sensor identical to the first off-axis sensor
    C0, _ = psd(rng, 6, gaps=False)
    n = 1
    idx = [0, 1] + list(range(6))
    C = C0[numpy.ix_(idx, idx)]
    R = SC.create_tomographic_covariance_reconstructor(C, n, 0)
    E = numpy.zeros((2, 6)); E[0, 0] = E[1, 1] = 1
    if not numpy.allclose(R, E, atol=1e-8):
        return bad("duplicate on-axis sensor: R does not reproduce that sensor with zero weight to the others", R.tolist(), E.tolist())


def covobj(theta0=(0., 0.), threads=1):
    mask = aotools.circle(2, 4)
    return aotools.CovarianceMatrix(3, [mask, mask.copy(), mask.copy()], 8., [2., 2., 2.], [0, 0, 0], [list(theta0), [20, 0], [-10, 15]], [5e-7] * 3, 2, numpy.array([0., 6000.]), [0.2, 0.3], [25., 20.],
                                    threads=threads)


def chk_method(inp):
    # both builders of the covariance matrix (in-process, and the pool of worker processes) and a switch between them on one object
    for threads, threads2 in ((1, 1), (2, 2), (1, 2), (2, 1)):
        cm = covobj(threads=threads)
        M = cm.make_covariance_matrix()
        for cond in (0, 1e-3):
            R = cm.make_tomographic_reconstructor(cond)
            want = SC.create_tomographic_covariance_reconstructor(M.copy(), int(cm.n_subaps[0]), cond)
            if not numpy.array_equal(R, want):
                return bad("make_tomographic_reconstructor(%g) is not the reconstructor of the current covariance matrix with the first WFS on axis (threads=%d)" % (cond, threads))
        # rebuild with a changed system, same conditioning: the reconstructor must follow the new matrix
        cm.gs_positions = [[5, 5], [20, 0], [-10, 15]]
        cm.layer_r0s = [0.1, 0.5]
        cm.threads = threads2
        M2 = cm.make_covariance_matrix()
        R2 = cm.make_tomographic_reconstructor(1e-3)
        want2 = SC.create_tomographic_covariance_reconstructor(M2.copy(), int(cm.n_subaps[0]), 1e-3)
        if not numpy.array_equal(R2, want2):
            return bad("after rebuilding the covariance matrix (threads %d, then %d) the reconstructor is stale (not computed from the current matrix)" % (threads, threads2), float(abs(R2 - want2).max()), 0.0)
        # a matrix assigned by the caller (e.g. a measured covariance) is the current matrix as well
        cm.covariance_matrix = (M2 * 2 + numpy.eye(len(M2), dtype=M2.dtype)).astype(M2.dtype)
        R3 = cm.make_tomographic_reconstructor(1e-3)
        want3 = SC.create_tomographic_covariance_reconstructor(cm.covariance_matrix.copy(), int(cm.n_subaps[0]), 1e-3)
        if not numpy.array_equal(R3, want3):
            return bad("after the caller replaced covariance_matrix the reconstructor is stale (not computed from the current matrix)", float(abs(R3 - want3).max()), 0.0)


    # end to end: geometries fed through the builder, incl. a guide star in the SAME direction as the target sensor but at another
    # altitude / with another mask / at another wavelength (not a duplicate), and a true duplicate
    m4 = aotools.circle(2, 4)
    m4b = numpy.array(m4); m4b[0, 1], m4b[3, 3] = 0, 1          # same number of sub-apertures, different layout
    systems = {
        "same direction, LGS behind an NGS target": dict(masks=[m4, m4, m4], H=[0, 90000., 0], pos=[[10, 5], [10, 5], [-10, 15]], lam=[5e-7] * 3),
        "same direction, different mask layout": dict(masks=[m4, m4b, m4], H=[0, 0, 0], pos=[[0, 0], [0, 0], [12, -7]], lam=[5e-7] * 3),
        "same direction, different wavelength": dict(masks=[m4, m4, m4], H=[0, 0, 0], pos=[[3, 3], [3, 3], [-9, 4]], lam=[1.65e-6, 6e-7, 6e-7]),
        "true duplicate": dict(masks=[m4, m4, m4], H=[0, 0, 0], pos=[[3, 3], [3, 3], [-9, 4]], lam=[5e-7] * 3),
        "unequal sub-aperture counts (12, 16, 4)": dict(masks=[m4, numpy.ones((4, 4)), aotools.circle(1, 4)], H=[0, 0, 90000.], pos=[[0, 0], [14, 2], [-9, 4]], lam=[5e-7, 6e-7, 7e-7]),
        "unequal sub-aperture counts (16, 12, 12, 4)": dict(masks=[numpy.ones((4, 4)), m4, m4b, aotools.circle(1, 4)], H=[0, 0, 0, 0], pos=[[0, 0], [14, 2], [-9, 4], [5, 5]], lam=[5e-7] * 4),
        "no coincidence": dict(masks=[m4, m4b, m4], H=[0, 90000., 20000.], pos=[[0, 0], [14, 2], [-9, 4]], lam=[5e-7, 6e-7, 7e-7]),
    }
    for name, s_ in systems.items():
        nw = len(s_["masks"])
        cmx = aotools.CovarianceMatrix(nw, s_["masks"], 8., [2.] * nw, s_["H"], s_["pos"], s_["lam"], 2, numpy.array([0., 6000.]), [0.2, 0.3], [25., 20.])
        C = cmx.make_covariance_matrix().astype(float)
        n2 = 2 * int(numpy.asarray(s_["masks"][0]).sum())          # the on-axis sensor is the first one: its sub-apertures counted from ITS mask
        Cno, Coo = C[:n2, n2:], C[n2:, n2:]
        for cond in (0, 1e-4):
            R = numpy.asarray(cmx.make_tomographic_reconstructor(cond), dtype=float)
            if R.shape != Cno.shape:
                return bad("end to end (%s): reconstructor shape" % name, list(R.shape), list(Cno.shape))
            w, V = numpy.linalg.eigh((Coo + Coo.T) / 2)
            keep = w > max(cond, 3e-6) * w.max()          # single-precision builder: modes below ~1e-6 are rounding
            P = V[:, keep] @ V[:, keep].T
            lhs, rhs = R @ Coo @ P, Cno @ P
            if not numpy.allclose(lhs, rhs, rtol=0, atol=2e-3 * abs(C).max()):
                return bad("end to end (%s, conditioning %g): the method's reconstructor does not satisfy the normal equations R C_oo = C_no on the retained subspace" % (name, cond),
                           float(abs(lhs - rhs).max() / abs(C).max()), "< 2e-3")
            if name == "true duplicate" and cond == 0:
                # an on-axis sensor identical to an off-axis one: the built matrix must make R reproduce that sensor, zero weight elsewhere
                E = numpy.zeros_like(R); E[:, :n2] = numpy.eye(n2)
                if not numpy.allclose(R, E, atol=2e-3):
                    return bad("end to end (duplicate sensor): the reconstructor does not reproduce the duplicated sensor's slopes with zero weight on the others", float(abs(R - E).max()), "< 2e-3")
                # and the matrix it was built from is a covariance: symmetric, positive semi-definite to single precision
                w_ = numpy.linalg.eigvalsh((C + C.T) / 2)
                if abs(C - C.T).max() > 1e-6 * abs(C).max() or w_.min() < -1e-5 * abs(C).max():
                    return bad("end to end: the built covariance matrix is not symmetric positive semi-definite (to single precision)", float(w_.min() / abs(C).max()), ">= -1e-5")


one = lambda t, s: [{}]
CLAUSES = {"normal-equations": (chk_normal, one), "method": (chk_method, one)}
if __name__ == "__main__":
    main(CLAUSES)
