import sys, os
sys.path.insert(0, os.path.dirname(os.path.abspath(__file__)))
import numpy
from _harness import main
import aotools


def bad(msg, obs=None, exp=None):
    return {"message": msg, "observed": obs, "expected": exp}


def system(kind, threads):
    rng = numpy.random.default_rng(4)
    if kind == "unequal-lgs":
        masks = [aotools.circle(3, 6), aotools.circle(2, 6), (rng.random((6, 6)) > 0.4).astype(float)]
        H = [90000., 90000., 20000.]
    elif kind == "ngs-offaxis":
        masks = [(rng.random((5, 5)) > 0.3).astype(float), aotools.circle(2.5, 5), aotools.circle(2, 5)]
        H = [0, 0, 90000.]
    else:
        masks = [aotools.circle(2.5, 5)] * 3
        H = [90000.] * 3
    return aotools.CovarianceMatrix(3, masks, 4.0, [4.0 / len(masks[0])] * 3, H, [[10, 0], [-5, 8], [3, -12]], [5e-7, 6e-7, 5.5e-7], 2, numpy.array([0., 8000.]), [0.2, 0.4], [25., 15.], threads)


def system_layers(threads, n_wfs, n_layers):
    """more layers than sensor pairs (1 sensor x 3..4 layers, 2 sensors x 4..5 layers)"""
    rng = numpy.random.default_rng(17)
    masks = [(rng.random((5, 5)) > 0.35).astype(float), aotools.circle(2.5, 5)][:n_wfs]
    alts = numpy.array([0., 3000., 7000., 11000., 15000.])[:n_layers]
    return aotools.CovarianceMatrix(n_wfs, masks, 4.0, [0.8] * n_wfs, [0, 90000.][:n_wfs], [[10, 0], [-5, 8]][:n_wfs], [5e-7, 6e-7][:n_wfs], n_layers, alts,
                                    [0.2, 0.4, 0.3, 0.25, 0.5][:n_layers], [25., 15., 30., 20., 10.][:n_layers], threads)


def system3(threads, n_wfs=3):
    """three layers (float32 accumulation over >= 3 terms is order dependent), unequal sub-aperture counts, NGS + LGS"""
    rng = numpy.random.default_rng(9)
    masks = [(rng.random((5, 5)) > 0.35).astype(float), aotools.circle(2.5, 5), aotools.circle(2, 5), (rng.random((5, 5)) > 0.5).astype(float)][:n_wfs]
    H = [0, 90000., 0, 20000.][:n_wfs]
    pos = [[10, 0], [-5, 8], [3, -12], [0, 7]][:n_wfs]
    return aotools.CovarianceMatrix(n_wfs, masks, 4.0, [0.8] * n_wfs, H, pos, [5e-7, 6e-7, 5.5e-7, 7e-7][:n_wfs], 3, numpy.array([0., 4000., 11000.]), [0.2, 0.4, 0.3], [25., 15., 30.], threads)


class _Result:
    def __init__(self, v): self.v = v
    def get(self, timeout=None): return self.v
    def wait(self, timeout=None): pass
    def ready(self): return True
    def successful(self): return True


def fake_pool(mode):
    """an in-process stand-in that honours the documented contract of multiprocessing.Pool: map / imap / starmap return results in
    input order; imap_unordered may deliver them in ANY order (here: a fixed permutation chosen by `mode`)"""
    def permute(xs):
        xs = list(xs)
        if mode == "reverse":
            return xs[::-1]
        if mode == "rotate":
            return xs[1:] + xs[:1]
        if mode == "evenodd":
            return xs[1::2] + xs[0::2]
        return xs

    class FakePool:
        def __init__(self, processes=None, *a, **k): self.processes = processes
        def map(self, f, it, chunksize=None): return [f(x) for x in it]
        def imap(self, f, it, chunksize=1): return iter([f(x) for x in it])
        def imap_unordered(self, f, it, chunksize=1): return iter(permute([f(x) for x in it]))
        def starmap(self, f, it, chunksize=None): return [f(*x) for x in it]
        def map_async(self, f, it, chunksize=None, callback=None, error_callback=None):
            r = [f(x) for x in it]
            if callback: callback(r)
            return _Result(r)
        def starmap_async(self, f, it, chunksize=None, callback=None, error_callback=None):
            r = [f(*x) for x in it]
            if callback: callback(r)
            return _Result(r)
        def apply(self, f, args=(), kwds={}): return f(*args, **kwds)
        def apply_async(self, f, args=(), kwds={}, callback=None, error_callback=None):
            r = f(*args, **kwds)
            if callback: callback(r)
            return _Result(r)
        def close(self): pass
        def join(self): pass
        def terminate(self): pass
        def __enter__(self): return self
        def __exit__(self, *a): return False
    return FakePool


def chk_schedules(inp):
    """schedule exploration under the Pool contract: every delivery order the contract allows must give the single-process bits"""
    import types
    from aotools.turbulence import slopecovariance as SC
    real_mp = SC.multiprocessing
    try:
        for n_wfs in (2, 3, 4):
            ref = system3(1, n_wfs).make_covariance_matrix().copy()
            for mode in ("inorder", "reverse", "rotate", "evenodd"):
                shim = types.SimpleNamespace(**{k: getattr(real_mp, k) for k in dir(real_mp) if not k.startswith("__")})
                shim.Pool = fake_pool(mode)
                shim.get_context = lambda *a, **k: shim
                SC.multiprocessing = shim
                for threads in (2, 3, 4, 5):
                    M = system3(threads, n_wfs).make_covariance_matrix()
                    if M.shape != ref.shape or not numpy.array_equal(M, ref):
                        return bad("%d sensors, 3 layers, %d workers, results delivered in '%s' order (allowed by the Pool contract for unordered delivery; in-order for map): matrix is not bit-identical to the single-process one"
                                   % (n_wfs, threads, mode), int((M != ref).sum()) if M.shape == ref.shape else list(M.shape), 0)
    finally:
        SC.multiprocessing = real_mp


def chk_builds(inp):
    kinds = [inp["kind"]] if inp and "kind" in inp else ["equal", "unequal-lgs", "ngs-offaxis"]
    if not (inp and inp.get("no_schedules")):
        r = chk_schedules(inp)
        if r:
            return r
        # real pools, worker counts that do not divide the number of sensor pairs
        for n_wfs, ts in ((2, (2,)), (3, (4, 5)), (4, (3,))):
            ref3 = system3(1, n_wfs).make_covariance_matrix().copy()
            for t in ts:
                M = system3(t, n_wfs).make_covariance_matrix()
                if M.shape != ref3.shape or not numpy.array_equal(M, ref3):
                    return bad("%d sensors (%d pairs), 3 layers, %d workers: matrix is not bit-identical to the single-process one" % (n_wfs, n_wfs * (n_wfs + 1) // 2, t),
                               int((M != ref3).sum()) if M.shape == ref3.shape else list(M.shape), 0)
    if not (inp and inp.get("no_schedules")):
        for (n_wfs, n_layers) in ((1, 3), (1, 4), (2, 4), (2, 5)):
            refl = system_layers(1, n_wfs, n_layers).make_covariance_matrix().copy()
            cm = system_layers(2, n_wfs, n_layers)
            for t in (2, 1, 3, 2):
                cm.threads = t
                M = cm.make_covariance_matrix()
                if M.shape != refl.shape or not numpy.array_equal(M, refl):
                    return bad("%d sensor(s), %d layers (more layers than sensor pairs), %d workers: matrix is not bit-identical to the single-process one" % (n_wfs, n_layers, t),
                               int((M != refl).sum()) if M.shape == refl.shape else list(M.shape), 0)
    if not (inp and inp.get("no_schedules")):
        # configuration given as float64 ndarrays (what the docstring asks for); rebuilds on one object; n_layers a prefix of a longer profile
        rng = numpy.random.default_rng(23)
        masks = [(rng.random((5, 5)) > 0.35).astype(float), aotools.circle(2.5, 5), aotools.circle(2, 5)]
        def build(threads, n_layers):
            gs = numpy.array([[10., 0.], [-5., 8.], [3., -12.]])
            return aotools.CovarianceMatrix(3, [m.copy() for m in masks], 4.0, numpy.array([0.8, 0.8, 0.8]), numpy.array([0., 90000., 0.]), gs, numpy.array([5e-7, 6e-7, 5.5e-7]),
                                            n_layers, numpy.array([0., 4000., 11000., 15000.]), numpy.array([0.2, 0.4, 0.3, 0.25]), numpy.array([25., 15., 30., 20.]), threads), gs
        for n_layers in (4, 3, 2):
            ref_nd = build(1, n_layers)[0].make_covariance_matrix().copy()
            for seq in ([1, 1], [1, 2, 1], [2, 1, 2], [3, 3]):
                cm, gs = build(seq[0], n_layers)
                gs0 = gs.copy()
                for k, t in enumerate(seq):
                    cm.threads = t
                    M = cm.make_covariance_matrix()
                    if M.shape != ref_nd.shape or not numpy.array_equal(M, ref_nd):
                        return bad("ndarray configuration, %d of 4 profile layers used: build %d of the sequence threads=%s is not bit-identical to the single-process matrix of a fresh object" % (n_layers, k, seq),
                                   int((M != ref_nd).sum()) if M.shape == ref_nd.shape else list(M.shape), 0)
                    if not numpy.array_equal(gs, gs0):
                        return bad("make_covariance_matrix modified the guide-star position array it was configured with (state carried into the next build)")
    if not (inp and inp.get("no_schedules")):
        # low (Rayleigh) laser guide stars with turbulence above them: the code works with negative meta sub-aperture sizes there and still builds a matrix
        def rayleigh(threads):
            rng = numpy.random.default_rng(31)
            masks = [aotools.circle(2.5, 5), (rng.random((5, 5)) > 0.3).astype(float), aotools.circle(2, 5)]
            return aotools.CovarianceMatrix(3, masks, 4.0, [0.8] * 3, [15000., 12000., 0], [[10, 0], [-5, 8], [3, -12]], [5e-7, 6e-7, 5.5e-7], 3, numpy.array([0., 8000., 17000.]),
                                            [0.2, 0.4, 0.3], [25., 15., 30.], threads)
        refr = rayleigh(1).make_covariance_matrix().copy()
        for t in (2, 3):
            M = rayleigh(t).make_covariance_matrix()
            if M.shape != refr.shape or not numpy.array_equal(M.view("int32"), refr.view("int32")):
                return bad("guide stars at 15 / 12 km, a layer at 17 km, %d workers: matrix is not bit-identical to the single-process one" % t, int((M.view("int32") != refr.view("int32")).sum()) if M.shape == refr.shape else list(M.shape), 0)
    if not (inp and inp.get("no_schedules")):
        for dt in ("float32", "float16", "int64"):
            def typed(threads, dt=dt):
                rng = numpy.random.default_rng(41)
                masks = [aotools.circle(2.5, 5), (rng.random((5, 5)) > 0.3).astype(float)]
                r0s = numpy.array([1, 2, 3] if dt == "int64" else [0.2, 0.4, 0.3]).astype(dt)
                L0s = numpy.array([25, 15, 30]).astype(dt)
                return aotools.CovarianceMatrix(2, masks, 4.0, [0.8, 0.8], [0, 90000.], [[10, 0], [-5, 8]], [5e-7, 6e-7], 3, numpy.array([0., 4000., 11000.]).astype("float32" if dt != "int64" else dt), r0s, L0s, threads)
            reft = typed(1).make_covariance_matrix().copy()
            cmt = typed(2)
            for t in (2, 1, 3):
                cmt.threads = t
                M = cmt.make_covariance_matrix()
                if M.shape != reft.shape or not numpy.array_equal(M.view("int32"), reft.view("int32")):
                    return bad("turbulence profile given as %s arrays, %d workers: matrix is not bit-identical to the single-process one" % (dt, t), int((M.view("int32") != reft.view("int32")).sum()) if M.shape == reft.shape else list(M.shape), 0)
    for kind in kinds:
        ref = system(kind, 1).make_covariance_matrix().copy()
        for seq in ([1, 1], [2, 2], [1, 2, 1], [3, 1, 1, 2], [2, 1, 2], [1, 2, 1, 3]):
            cm = system(kind, seq[0])
            held = []
            for k, t in enumerate(seq):
                cm.threads = t
                M = cm.make_covariance_matrix()
                if M.shape != ref.shape or not numpy.array_equal(M, ref):
                    return bad("system '%s': build %d of the sequence threads=%s is not bit-identical to the single-process matrix of a fresh object" % (kind, k, seq),
                               int((M != ref).sum()) if M.shape == ref.shape else list(M.shape), 0)
                held.append(M)          # the caller keeps every matrix it was given (no copy): a later build must not change it
                for j, Mj in enumerate(held):
                    if not numpy.array_equal(Mj, ref):
                        return bad("system '%s', sequence threads=%s: the matrix returned by build %d is no longer the single-process matrix after build %d (a rebuild wrote into the array an earlier build returned)" % (kind, seq, j, k),
                                   int((Mj != ref).sum()), 0)


CLAUSES = {"builds": (chk_builds, lambda t, s: [{"kind": "equal"}] + [{"kind": k, "no_schedules": True} for k in ("unequal-lgs", "ngs-offaxis")]), "assembly": (chk_builds, lambda t, s: [{"kind": "unequal-lgs"}])}
if __name__ == "__main__":
    main(CLAUSES)
