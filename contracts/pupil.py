"""Contracts for aotools/functions/pupil.py"""
import z3
from aovc.check import num
from aovc.contract import verify
from aovc.values import zr, cmp, b_and
from aovc.arrays import Arr

PUPIL = "aotools/functions/pupil.py"


def circle_spec(radius, size, c0, c1, origin):
    """ghost spec (from the property statement): indicator of pixel centres (half-integer coordinates, measured from
    the array middle or corner) within distance r of the centre c.  Column index j is x, row index i is y."""
    o = zr(size) / 2 if origin == "middle" else z3.RealVal(0)

    def ind(i, j):
        dx = zr(j) + z3.RealVal("1/2") - o - zr(c0)
        dy = zr(i) + z3.RealVal("1/2") - o - zr(c1)
        return dx * dx + dy * dy <= zr(radius) * zr(radius)
    return ind


def circle_summary(it, args, kwargs):
    """callee contract used at call sites of circle() (modular: the body is verified by its own obligations)"""
    names = ["radius", "size", "circle_centre", "origin"]
    vals = dict(zip(names, args))
    vals.update(kwargs)
    centre = vals.get("circle_centre", (0, 0))
    origin = vals.get("origin", "middle")
    size = vals["size"]
    from aovc.npmodel import as_dim
    from aovc.values import ite
    if origin not in ("middle", "corner"):
        origin = "corner"     # the real code only tests origin == "middle"
    n = as_dim(size)
    it.ctx.definedness(cmp(">=", n, 0), "circle: size >= 0")
    ind = circle_spec(vals["radius"], n, centre[0], centre[1], origin)
    return Arr([n, n], lambda idx: ite(ind(idx[0], idx[1]), 1, 0), "float")


def obligations(chk):
    size = z3.Int("size")
    radius, c0, c1 = z3.Reals("radius c0 c1")
    i, j = z3.Ints("i j")
    for origin in ("middle", "corner"):
        def run(it, origin=origin):
            it.ctx.assume(size >= 0)
            it.ctx.assume(radius >= 0)
            return it.call_repo(PUPIL, "circle", [radius, size, (c0, c1), origin])

        def post(pr, origin=origin):
            C = pr.value
            ind = circle_spec(radius, size, c0, c1, origin)
            inb = z3.And(i >= 0, i < size, j >= 0, j < size)
            v = zr(C.get([i, j]))
            return [
                ("shape", z3.And(*[z3.simplify(zr(d) == zr(size)) for d in C.shape]) if len(C.shape) == 2 else z3.BoolVal(False)),
                ("indicator", z3.Implies(inb, v == z3.If(ind(i, j), z3.RealVal(1), z3.RealVal(0)))),
            ]

        def replay(m, origin=origin):
            g = lambda t: num(m.eval(t, model_completion=True))
            return {"radius": g(radius), "size": g(size), "c0": g(c0), "c1": g(c1), "origin": origin, "i": g(i), "j": g(j)}
        verify(chk, "circle[%s]" % origin, PUPIL + ":circle", run, post, clause="circle.indicator", replay=replay)

    # default arguments: circle(radius, size) is the centred, middle-origin mask
    def run_default(it):
        it.ctx.assume(size >= 0)
        it.ctx.assume(radius >= 0)
        return it.call_repo(PUPIL, "circle", [radius, size])

    def post_default(pr):
        ind = circle_spec(radius, size, 0, 0, "middle")
        inb = z3.And(i >= 0, i < size, j >= 0, j < size)
        return [("indicator", z3.Implies(inb, zr(pr.value.get([i, j])) == z3.If(ind(i, j), z3.RealVal(1), z3.RealVal(0))))]
    verify(chk, "circle[defaults]", PUPIL + ":circle", run_default, post_default, clause="circle.indicator",
           replay=lambda m: {"radius": num(m.eval(radius, model_completion=True)), "size": num(m.eval(size, model_completion=True)), "c0": 0, "c1": 0, "origin": "middle",
                             "i": num(m.eval(i, model_completion=True)), "j": num(m.eval(j, model_completion=True))})

    # lemmas over the contract (consequences stated in the property), proved from the spec function alone
    r2 = z3.Real("radius2")
    k, l = z3.Ints("k l")
    for origin in ("middle", "corner"):
        ind = circle_spec(radius, size, c0, c1, origin)
        ind2 = circle_spec(r2, size, c0, c1, origin)
        chk.add("circle.lemma.nested[%s]" % origin, [radius >= 0, r2 >= radius], z3.Implies(ind(i, j), ind2(i, j)),
                PUPIL + ":circle", "lemma-over-contract", "circle.nested")
        indk = circle_spec(radius, size, c0 + z3.ToReal(k), c1 + z3.ToReal(l), origin)
        chk.add("circle.lemma.translate[%s]" % origin, [], indk(i, j) == ind(i - l, j - k), PUPIL + ":circle", "lemma-over-contract", "circle.translate")
    indc = circle_spec(radius, size, 0, 0, "middle")
    chk.add("circle.lemma.sym.transpose", [], indc(i, j) == indc(j, i), PUPIL + ":circle", "lemma-over-contract", "circle.symmetric")
    chk.add("circle.lemma.sym.flipud", [], indc(i, j) == indc(size - 1 - i, j), PUPIL + ":circle", "lemma-over-contract", "circle.symmetric")
    chk.add("circle.lemma.sym.fliplr", [], indc(i, j) == indc(i, size - 1 - j), PUPIL + ":circle", "lemma-over-contract", "circle.symmetric")
