"""Matrix algebra encoding (DESIGN 4.4): matrices produced by dot / .T / pinv / cho_solve / svd are carried as non-commutative
polynomials over matrix symbols; library contracts (Moore-Penrose equations, two-sided inverse, svd of a symmetric matrix) and
hypotheses are rewrite rules  lhs-word -> polynomial; an identity is proved when the difference of its two sides rewrites to 0.
A symbol may be backed by a functional array (its pointwise content), which is how blocks sliced out of real arrays enter the algebra
and how transposition relations between blocks (C_xz^T = C_zx) are discharged pointwise by the SMT solver.
Refutation: the same identity over 2x2 real matrices (finite interpretation), quantifier-free, for z3."""
from fractions import Fraction
import z3
from .values import *      # noqa
from .values import _num
from .arrays import Arr, dim_eq
from .symex import BoundMethod, PyException


class Sym:
    def __init__(self, name, shape, arr=None, symmetric=False, diagonal=False):
        self.name, self.shape, self.arr, self.symmetric, self.diagonal = name, shape, arr, symmetric, diagonal
        self.transpose_of = None      # name of the symbol that is this one's transpose (if known)


class Algebra:
    """per-path registry of symbols and rules"""

    def __init__(self, ctx):
        self.ctx = ctx
        self.syms = {}
        self.rules = []       # (lhs tuple of (name, transposed), rhs poly, justification)
        self.assumed = []     # textual list of library contracts / hypotheses used as rules

    def sym(self, name, shape, arr=None, symmetric=False, diagonal=False):
        if name not in self.syms:
            self.syms[name] = Sym(name, shape, arr, symmetric, diagonal)
        return self.syms[name]

    def rule(self, lhs, rhs, why):
        self.rules.append((tuple(lhs), dict(rhs), why))
        if why not in self.assumed:
            self.assumed.append(why)


def algebra(it):
    if not hasattr(it.ctx, "matalg"):
        it.ctx.matalg = Algebra(it.ctx)
    return it.ctx.matalg


def padd(p, q, sign=1):
    out = dict(p)
    for w, c in q.items():
        nc = r_add(out.get(w, 0), r_mul(sign, c))
        nc = simp(nc)
        if is_conc(nc) and _num(nc) == 0:
            out.pop(w, None)
        else:
            out[w] = nc
    return out


def pmul(p, q):
    out = {}
    for w1, c1 in p.items():
        for w2, c2 in q.items():
            out = padd(out, {w1 + w2: r_mul(c1, c2)})
    return out


def pscale(p, c):
    return {w: simp(r_mul(c, v)) for w, v in p.items() if not (is_conc(simp(r_mul(c, v))) and _num(simp(r_mul(c, v))) == 0)}


class Mat:
    """matrix (or vector) value: non-commutative polynomial in matrix symbols"""

    def __init__(self, it, poly, shape):
        self.it = it
        self.poly = poly
        self.shape = list(shape)

    @property
    def ndim(self):
        return len(self.shape)

    def T(self):
        alg = algebra(self.it)
        out = {}
        for w, c in self.poly.items():
            tw = []
            for (n, t) in reversed(w):
                s = alg.syms[n]
                if s.symmetric or s.diagonal:
                    tw.append((n, False))
                elif (not t) and s.transpose_of:
                    tw.append((s.transpose_of, False))
                else:
                    tw.append((n, not t))
            out = padd(out, {tuple(tw): c})
        return Mat(self.it, out, list(reversed(self.shape)))

    def __aovc_attr__(self, it, name):
        if name == "T":
            return self.T()
        if name == "shape":
            return tuple(self.shape)
        return BoundMethod(self, name)

    def __aovc_method__(self, it, name, args, kwargs):
        if name == "dot":
            return dot(it, self, args[0])
        if name == "copy":
            return self
        if name == "transpose" and not args:
            return self.T()
        return NotImplemented

    def __aovc_binop__(self, it, op, other, swapped):
        if op in ("Add", "Sub") and is_scalar(other) and not isinstance(other, (Cx, Polar)):
            # broadcasting a scalar over a vector / matrix: scalar * ONES
            alg = algebra(it)
            tot = 1
            for d_ in self.shape:
                tot = r_mul(tot, d_)
            nm = "ones[%s]" % simp(tot)
            alg.sym(nm, list(self.shape))
            other = Mat(it, {((nm, False),): other}, self.shape)
        if op in ("Add", "Sub"):
            o = to_mat(it, other)
            a, b = (o, self) if swapped else (self, o)
            check_shapes(it, a.shape, b.shape, "matrix %s" % op)
            return Mat(it, padd(a.poly, b.poly, 1 if op == "Add" else -1), a.shape)
        if op == "Mult" and is_scalar(other) and not isinstance(other, (Cx, Polar)):
            return Mat(it, pscale(self.poly, other), self.shape)
        if op == "Div" and not swapped and is_scalar(other):
            return Mat(it, pscale(self.poly, r_div(1, other, it.ctx)), self.shape)
        if op == "MatMult":
            return dot(it, other, self) if swapped else dot(it, self, other)
        raise Unsupported("operation %s on an abstract matrix" % op)

    def __aovc_unop__(self, it, op):
        if op == "USub":
            return Mat(it, pscale(self.poly, -1), self.shape)
        raise Unsupported("unary %s on a matrix" % op)

    def __aovc_setattr__(self, it, name, v):
        if name == "shape":
            newshape = [x for x in it.unpack(v, None)]
            # reshaping a vector (n,) to a row (1, n): same abstract value, new shape (tracked for the frame of add_row)
            self.shape = [simp(x) for x in newshape]
            return True
        return False


def check_shapes(it, a, b, what):
    if len(a) != len(b):
        it.ctx.definedness(False, what + ": ranks differ")
        return
    for p, q in zip(a, b):
        if dim_eq(p, q) is not True:
            it.ctx.definedness(cmp("==", p, q), what + ": shapes agree")


_auto = [0]


def describe_arr(it, a):
    """a canonical name for a functional array: hash of its shape and of its element at a canonical index"""
    import hashlib
    idx = [z3.Int("m!%d" % k) for k in range(a.ndim)]
    e = a.get(idx)
    txt = (z3.simplify(zr(e)).sexpr() if not isinstance(e, (Cx, Polar)) else repr(e)) + "|" + "|".join(str(simp(d)) for d in a.shape)
    return "M" + hashlib.sha256(txt.encode()).hexdigest()[:8]


def to_mat(it, x, name=None):
    if isinstance(x, Mat):
        return x
    if isinstance(x, Arr):
        alg = algebra(it)
        if getattr(x, "mat", None) is not None:
            return x.mat
        if getattr(x, "is_identity", False):
            return Mat(it, {(): 1}, list(x.shape))
        nm = name or getattr(x, "mat_name", None) or describe_arr(it, x)
        frozen = x.frozen()
        s = alg.sym(nm, list(x.shape), arr=frozen)
        if not hasattr(s, "src"):
            s.src = x
        # symmetry of a square functional array is discharged pointwise (solver) once, when the symbol is created
        if x.ndim == 2 and dim_eq(x.shape[0], x.shape[1]) is True and not hasattr(s, "_symm_checked"):
            s._symm_checked = True
            i, j = z3.Int("sy!i"), z3.Int("sy!j")
            inb = z3.And(i >= 0, i < zi(x.shape[0]), j >= 0, j < zi(x.shape[1]))
            if it.ctx.valid(z3.Implies(inb, zr(frozen.get([i, j])) == zr(frozen.get([j, i])))):
                s.symmetric = True
        return Mat(it, {((nm, False),): 1}, list(x.shape))
    raise Unsupported("cannot use %s as a matrix" % type(x).__name__)


def link_transposes(it):
    """discover S^T = T between array-backed symbols (pointwise, by the solver)"""
    alg = algebra(it)
    names = [n for n, s in alg.syms.items() if s.arr is not None and s.arr.ndim == 2 and not s.symmetric]
    i, j = z3.Int("tr!i"), z3.Int("tr!j")
    for a in names:
        for b in names:
            if a >= b:
                continue
            sa, sb = alg.syms[a], alg.syms[b]
            if sa.transpose_of or sb.transpose_of:
                continue
            if dim_eq(sa.shape[0], sb.shape[1]) is not True or dim_eq(sa.shape[1], sb.shape[0]) is not True:
                if not (it.ctx.valid(cmp("==", sa.shape[0], sb.shape[1])) and it.ctx.valid(cmp("==", sa.shape[1], sb.shape[0]))):
                    continue
            inb = z3.And(i >= 0, i < zi(sa.shape[0]), j >= 0, j < zi(sa.shape[1]))
            if it.ctx.valid(z3.Implies(inb, zr(sa.arr.get([i, j])) == zr(sb.arr.get([j, i])))):
                sa.transpose_of, sb.transpose_of = b, a


def dot(it, a, b):
    A, B = to_mat(it, a), to_mat(it, b)
    if A.ndim == 2 and B.ndim == 2:
        check_shapes(it, [A.shape[1]], [B.shape[0]], "dot: inner dimensions")
        shape = [A.shape[0], B.shape[1]]
    elif A.ndim == 2 and B.ndim == 1:
        check_shapes(it, [A.shape[1]], [B.shape[0]], "dot: inner dimensions")
        shape = [A.shape[0]]
    elif A.ndim == 1 and B.ndim == 1:
        check_shapes(it, [A.shape[0]], [B.shape[0]], "dot: lengths")
        shape = []
    else:
        raise Unsupported("dot of ranks %d, %d" % (A.ndim, B.ndim))
    return Mat(it, pmul(A.poly, B.poly), shape)


def normalise(it, poly, extra_rules=()):
    alg = algebra(it)
    rules = list(alg.rules) + list(extra_rules)
    changed = True
    guard = 0
    while changed and guard < 200:
        changed = False
        guard += 1
        for w in list(poly.keys()):
            for (lhs, rhs, why) in rules:
                n = len(lhs)
                for k in range(len(w) - n + 1):
                    if w[k:k + n] == lhs:
                        c = poly.pop(w)
                        rep = {w[:k] + rw + w[k + n:]: r_mul(c, rc) for rw, rc in rhs.items()}
                        poly = padd(poly, rep)
                        changed = True
                        break
                if changed:
                    break
            if changed:
                break
    return poly


def equal(it, a, b, extra_rules=()):
    """(proved?, residual polynomial)"""
    d = normalise(it, padd(to_mat(it, a).poly, to_mat(it, b).poly, -1), extra_rules)
    # coefficients that are symbolic but provably zero
    d = {w: c for w, c in d.items() if not (is_z3(c) and it.ctx.valid(c == 0))}
    return (len(d) == 0), d


def show(poly):
    if not poly:
        return "0"
    out = []
    for w, c in poly.items():
        out.append(("%s*" % c if not (is_conc(c) and _num(c) == 1) else "") + (".".join(n + ("^T" if t else "") for n, t in w) or "I"))
    return " + ".join(out)


# ----------------------------------------------------------------------------- library contracts

def pinv(it, x, rcond=None):
    A = to_mat(it, x)
    alg = algebra(it)
    if len(A.poly) != 1 or list(A.poly.values())[0] != 1 or len(list(A.poly)[0]) != 1:
        raise Unsupported("pinv of a compound matrix expression")
    (an, at), = list(A.poly)[0]
    pn = "pinv(%s)" % an
    alg.sym(pn, [A.shape[1], A.shape[0]], symmetric=alg.syms[an].symmetric)
    a, p = (an, at), (pn, False)
    why = "numpy.linalg.pinv: the four Moore-Penrose equations (for rcond > 0: of the rank-truncated matrix)"
    alg.rule([a, p, a], {(a,): 1}, why)
    alg.rule([p, a, p], {(p,): 1}, why)
    # (A A+)^T = A A+ and (A+ A)^T = A+ A : with symmetric A both are consequences used through transposition of words
    res = Mat(it, {(p,): 1}, [A.shape[1], A.shape[0]])
    it.ctx.last_pinv_rcond = rcond if rcond is not None else Fraction(1, 10**15)
    return res


class ChoFactor:
    def __init__(self, mat):
        self.mat = mat


def cho_factor(it, x):
    A = to_mat(it, x)
    (an, at), = list(A.poly)[0]
    # Cholesky succeeds iff the matrix is (numerically) positive definite; otherwise scipy raises LinAlgError: both outcomes are explored
    pd = z3.Bool("positive_definite(%s)" % an)
    if not it.ctx.branch(pd, "cho_factor"):
        raise PyException("LinAlgError", "matrix is not positive definite")
    return ChoFactor(A)


def cho_solve(it, cf, b):
    A = cf.mat
    alg = algebra(it)
    (an, at), = list(A.poly)[0]
    nm = "inv(%s)" % an
    alg.sym(nm, list(A.shape), symmetric=alg.syms[an].symmetric)
    why = "scipy.linalg.cho_factor/cho_solve: X = A^-1 B for symmetric positive-definite A (two-sided inverse), else LinAlgError"
    alg.rule([(an, at), (nm, False)], {(): 1}, why)
    alg.rule([(nm, False), (an, at)], {(): 1}, why)
    it.ctx.notes.append("cho_factor requires a symmetric positive-definite matrix (raises LinAlgError otherwise): positive-definiteness of the covariance block is not decided")
    return dot(it, Mat(it, {((nm, False),): 1}, list(A.shape)), b)


def svd(it, x):
    M = to_mat(it, x)
    alg = algebra(it)
    _auto[0] += 1
    k = _auto[0]
    n = M.shape[0]
    u, d, l = "svd%d.u" % k, "svd%d.diagW" % k, "svd%d.diag(sqrtW)" % k
    alg.sym(u, [n, n]); alg.sym(d, [n, n], diagonal=True); alg.sym(l, [n, n], diagonal=True)
    why = "numpy.linalg.svd of a symmetric positive semi-definite matrix M: M = u diag(W) u^T, W >= 0, u orthogonal"
    # u D u^T -> M
    alg.rule([(u, False), (d, False), (u, True)], dict(M.poly), why)
    alg.rule([(l, False), (l, False)], {((d, False),): 1}, "diag(sqrt(W)) diag(sqrt(W)) = diag(W), W >= 0")
    it.ctx.notes.append("svd contract used for a symmetric PSD argument: symmetry / positive semi-definiteness of Cov_xx - A Cov_zx is assumed (A-MATH: Schur complement of a PSD matrix)")
    U = Mat(it, {((u, False),): 1}, [n, n])
    Wv = SvdValues(k, n, l, d)
    Ut = Mat(it, {((u, True),): 1}, [n, n])
    return (U, Wv, Ut)


class SvdValues:
    """the vector W of singular values (only numpy.sqrt(W) placed on a diagonal is modelled)"""
    def __init__(self, k, n, lname, dname, root=False):
        self.k, self.n, self.lname, self.dname, self.root = k, n, lname, dname, root

    def __aovc_ufunc__(self, it, name):
        if name == "sqrt" and not self.root:
            return SvdValues(self.k, self.n, self.lname, self.dname, root=True)
        raise Unsupported("%s of singular values" % name)


# ----------------------------------------------------------------------------- finite interpretation (refutation)

def refute_2x2(it, a, b, extra_rules=(), timeout_ms=20000, dim=2):
    """is there an assignment of real dim x dim matrices to the symbols satisfying every rule (as an equation) but not a == b ?"""
    alg = algebra(it)
    A, B = to_mat(it, a), to_mat(it, b)
    names = set()
    rules = list(alg.rules) + list(extra_rules)

    def collect(poly):
        for w in poly:
            for (n, t) in w:
                names.add(n)
    collect(A.poly); collect(B.poly)
    for lhs, rhs, _ in rules:
        collect({tuple(lhs): 1}); collect(rhs)
    ent = {}
    cons = []
    for n in names:
        s = alg.syms[n]
        m = [[z3.Real("%s[%d,%d]" % (n, i, j)) for j in range(dim)] for i in range(dim)]
        if s.diagonal:
            for i in range(dim):
                for j in range(dim):
                    if i != j:
                        m[i][j] = z3.RealVal(0)
        if s.symmetric:
            for i in range(dim):
                for j in range(i):
                    m[i][j] = m[j][i]
        ent[n] = m
    for n in names:
        s = alg.syms[n]
        if s.transpose_of in ent:
            for i in range(dim):
                for j in range(dim):
                    cons.append(ent[n][i][j] == ent[s.transpose_of][j][i])

    def mm(x, y):
        return [[sum((x[i][k] * y[k][j] for k in range(dim)), z3.RealVal(0)) for j in range(dim)] for i in range(dim)]

    def ev(poly):
        tot = [[z3.RealVal(0)] * dim for _ in range(dim)]
        for w, c in poly.items():
            cur = [[z3.RealVal(1 if i == j else 0) for j in range(dim)] for i in range(dim)]
            for (n, t) in w:
                m = ent[n]
                if t:
                    m = [[m[j][i] for j in range(dim)] for i in range(dim)]
                cur = mm(cur, m)
            tot = [[tot[i][j] + zr(c) * cur[i][j] for j in range(dim)] for i in range(dim)]
        return tot
    for lhs, rhs, _ in rules:
        L, R = ev({tuple(lhs): 1}), ev(rhs)
        for i in range(dim):
            for j in range(dim):
                cons.append(L[i][j] == R[i][j])
    EA, EB = ev(A.poly), ev(B.poly)
    diff = z3.Or(*[EA[i][j] != EB[i][j] for i in range(dim) for j in range(dim)])
    s = z3.Solver()
    s.set("timeout", timeout_ms)
    s.add(*cons)
    s.add(diff)
    r = s.check()
    return str(r), (s.model() if r == z3.sat else None)
