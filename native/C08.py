import sys, os
sys.path.insert(0, os.path.dirname(os.path.abspath(__file__)))
import numpy
from _harness import main
import aotools
from aotools.functions import karhunenLoeve as KL
from aotools.turbulence import slopecovariance as SC


def bad(msg, obs=None, exp=None, **kw):
    d = {"message": msg, "observed": obs, "expected": exp}
    d.update(kw)
    return d


def chk_elementwise(inp):
    """every closed form is a function of the separation alone, applied element by element: the value at one entry of an array of separations
    is the value of the scalar call, whatever the shape (square, non-symmetric, 1-d, 3-d) and memory layout of the array"""
    rng = numpy.random.default_rng(12)
    from aotools.functions import karhunenLoeve as KLm
    fns = (("phase_covariance", lambda r: aotools.phase_covariance(r, 0.15, 25.)), ("structure_function_vk", lambda r: aotools.structure_function_vk(r, 0.15, 25.)),
           ("structure_function_kolmogorov", lambda r: aotools.structure_function_kolmogorov(r, 0.15)), ("stf_vonKarman", lambda r: KLm.stf_vonKarman(r, 3.)), ("stf_kolmogorov", lambda r: KLm.stf_kolmogorov(r)))
    arrays = [numpy.array([[1., 2.], [30., 4.]]), rng.random((5, 5)) * 40, rng.random((3, 7)) * 10, rng.random(6) * 5, rng.random((2, 3, 3)), numpy.asfortranarray(rng.random((4, 4)) * 3), (rng.random((6, 6)) * 9)[::2, ::3]]
    for name, f in fns:
        for r in arrays:
            got = numpy.asarray(f(r.copy()))
            want = numpy.array([float(f(float(x))) for x in r.ravel()]).reshape(r.shape)
            if got.shape != r.shape or not numpy.allclose(got, want, rtol=1e-6, atol=1e-9 * abs(want).max()):
                k = numpy.unravel_index(numpy.argmax(abs(got - want)), r.shape) if got.shape == r.shape else None
                return bad("%s of an array of separations (shape %s) is not the scalar function applied entry by entry (entry %s: separation %s)" % (name, list(r.shape), k, None if k is None else float(r[k])),
                           None if k is None else float(got[k]), None if k is None else float(want[k]))


def chk_consistency(inp):
    r_ = chk_elementwise(inp)
    if r_:
        return r_
    for (r0, L0) in ((0.15, 25.), (1.0, 3.0), (0.4, 100.)):
        r = L0 * numpy.logspace(-4, numpy.log10(30), 60)
        D = aotools.structure_function_vk(r.copy(), r0, L0)
        C0 = float(aotools.phase_covariance(0., r0, L0))
        C = aotools.phase_covariance(r.copy(), r0, L0).astype(float)
        if not numpy.allclose(D, 2 * (C0 - C), rtol=5e-3, atol=5e-3 * 2 * C0 * 1e-3):
            k = int(numpy.argmax(abs(D - 2 * (C0 - C)) / (abs(D) + 1e-30)))
            return bad("D(r) != 2 (C(0) - C(r)) at r=%g (r0=%g, L0=%g)" % (r[k], r0, L0), float(D[k]), float(2 * (C0 - C[k])))
        if numpy.any(numpy.diff(D) < -1e-9 * D.max()):
            return bad("structure function decreases (r0=%g, L0=%g)" % (r0, L0))
        if abs(D[-1] / (2 * 0.0863 * (L0 / r0) ** (5. / 3)) - 1) > 5e-3:
            return bad("structure function does not saturate at twice the variance 0.0863 (L0/r0)^(5/3)", float(D[-1]), float(2 * 0.0863 * (L0 / r0) ** (5. / 3)))
        if not numpy.allclose(aotools.structure_function_vk(r.copy(), 2 * r0, L0), D * 2 ** (-5. / 3), rtol=1e-10):
            return bad("structure function does not scale as r0^(-5/3)")
        if not numpy.allclose(KL.stf_vonKarman(r / r0, L0 / r0), D, rtol=1e-9):
            return bad("KL copy stf_vonKarman(r/r0, L0/r0) differs from structure_function_vk(r, r0, L0)", None, None)
    # large outer scales (L0 >= 1 km): still the von Karman form - agreement with 2(C(0)-C(r)) where phase_covariance resolves it (r >= 0.1 L0) and saturation
    for (r0, L0) in ((0.2, 1000.), (0.15, 2500.), (0.3, 1e4)):
        rl = L0 * numpy.array([0.1, 0.3, 1.0, 3.0, 30.0])
        Dl = aotools.structure_function_vk(rl.copy(), r0, L0)
        C0l = float(aotools.phase_covariance(0., r0, L0))
        Cl = aotools.phase_covariance(rl.copy(), r0, L0).astype(float)
        if not numpy.allclose(Dl, 2 * (C0l - Cl), rtol=5e-3):
            k = int(numpy.argmax(abs(Dl / (2 * (C0l - Cl)) - 1)))
            return bad("D(r) != 2 (C(0) - C(r)) at r=%g for a large outer scale (r0=%g, L0=%g)" % (rl[k], r0, L0), float(Dl[k]), float(2 * (C0l - Cl[k])))
        if abs(Dl[-1] / (2 * 0.0863 * (L0 / r0) ** (5. / 3)) - 1) > 5e-3:
            return bad("structure function does not saturate at twice the variance for L0=%g" % L0, float(Dl[-1]), float(2 * 0.0863 * (L0 / r0) ** (5. / 3)))
        if not numpy.allclose(KL.stf_vonKarman(rl / r0, L0 / r0), Dl, rtol=1e-9):
            return bad("KL copy differs from structure_function_vk for L0=%g" % L0)
    # the series copy (YAO) is an approximation of the same model for small r/L0: within 5e-4 of the closed form for r/L0 <= 0.05
    for L in (20., 100., 3.):
        rs = L * numpy.array([1e-4, 1e-3, 5e-3, 0.01, 0.02, 0.035, 0.05])
        ser, clo = KL.stf_vonKarman_yao(rs.copy(), L), KL.stf_vonKarman(rs.copy(), L)
        if not numpy.all(abs(ser / clo - 1) <= 5e-4):
            k = int(numpy.argmax(abs(ser / clo - 1)))
            return bad("series copy stf_vonKarman_yao differs from the closed form at r/L0=%g (L0=%g)" % (rs[k] / L, L), float(ser[k]), float(clo[k]))
    # repeated evaluation on ONE separation array (a caller computing several statistics on a common r): results must not depend on call history
    r_common = numpy.linspace(0.01, 2.0, 25)
    keep = r_common.copy()
    first = {}
    for rep in range(2):
        for nm, fn in (("structure_function_kolmogorov", lambda r: aotools.structure_function_kolmogorov(r, 0.2)), ("structure_function_vk", lambda r: aotools.structure_function_vk(r, 0.2, 20.)),
                       ("phase_covariance", lambda r: aotools.phase_covariance(r, 0.2, 20.)), ("stf_kolmogorov", KL.stf_kolmogorov), ("stf_vonKarman", lambda r: KL.stf_vonKarman(r, 20.)),
                       ("stf_vonKarman_yao", lambda r: KL.stf_vonKarman_yao(r, 20.))):
            v = numpy.array(fn(r_common), dtype=float)
            if not numpy.array_equal(r_common, keep):
                return bad("%s modified the separation array it was given" % nm)
            if nm in first and not numpy.allclose(first[nm], v, rtol=1e-12):
                return bad("%s returns different values on a second call with the same separations" % nm)
            first.setdefault(nm, v)
    if not numpy.allclose(first["structure_function_kolmogorov"], 6.88 * (keep / 0.2) ** (5. / 3), rtol=1e-12):
        return bad("structure_function_kolmogorov is not 6.88 (r/r0)^(5/3)")
    rr = numpy.logspace(-3, 0, 20)
    if not numpy.allclose(KL.stf_kolmogorov(rr), aotools.structure_function_kolmogorov(rr, 1.0), rtol=1e-3):
        return bad("Kolmogorov copies differ by more than the rounding of the published constant")
    rk = numpy.array([0.01, 0.03, 0.1])
    kol = 6.88 * (rk / 0.2) ** (5. / 3)
    prev = None
    for L0 in (10., 100., 1000., 10000.):
        ratio = aotools.structure_function_vk(rk.copy(), 0.2, L0) / kol
        if numpy.any(ratio > 1.01) or (prev is not None and numpy.any(ratio < prev - 1e-6)):
            return bad("von Karman structure function does not approach 6.88 (r/r0)^(5/3) from below as L0 grows", ratio.tolist(), "increasing towards 1")
        prev = ratio
    if numpy.any(prev < 0.9):
        return bad("von Karman structure function is not close to the Kolmogorov law for L0 = 1e4 r", prev.tolist(), "> 0.9")
    pts = numpy.random.default_rng(3).random((12, 2)) * 5
    d = numpy.sqrt(((pts[:, None] - pts[None]) ** 2).sum(-1))
    M = aotools.phase_covariance(d, 0.2, 20.).astype(float)
    if numpy.linalg.eigvalsh((M + M.T) / 2).min() < -1e-6 * abs(M).max():
        return bad("matrix of phase covariances between random points is not positive semi-definite")


def chk_zero(inp):
    v = aotools.structure_function_vk(numpy.array([0.0, 0.1]), 0.15, 20.)
    if not (v[0] == 0):
        return bad("structure_function_vk(0) is %r, not 0 (0 * kv(5/6, 0) = 0 * inf)" % float(v[0]), float(v[0]), 0.0, finding="C08-sf-zero")
    v2 = KL.stf_vonKarman(numpy.array([0.0, 0.1]), 20.)
    if not (v2[0] == 0):
        return bad("stf_vonKarman(0) is %r, not 0" % float(v2[0]), float(v2[0]), 0.0, finding="C08-sf-zero")


one = lambda t, s: [{}]
CLAUSES = {"consistency": (chk_consistency, one), "zero": (chk_zero, one)}
if __name__ == "__main__":
    main(CLAUSES)
