"""C16 Binning, zooming and radial reductions preserve image content."""
import sys, os
sys.path.insert(0, os.path.dirname(os.path.dirname(os.path.abspath(__file__))))
from aovc.check import run_check
from contracts import imaging


def build(chk):
    chk.assumptions_used.update(["A-REAL", "A-NP", "A-INT"])
    imaging.bin_obligations(chk)
    imaging.zoom_obligations(chk)
    imaging.azimuthal_obligations(chk)
    chk.bounded_native("encircled energy: curve starts at 0, never decreases, <= 1, diameter where the curve crosses the fraction", "encircled", "non-negative images of even size 8..64, default centre and 4 explicit centres (corner, pixel centre, off-grid), fractions 0.02..0.8", "aotools/image_processing/psf.py:encircled_energy")
    chk.bounded_native("native bridge for the block-sum clause proved for every n over the reals: total flux and block sums under IEEE / dtype semantics", "bin", "n in {1..6, 8}, image sizes up to 48", "aotools/interpolation.py:binImgs")
    chk.bounded_native("spline zoom: polynomial exactness and numerical node pass-through", "zoom", "orders 1,3,5, sizes 4..12 -> up to 45", "aotools/interpolation.py:zoom,zoom_rbs")
    chk.math_lemmas.append("RectBivariateSpline(s=0) interpolates its nodes and reproduces polynomials of degree <= k (SciPy contract, assumed)")
    chk.notes.append("zoom / zoom_rbs: square n x n input and one target size for both axes (the property quantifies over square arrays)")


if __name__ == "__main__":
    sys.exit(run_check("C16", "Binning, zooming and radial reductions preserve image content", build))
