"""Contracts for aotools/wfs/wfslib.py"""
def obligations(chk):
    pass
