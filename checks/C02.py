"""C02 Tomographic reconstructor is the minimum-variance linear estimator."""
import sys, os
sys.path.insert(0, os.path.dirname(os.path.dirname(os.path.abspath(__file__))))
from aovc.check import run_check
from contracts import slopecov, tomography


def build(chk):
    chk.assumptions_used.update(["A-REAL", "A-NP", "A-MATH"])
    chk.math_lemmas.append("Gauss-Markov: a linear map R satisfying the normal equations R C_oo = C_no (on the retained subspace) minimises E|s_on - R s_off|^2 over all linear maps")
    tomography.obligations(chk)
    chk.bounded_native("method wrapper: follows rebuilds of the covariance matrix (no stale reconstructor); end to end through the builder the reconstructor satisfies the normal equations on the retained subspace", "method", "one 3-WFS system rebuilt by the in-process builder and by the pool of worker processes (threads 1->1, 2->2, 1->2, 2->1) and with a caller-assigned matrix; 5 built systems (guide star in the target direction at another altitude / mask layout / wavelength, true duplicate, no coincidence) x 2 conditionings, tolerance 2e-3 max|C|", "aotools/turbulence/slopecovariance.py:CovarianceMatrix.make_tomographic_reconstructor")
    # end-to-end clause: the matrix the reconstructor is computed from is the builder's; its assembly / mirror contract (C01) is re-checked here
    with chk.borrow("C01"):
        slopecov.assembly_obligations(chk, 3, 2, mp=False)
    chk.not_decided.append("'holds to rounding' for well-conditioned matrices (conditioning / rounding analysis)")
    chk.notes.append("end-to-end clause (all geometries through the covariance builder) is C01 composed with this contract: C01's assembly / mirror obligations are re-generated here, its kernel / geometry obligations are in C01's own check")


if __name__ == "__main__":
    sys.exit(run_check("C02", "Tomographic reconstructor is the minimum-variance linear estimator", build))
