"""C15 Centroiders locate, shift, scale and batch consistently."""
import sys, os
sys.path.insert(0, os.path.dirname(os.path.dirname(os.path.abspath(__file__))))
from aovc.check import run_check
from contracts import centroiders


def build(chk):
    chk.assumptions_used.update(["A-REAL", "A-NP"])
    centroiders.obligations(chk)
    centroiders.brightest_obligations(chk)
    centroiders.brightest_scale_obligations(chk)
    chk.bounded_native("brightest_pixel: single bright pixel and integer-typed frames (the VALUE of the numpy.sort order statistic is uninterpreted: 'stack item = frame alone' and 'unchanged by positive scaling' are proved, the latter with the homogeneity of order statistics as a library contract); stacks with 1-3 leading axes as the IEEE bridge of that proved clause", "brightest", "stacks 3x6x8, 4x5x5, 2x3x5x6, 3x3x5x5, 2x2x2x4x5, fractions 0.1 .. 0.75", "aotools/image_processing/centroiders.py:brightest_pixel")
    chk.bounded_native("shift equivariance of centre_of_gravity / brightest_pixel", "shift", "16x18 frames, shifts (0,0),(3,2),(1,5)", "aotools/image_processing/centroiders.py:centre_of_gravity,brightest_pixel")
    chk.bounded_native("correlation centroid: displaced by s from the array centre for any padding", "correlation", "even shapes 10x10, 10x16, 12x8 (padding 1..3) and odd shapes 9x9, 11x7, 9x12, 7x10 (padding 1..4), three displacements", "aotools/image_processing/centroiders.py:correlation_centroid,cross_correlate")
    chk.notes.append("requires for the scale / stack clauses: the image sum is non-zero (division), threshold in (0,1), min_threshold >= 0 scaled with the image")


if __name__ == "__main__":
    sys.exit(run_check("C15", "Centroiders locate, shift, scale and batch consistently", build))
