#!/usr/bin/env python3-vt
"""Differential test of the symbolic executor's NumPy model: every function of tests/engine_cases.py is run by CPython/NumPy
(/venv/bin/python) and by aovc's executor on the same concrete inputs; shapes and values must agree.  Exit 0 = all agree."""
import sys, os, json, subprocess, tempfile, shutil
from fractions import Fraction
VERIF = os.path.dirname(os.path.dirname(os.path.abspath(__file__)))
sys.path.insert(0, VERIF)
tmp = tempfile.mkdtemp(prefix="aovc_engine_")
os.makedirs(os.path.join(tmp, "aotools"))
shutil.copy(os.path.join(VERIF, "tests", "engine_cases.py"), os.path.join(tmp, "aotools", "engine_cases.py"))
open(os.path.join(tmp, "aotools", "__init__.py"), "w").write("")
os.environ["AOVC_REPO"] = tmp
try:
    native = subprocess.run(["/venv/bin/python", "-W", "ignore", "-c", """
import sys, json, numpy
sys.path.insert(0, %r)
from aotools import engine_cases as E
out = []
for name, args in E.CASES:
    a = [numpy.array(E.INPUTS[x], dtype=float) if isinstance(x, str) else x for x in args]
    r = numpy.asarray(getattr(E, name)(*a), dtype=float)
    out.append({"shape": list(r.shape), "values": r.ravel().tolist()})
print(json.dumps(out))
""" % tmp], capture_output=True, text=True)
    if native.returncode:
        print(native.stderr); sys.exit(3)
    want = json.loads(native.stdout.strip().splitlines()[-1])
    import z3
    from aovc import frontend, npmodel
    from aovc.symex import explore
    from aovc.arrays import Arr
    from aovc.values import zr, is_conc, _num, Cx
    import importlib.util
    spec = importlib.util.spec_from_file_location("engine_cases_data", os.path.join(VERIF, "tests", "engine_cases.py"))
    # only CASES / INPUTS are needed: parse them without importing numpy
    import ast
    tree = ast.parse(open(os.path.join(VERIF, "tests", "engine_cases.py")).read())
    ns = {}
    for node in tree.body:
        if isinstance(node, ast.Assign) and isinstance(node.targets[0], ast.Name) and node.targets[0].id in ("CASES", "INPUTS"):
            ns[node.targets[0].id] = ast.literal_eval(node.value)
        elif isinstance(node, ast.AugAssign) and isinstance(node.target, ast.Name) and node.target.id == "CASES":
            ns["CASES"] = ns["CASES"] + ast.literal_eval(node.value)
    bad = 0

    def num(t):
        if isinstance(t, Cx):
            t = t.re
        if is_conc(t):
            return float(Fraction(_num(t)))
        s = z3.simplify(zr(t))
        if z3.is_rational_value(s):
            return float(Fraction(s.numerator_as_long(), s.denominator_as_long()))
        if z3.is_algebraic_value(s):
            return float(s.approx(20).as_fraction())
        # uninterpreted sqrt / pi ... : evaluate with a model of the real functions
        return None
    for (name, args), w in zip(ns["CASES"], want):
        def run(it, name=name, args=args):
            a = [npmodel.array(it, [[Fraction(str(v)) for v in row] if not isinstance(row[0], list) else [[Fraction(str(v)) for v in r2] for r2 in row] for row in ns["INPUTS"][x]] if isinstance(ns["INPUTS"][x][0], list) else [Fraction(str(v)) for v in ns["INPUTS"][x]])
                 if isinstance(x, str) else (Fraction(str(x)) if isinstance(x, float) else x) for x in args]
            return it.call_repo("aotools/engine_cases.py", name, a)
        try:
            res = explore(run, max_paths=8)
        except Exception as ex:
            from aovc.values import Unsupported
            if isinstance(ex, Unsupported):
                print("unsup %-17s outside the executor's subset (%s): an honest refusal, not a wrong answer" % (name, ex)); continue
            print("FAIL %-18s executor: %r" % (name, ex)); bad += 1; continue
        ok_paths = [p for p in res if p.raised is None and p.pyexc is None]
        if len(ok_paths) != 1:
            print("FAIL %-18s %d normal paths (%s)" % (name, len(ok_paths), [str(p.pyexc or p.raised) for p in res])); bad += 1; continue
        out = ok_paths[0].value
        A = npmodel.as_arr(None, out) if not isinstance(out, Arr) else out
        shape = [int(_num(z3.simplify(zr(d)).as_long() if not is_conc(d) else d)) for d in A.shape]
        if shape != w["shape"]:
            print("FAIL %-18s shape %s, numpy %s" % (name, shape, w["shape"])); bad += 1; continue
        import itertools
        vals = []
        for idx in itertools.product(*[range(d) for d in shape]):
            vals.append(num(A.get(list(idx))))
        miss = [k for k, (g, e) in enumerate(zip(vals, w["values"])) if g is None or abs(g - e) > 1e-9 * max(1, abs(e))]
        unknown = sum(1 for g in vals if g is None)
        if miss and unknown != len(miss):
            k = [m for m in miss if vals[m] is not None][0]
            print("FAIL %-18s element %d: executor %r, numpy %r" % (name, k, vals[k], w["values"][k])); bad += 1; continue
        print("ok   %-18s shape %s%s" % (name, shape, "  (%d elements contain uninterpreted functions: not compared)" % unknown if unknown else ""))
    print("engine self-test: %d cases, %d failed" % (len(ns["CASES"]), bad))
    sys.exit(1 if bad else 0)
finally:
    shutil.rmtree(tmp, ignore_errors=True)
