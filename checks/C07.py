"""C07 FFT phase screens have exactly the discretised von Karman statistics."""
import sys, os
sys.path.insert(0, os.path.dirname(os.path.dirname(os.path.abspath(__file__))))
from aovc.check import run_check
from contracts import ftscreen


def build(chk):
    chk.assumptions_used.update(["A-REAL", "A-NP", "A-MATH"])
    chk.math_lemmas.append("a real part of a centred inverse DFT of independent complex Gaussian coefficients c_k with E|c_k|^2 = 2 PSD_k del_f^2 has covariance sum_k PSD_k del_f^2 cos(2 pi k.(x-x')/N): zero mean, stationary")
    chk.math_lemmas.append("pow(k*x, a) = pow(k, a) * pow(x, a) for positive k, x (used once, for the r0 scaling)")
    ftscreen.obligations(chk)
    chk.bounded_native("exact ensemble covariance (linear map recovered with unit draws) equals the inverse discrete Fourier sum of the spectrum; stationary variance; r0^(-5/6) amplitude over repeated calls", "spectrum",
                       "N in {6, 8}, four (delta, r0, L0, l0) sets incl. an inner scale below two pixels", "aotools/turbulence/phasescreen.py:ft_phase_screen")
    chk.bounded_native("sub-harmonic part: zero mean, drawn after the high-frequency screen from the same generator, equals the three 3x3 sub-harmonic grids with weights sqrt(PSD) del_f_g", "subharmonics", "one 16x16 case; exact content of the sub-harmonic part with replayed draws for three parameter sets (N = 6, 8, 12)", "aotools/turbulence/phasescreen.py:ft_sh_phase_screen")
    chk.notes.append("sub-harmonic clause 'only adds low-frequency power' holds for independent draws, i.e. seed None or a Generator; with an int seed the two default_rng(seed) streams coincide (recorded precondition)")
    chk.not_decided.append("structure function approaches the analytic von Karman one as the grid is refined; sub-harmonic variant closer at large separations (limits / numerical comparison)")


if __name__ == "__main__":
    sys.exit(run_check("C07", "FFT phase screens have exactly the discretised von Karman statistics", build))
