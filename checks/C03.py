"""C03 Covariance construction is independent of process count and scheduling."""
import sys, os
sys.path.insert(0, os.path.dirname(os.path.dirname(os.path.abspath(__file__))))
from aovc.check import run_check
from contracts import slopecov


def build(chk):
    chk.assumptions_used.update(["A-REAL", "A-NP"])
    slopecov.assembly_obligations(chk, 3, 2, mp=True)
    slopecov.c03_obligations(chk, 2, 2)
    chk.bounded_native("real multiprocessing builds (worker counts 1..5, incl. counts that do not divide the number of sensor pairs; rebuild sequences) and schedule exploration with an in-process Pool stand-in that delivers unordered results in 4 different orders: bit-identical to the single-process matrix", "builds",
                       "3 systems (equal / unequal sub-aperture counts, off-axis NGS + LGS), 4 rebuild sequences", "aotools/turbulence/slopecovariance.py:CovarianceMatrix")
    chk.notes.append("OS scheduling is not modelled: the property reduces to the ordering contract of multiprocessing.Pool.map because results are consumed positionally; NumPy kernels are assumed deterministic")
    chk.notes.append("bound: 3 sensors x 2 layers for the assembly contract, 2 sensors x 2 layers for the build sequence (sensor / layer loops unrolled); masks, sub-aperture counts, geometry, worker count k >= 2 symbolic")


if __name__ == "__main__":
    sys.exit(run_check("C03", "Covariance construction is independent of process count and scheduling", build))
