"""Load the real source of the repository under verification.

Every run re-parses the files CPython would import (path from $AOVC_REPO, default /repo).
Nothing is cached between runs.  What extraction drops is recorded per function:
docstrings, comments (dropped by ast), print(...) calls, numba decorators (assumption A-JIT).
"""
import ast, hashlib, os

REPO = os.environ.get("AOVC_REPO", "/repo")


class SourceError(Exception):
    pass


class Module:
    def __init__(self, relpath):
        self.relpath = relpath
        self.path = os.path.join(REPO, relpath)
        if not os.path.exists(self.path):
            raise SourceError("missing source file %s" % self.path)
        with open(self.path, "rb") as fh:
            raw = fh.read()
        self.sha256 = hashlib.sha256(raw).hexdigest()
        self.text = raw.decode("utf-8")
        self.tree = ast.parse(self.text, filename=self.path)
        self.funcs = {}
        self.classes = {}
        self.assigns = {}
        self.imports = {}      # local name -> ("module", dotted) | ("from", module, name, level)
        self.star_imports = []  # (module, level)
        self.all = None
        for node in self.tree.body:
            if isinstance(node, ast.FunctionDef):
                self.funcs[node.name] = node
            elif isinstance(node, ast.ClassDef):
                self.classes[node.name] = node
                for sub in node.body:
                    if isinstance(sub, ast.FunctionDef):
                        self.funcs[node.name + "." + sub.name] = sub
            elif isinstance(node, ast.Assign):
                for t in node.targets:
                    if isinstance(t, ast.Name):
                        self.assigns[t.id] = node.value
                        if t.id == "__all__":
                            try:
                                self.all = list(ast.literal_eval(node.value))
                            except Exception:
                                self.all = None
            elif isinstance(node, ast.Import):
                for a in node.names:
                    if a.asname:
                        self.imports[a.asname] = ("module", a.name)
                    else:
                        self.imports[a.name.split(".")[0]] = ("module", a.name.split(".")[0])
            elif isinstance(node, ast.ImportFrom):
                for a in node.names:
                    if a.name == "*":
                        self.star_imports.append((node.module or "", node.level))
                    else:
                        self.imports[a.asname or a.name] = ("from", node.module or "", a.name, node.level)

    def package(self):
        """dotted package of this module (aotools/functions/pupil.py -> aotools.functions)."""
        parts = self.relpath[:-3].split("/")
        if parts[-1] == "__init__":
            return ".".join(parts[:-1])
        return ".".join(parts[:-1])

    def dotted(self):
        parts = self.relpath[:-3].split("/")
        if parts[-1] == "__init__":
            parts = parts[:-1]
        return ".".join(parts)

    def public_names(self):
        if self.all is not None:
            return list(self.all)
        names = []
        for n in list(self.funcs) + list(self.classes) + list(self.assigns) + list(self.imports):
            if "." in n or n.startswith("_"):
                continue
            names.append(n)
        # names brought in by star imports of this module are public too
        for (mod, level) in self.star_imports:
            target = resolve_module(self, mod, level)
            if target is not None:
                for n in target.public_names():
                    if n not in names:
                        names.append(n)
        return names


_cache = {}


def load(relpath):
    if relpath not in _cache:
        _cache[relpath] = Module(relpath)
    return _cache[relpath]


def reset():
    _cache.clear()


def dotted_to_relpath(dotted):
    base = dotted.replace(".", "/")
    if os.path.isdir(os.path.join(REPO, base)) and os.path.exists(os.path.join(REPO, base, "__init__.py")):
        return base + "/__init__.py"
    if os.path.exists(os.path.join(REPO, base + ".py")):
        return base + ".py"
    return None


def resolve_module(mod, name, level):
    """Module object for `from <level dots><name> import ...` seen inside `mod` (None if external)."""
    if level == 0:
        rp = dotted_to_relpath(name)
        return load(rp) if rp else None
    pkg = mod.package().split(".")
    if level > 1:
        pkg = pkg[: len(pkg) - (level - 1)]
    dotted = ".".join(pkg + ([name] if name else []))
    rp = dotted_to_relpath(dotted)
    return load(rp) if rp else None


def resolve_name(mod, name, _depth=0):
    """Resolve what `name` denotes at module level of `mod`.

    Returns one of
      ("func", Module, qualname)    a repository function / class
      ("module", Module)            a repository module or package
      ("ext", dotted)               something outside the repository (numpy.fft, scipy.special.gamma ...)
      ("const", Module, ast_node)   a module-level assignment
      None
    Later bindings win (Python executes the module body top to bottom)."""
    if _depth > 20:
        return None
    result = None
    for node in mod.tree.body:
        if isinstance(node, ast.FunctionDef) and node.name == name:
            result = ("func", mod, name)
        elif isinstance(node, ast.ClassDef) and node.name == name:
            result = ("class", mod, name)
        elif isinstance(node, ast.Assign):
            for t in node.targets:
                if isinstance(t, ast.Name) and t.id == name:
                    result = ("const", mod, node.value)
        elif isinstance(node, ast.Import):
            for a in node.names:
                local = a.asname or a.name.split(".")[0]
                if local == name:
                    dotted = a.name if a.asname else a.name.split(".")[0]
                    rp = dotted_to_relpath(dotted)
                    result = ("module", load(rp)) if rp else ("ext", dotted)
        elif isinstance(node, ast.ImportFrom):
            src = resolve_module(mod, node.module or "", node.level)
            for a in node.names:
                if a.name == "*":
                    if src is not None:
                        if name in src.public_names():
                            r = resolve_name(src, name, _depth + 1)
                            if r is not None:
                                result = r
                    continue
                local = a.asname or a.name
                if local != name:
                    continue
                if src is None:
                    if node.level == 0:
                        result = ("ext", (node.module + "." if node.module else "") + a.name)
                    continue
                # a submodule of a package, or a name defined in the module
                sub = None
                if src.relpath.endswith("__init__.py"):
                    rp = dotted_to_relpath(src.dotted() + "." + a.name)
                    if rp:
                        sub = ("module", load(rp))
                r = resolve_name(src, a.name, _depth + 1)
                result = r if r is not None else sub
    return result


def get_func(relpath, qualname):
    mod = load(relpath)
    if qualname not in mod.funcs:
        raise SourceError("function %s not found in %s" % (qualname, relpath))
    return mod, mod.funcs[qualname]


def dropped(fn):
    """What extraction drops from this function (reported in evidence)."""
    out = []
    if ast.get_docstring(fn):
        out.append("docstring")
    for d in fn.decorator_list:
        out.append("decorator:" + ast.unparse(d))
    for n in ast.walk(fn):
        if isinstance(n, ast.Call) and isinstance(n.func, ast.Name) and n.func.id == "print":
            out.append("print-call:line%d" % n.lineno)
    return out
