#!/bin/sh
# tools/rebase_patch.sh <dir-with-patch.diff> : re-create patch.diff against /repo HEAD by a 3-way apply in a scratch worktree
d="$1"
wt=$(mktemp -d /tmp/aovc_rb_XXXXXX); rmdir "$wt"
git -C /repo worktree add -q --detach "$wt" HEAD || exit 3
( cd "$wt" && git apply --3way "$d/patch.diff" 2>&1 | tail -3; if git diff --name-only --diff-filter=U | grep -q .; then echo "CONFLICT in $d"; exit 1; fi; git diff HEAD -- aotools > "$d/patch.diff.new" ) 
rc=$?
[ $rc -eq 0 ] && [ -s "$d/patch.diff.new" ] && mv "$d/patch.diff.new" "$d/patch.diff" && echo "rebased $d"
rm -f "$d/patch.diff.new"
git -C /repo worktree remove --force "$wt"; git -C /repo worktree prune
exit $rc
