"""C09 Scaled Fourier transforms are exact inverse pairs obeying Parseval."""
import sys, os
sys.path.insert(0, os.path.dirname(os.path.dirname(os.path.abspath(__file__))))
from aovc.check import run_check
from contracts import fourier


def build(chk):
    chk.assumptions_used.update(["A-REAL", "A-NP"])
    chk.math_lemmas.append("DFT facts used as library contract of numpy.fft: ifft(fft(x)) = x, fft linear, Parseval sum|fft x|^2 = N sum|x|^2, roll/shift theorem")
    chk.notes.append("leading batch dimensions are represented by ONE symbolic leading axis of size B >= 1 (any batch shape flattens to it)")
    chk.not_decided.append("approximates the continuous Fourier transform (centred Gaussian -> analytic Gaussian): consequence of the centring clause + Riemann sums, not a per-call contract")
    fourier.obligations(chk)


if __name__ == "__main__":
    sys.exit(run_check("C09", "Scaled Fourier transforms are exact inverse pairs obeying Parseval", build))
