import sys, os, math
sys.path.insert(0, os.path.dirname(os.path.abspath(__file__)))
import numpy
from _harness import main
import aotools
from aotools.functions import zernike as ZK


def bad(msg, obs=None, exp=None):
    return {"message": msg, "observed": obs, "expected": exp}


def noll_spec(j):
    """independent integer-only Noll index -> (n, m)"""
    n = 0
    while (n + 1) * (n + 2) // 2 < j:
        n += 1
    p = j - n * (n + 1) // 2          # 1..n+1
    k = n % 2
    a = ((p + k) // 2) * 2 - k
    m = 0 if a == 0 else (a if j % 2 == 0 else -a)
    return n, m


def chk_index(inp):
    js = [int(inp["j"])] + ([int(inp["j2"])] if "j2" in inp else []) if inp and "j" in inp else None
    for j in (js or []):
        if j < 1 or j > 10 ** 15:
            continue
        n, m = ZK.zernIndex(j)
        if (n, m) != noll_spec(j):
            return bad("zernIndex(%d)" % j, [n, m], list(noll_spec(j)))


def fam_index(tier, seed):
    top = 3000 if tier == "quick" else 200000
    seen = {}
    prev = None
    for j in range(1, top + 1):
        yield {"j": j}
    # float-sqrt bridge: block boundaries j = n(n+1)/2 (+0, +1) for large n
    for n in (10 ** 3, 10 ** 4, 10 ** 5, 3 * 10 ** 6, 2 ** 24 + 1):
        for d in (0, 1, 2):
            yield {"j": n * (n + 1) // 2 + d}


def chk_bijection(inp):
    """injective, onto {n>=0,|m|<=n,n-|m| even}, ordered by n then |m|, even j cosine / odd j sine"""
    J = int((inp or {}).get("top", 1500))
    seen = {}
    prev = None
    for j in range(1, J + 1):
        n, m = ZK.zernIndex(j)
        if not (n >= 0 and abs(m) <= n and (n - abs(m)) % 2 == 0):
            return bad("zernIndex(%d) outside the index set" % j, [n, m])
        if m != 0 and ((j % 2 == 0) != (m > 0)):
            return bad("parity rule broken at j=%d" % j, [n, m])
        if (n, m) in seen:
            return bad("zernIndex not injective: j=%d and j=%d" % (seen[(n, m)], j), [n, m])
        seen[(n, m)] = j
        if prev is not None and (n, abs(m)) < prev:
            return bad("order by n then |m| broken at j=%d" % j, [n, m])
        prev = (n, abs(m))
    nmax = max(n for n, _ in seen) - 1
    for n in range(nmax + 1):
        for m in range(-n, n + 1):
            if (n - abs(m)) % 2 == 0 and (n, m) not in seen:
                return bad("(n,m)=(%d,%d) has no Noll index (not onto)" % (n, m))


def radial_spec(n, m, r):
    out = numpy.zeros_like(r, dtype=float)
    for i in range((n - m) // 2 + 1):
        out += (-1) ** i * math.factorial(n - i) / (math.factorial(i) * math.factorial((n + m) // 2 - i) * math.factorial((n - m) // 2 - i)) * r ** (n - 2 * i)
    return out


def chk_radial(inp):
    r = numpy.linspace(0, 1.2, 7).reshape(1, 7)
    for n in range(0, 9):
        for m in range(n % 2, n + 1, 2):
            if inp and "n" in inp and (n, m) != (int(inp["n"]), int(inp["m"])):
                continue
            got = ZK.zernikeRadialFunc(n, m, r.copy())
            if not numpy.allclose(got, radial_spec(n, m, r), rtol=1e-10, atol=1e-12):
                return bad("zernikeRadialFunc(%d,%d) is not the factorial sum" % (n, m), got.tolist(), radial_spec(n, m, r).tolist())
    # high radial orders against exact rational arithmetic: |R_n^m| <= 1 on [0, 1], so an absolute tolerance (no allowance for cancellation:
    # a mode of order 50 has to be as normalised as one of order 5)
    from fractions import Fraction as Fr
    if not (inp and "n" in inp):
        for n in (12, 19, 20, 21, 22, 25, 30, 36, 40, 44, 50, 60, 80, 100):
            for m in sorted({n % 2, (n // 2) - ((n // 2 - n) % 2), n - 2, n}):
                if m < 0 or (n - m) % 2:
                    continue
                for q in (Fr(0), Fr(1, 4), Fr(1, 2), Fr(3, 4), Fr(9, 10), Fr(99, 100), Fr(1)):
                    exact = Fr(0)
                    for i in range((n - m) // 2 + 1):
                        exact += (-1) ** i * Fr(math.factorial(n - i), math.factorial(i) * math.factorial((n + m) // 2 - i) * math.factorial((n - m) // 2 - i)) * q ** (n - 2 * i)
                    got = float(numpy.asarray(ZK.zernikeRadialFunc(n, m, numpy.array([[float(q)]]))).ravel()[0])
                    if not abs(got - float(exact)) <= 1e-11:
                        return bad("zernikeRadialFunc(%d,%d) at r=%s is not the radial polynomial (exact rational evaluation of the factorial sum)" % (n, m, q), got, float(exact))


def mode_spec(n, m, N, rot=0.0):
    c = (numpy.arange(N) - N / 2. + 0.5) / (N / 2.)
    X, Y = numpy.meshgrid(c, c)
    R = numpy.sqrt(X ** 2 + Y ** 2)
    th = numpy.arctan2(Y, X)
    a = abs(m)
    if m == 0:
        Z = numpy.sqrt(n + 1) * radial_spec(n, 0, R)
    elif m > 0:
        Z = numpy.sqrt(2 * (n + 1)) * radial_spec(n, a, R) * numpy.cos(a * th + rot)
    else:
        Z = numpy.sqrt(2 * (n + 1)) * radial_spec(n, a, R) * numpy.sin(a * th + rot)
    return Z * (R <= 1.0)


def chk_mode(inp):
    Ns = [int(inp["N"])] if inp and "N" in inp and 1 <= int(inp["N"]) <= 64 else [1, 2, 5, 8, 9]
    for N in Ns:
        for j in range(1, 16):
            n, m = noll_spec(j)
            for rot in (0.0, 0.4):
                got = aotools.zernike_noll(j, N, rot)
                want = mode_spec(n, m, N, rot)
                if got.shape != (N, N) or not numpy.allclose(got, want, rtol=1e-10, atol=1e-12):
                    return bad("zernike_noll(%d, %d, rot=%g) is not sqrt-factor * radial * trig inside the pupil and 0 outside" % (j, N, rot), got.tolist(), want.tolist())
                got2 = aotools.zernike_nm(n, m, N, rot)
                if not numpy.array_equal(got, got2):
                    return bad("zernike_noll(j) != zernike_nm(zernIndex(j)) for j=%d" % j)


def chk_list_vs_count(inp):
    for N in (7, 8):
        for norm in ("noll", "p2v", "rms"):
            full = aotools.zernikeArray(12, N, norm=norm, rot=0.3)
            J = (inp or {}).get("J") or [3, 1, 11, 6]
            J = [int(j) for j in J if 1 <= int(j) <= 12]
            sub = aotools.zernikeArray(J, N, norm=norm, rot=0.3)
            if sub.shape != (len(J), N, N) or not numpy.allclose(sub, full[[j - 1 for j in J]], rtol=1e-12, atol=1e-14, equal_nan=True):
                return bad("zernikeArray(list) differs from the matching slices of zernikeArray(count), norm=%s N=%d" % (norm, N))


def chk_norms(inp):
    for N in (16, 17, 32):
        pup = aotools.circle(N / 2., N)
        Z = aotools.zernikeArray(10, N, norm="rms")
        rms = numpy.sqrt((Z ** 2).sum((1, 2)) / pup.sum())
        if not numpy.allclose(rms, 1, rtol=1e-10):
            return bad("norm='rms': RMS over the pupil is not 1 (N=%d)" % N, rms.tolist(), 1.0)
        for J in (list(range(2, 11)), 10, [1, 4, 7]):
            Z = aotools.zernikeArray(J, N, norm="p2v")
            if not numpy.all(numpy.isfinite(Z)):
                return bad("norm='p2v': modes %s contain non-finite values (N=%d)" % (J, N), int((~numpy.isfinite(Z)).sum()), 0)
            p2v = Z.max((1, 2)) - Z.min((1, 2))
            if not numpy.allclose(p2v, 1, rtol=1e-10):
                return bad("norm='p2v': peak-to-valley is not 1 for modes %s (N=%d)" % (J, N), p2v.tolist(), 1.0)
            if abs(Z * (1 - pup)).max() != 0:
                return bad("norm='p2v': modes do not vanish outside the pupil (N=%d)" % N)


def chk_phase(inp):
    rng = numpy.random.default_rng(4)
    for N in (8, 9):
        for c in ([0., 0., 0., 1.5], [0.3, -1., 0.5, 0., 2.], list(rng.normal(size=7)), [0., 2.5]):
            for norm in ("noll", "rms", "p2v"):
                if norm == "p2v" and len(c) >= 1:
                    Zs = aotools.zernikeArray(len(c), N, norm=norm, rot=0.2) if len(c) > 1 else None
                Zs = aotools.zernikeArray(len(c), N, norm=norm, rot=0.2)
                want = sum(ci * z for ci, z in zip(c, Zs))
                got = aotools.phaseFromZernikes(numpy.array(c), N, norm=norm, rot=0.2)
                if got.shape != (N, N) or not numpy.allclose(got, want, rtol=1e-12, atol=1e-12, equal_nan=True):
                    return bad("phaseFromZernikes(%s, norm=%s) is not the linear combination of the modes" % (c, norm), got.tolist(), numpy.asarray(want).tolist())


def chk_orthonormal(inp):
    N = 256
    Z = aotools.zernikeArray(21, N)
    pup = aotools.circle(N / 2., N)
    G = numpy.einsum("ipq,jpq->ij", Z, Z) / pup.sum()
    err = abs(G - numpy.eye(21)).max()
    if err > 0.02:
        return bad("Gram matrix of the first 21 modes (N=256) is not close to the identity", float(err), "< 0.02")


def chk_gammas(inp):
    """gamma matrices reproduce the x / y gradients: dZ_j/dx = sum_j' gamx[j, j'] Z_j'  (central differences on a fine grid, interior pixels)"""
    nzrad = 4
    g = aotools.makegammas(nzrad)
    nz = g.shape[1]
    N = 256
    Z = aotools.zernikeArray(nz, N)
    h = 2.0 / N
    inner = aotools.circle(N / 2. - 6, N).astype(bool)
    for j in range(nz):
        dx = numpy.gradient(Z[j], h, axis=1)
        dy = numpy.gradient(Z[j], h, axis=0)
        px = numpy.tensordot(g[0][j], Z, axes=(0, 0))
        py = numpy.tensordot(g[1][j], Z, axes=(0, 0))
        ex, ey = abs(dx - px)[inner].max(), abs(dy - py)[inner].max()
        scale = max(1.0, abs(dx)[inner].max())
        if ex > 0.02 * scale or ey > 0.02 * scale:
            return bad("gamma matrices do not reproduce the gradient of mode %d" % (j + 1), [float(ex), float(ey)], "< 2% of the gradient scale")
    for j in range(1, nz + 1):
        pass


one = lambda t, s: [{}]
CLAUSES = {"noll.index": (chk_index, fam_index), "noll.onto": (chk_bijection, one), "radial": (chk_radial, one), "mode": (chk_mode, one),
           "array.list-vs-count": (chk_list_vs_count, one), "array.norms": (chk_norms, one), "phase.linear-combination": (chk_phase, one),
           "orthonormal": (chk_orthonormal, one), "gammas": (chk_gammas, one)}
if __name__ == "__main__":
    main(CLAUSES)
