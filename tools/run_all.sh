#!/bin/sh
# run every claimed check (quick tier by default) on /repo and summarise; evidence files are rewritten
cd "$(dirname "$0")/.." || exit 3
tier="${1:-quick}"
rc=0
python3-vt tools/engine_selftest.py | tail -1 || rc=1
for id in $(python3 -c "import json; print(' '.join(c['property_id'] for c in json.load(open('MANIFEST.json'))['checks']))"); do
  out=$(./check "$id" --tier "$tier" 2>&1); code=$?
  echo "$out" | tail -1
  [ $code -ne 0 ] && { rc=1; echo "$out" | grep -E "^(FAILED|UNDEC|UNSUPP|VIOLATION|VACUOUS)" | head -5; }
done
python3-vt - <<'PY'
import json, jsonschema, glob
S = json.load(open('/root/.vp/EVIDENCE.schema.json'))
for f in sorted(glob.glob('evidence/*.json')):
    e = json.load(open(f)); jsonschema.validate(e, S)
    c = e['coverage']
    if c['obligations'] != c['discharged']: print("EVIDENCE-MISMATCH", f, c['obligations'], c['discharged'])
jsonschema.validate(json.load(open('MANIFEST.json')), json.load(open('/root/.vp/MANIFEST.schema.json')))
print("evidence + manifest schema-valid")
PY
exit $rc
