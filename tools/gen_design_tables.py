#!/usr/bin/env python3
"""rewrite the seeded-change table of DESIGN.md from seeded/detection.json"""
import json, re, os
V = os.path.dirname(os.path.dirname(os.path.abspath(__file__)))
r = json.load(open(os.path.join(V, "seeded", "detection.json")))
rows = ["| change | exit | reported by | first failing obligation / clause |", "|---|---|---|---|"]
for n, o in sorted(r.items()):
    pid = n.split("-")[0]
    v = o.get(pid, {})
    if not isinstance(v, dict):
        continue
    kind = ("ded. + native" if v.get("deductive") and v.get("native") else "ded." if v.get("deductive") else "native" if v.get("native") else "-")
    first = (v.get("deductive") or v.get("native") or [""])[0]
    first = re.sub(r" function=.*", "", first).replace("bounded stand-in ", "").replace("|", "/")
    first = first.replace("native bridge (IEEE / dtype semantics) for the clause proved over the reals: ", "bridge: ")
    rows.append("| %s | %s | %s | %s |" % (n, v.get("exit"), kind, first[:120]))
D = os.path.join(V, "DESIGN.md")
s = open(D).read()
a = s.index("<!-- seeded-table-begin -->") + len("<!-- seeded-table-begin -->")
b = s.index("<!-- seeded-table-end -->")
s = s[:a] + "\n" + "\n".join(rows) + "\n" + s[b:]
open(D, "w").write(s)
print(len(rows) - 2, "rows")
