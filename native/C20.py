import sys, os, copy, pickle
sys.path.insert(0, os.path.dirname(os.path.abspath(__file__)))
import numpy
from _harness import main
import aotools
from aotools import opticalpropagation as OP, fouriertransform as FT, interpolation as IP, image_processing as IMG
from aotools.turbulence import slopecovariance as SC, profile_compression as PC
from aotools.functions import zernike as ZK, karhunenLoeve as KL
from aotools.wfs import wfslib as W

R = lambda s=0: numpy.random.default_rng(100 + s)


def img(shape, s=0, dtype=float):
    return (R(s).random(shape) + 0.1).astype(dtype)


def img_flagged(shape, s=0):
    """a frame with dead / saturated pixels flagged as nan / inf (arguments must come back byte-identical whatever they contain)"""
    a = img(shape, s)
    a.flat[3], a.flat[7], a.flat[-2] = numpy.nan, numpy.inf, -numpy.inf
    return a


def cimg(shape, s=0):
    return R(s).normal(size=shape) + 1j * R(s + 1).normal(size=shape)


def covmat_obj():
    mask = aotools.circle(2, 4)
    return aotools.CovarianceMatrix(2, [mask, mask.copy()], 8., [2., 2.], [0, 90000.], [[0, 0], [10, -5]], [5e-7, 6e-7], 2, numpy.array([0., 5000.]), [0.2, 0.3], [25., 20.])


# name -> (callable, args factory).  args factory returns (args list, kwargs dict) built fresh for each call
RECIPES = {
    "circle": (aotools.circle, lambda: ([3.2, 8, (0.5, -1)], {})),
    "zernIndex": (aotools.zernIndex, lambda: ([7], {})),
    "zernike_noll": (aotools.zernike_noll, lambda: ([5, 8], {})),
    "zernike_nm": (aotools.zernike_nm, lambda: ([3, -1, 7], {})),
    "zernikeRadialFunc": (aotools.zernikeRadialFunc, lambda: ([4, 2, img((5, 5))], {})),
    "zernikeArray": (aotools.zernikeArray, lambda: ([[2, 4, 7], 8], {"norm": "rms"})),
    "zernikeArray[count]": (aotools.zernikeArray, lambda: ([6, 8], {"norm": "p2v"})),
    "phaseFromZernikes": (aotools.phaseFromZernikes, lambda: ([numpy.array([0., 1.5, -0.3, 2.]), 8], {})),
    "phaseFromZernikes[list]": (aotools.phaseFromZernikes, lambda: ([[0., 1.5, -0.3, 2.], 8], {})),
    "makegammas": (aotools.makegammas, lambda: ([3], {})),
    "gaussian2d": (aotools.gaussian2d, lambda: ([(8, 6), (2., 3.)], {"cent": (3., 2.)})),
    "make_kl": (aotools.make_kl, lambda: ([6, 16], {"ri": 0.25, "nr": 12})),
    "ft": (FT.ft, lambda: ([cimg((3, 7)), 0.3], {})), "ift": (FT.ift, lambda: ([cimg((3, 7)), 0.3], {})),
    "ft2": (FT.ft2, lambda: ([cimg((2, 5, 5)), 0.3], {})), "ift2": (FT.ift2, lambda: ([cimg((2, 5, 5)), 0.3], {})),
    "rft": (FT.rft, lambda: ([img((3, 8)), 0.3], {})), "irft": (FT.irft, lambda: ([cimg((3, 5)), 0.3], {})),
    "rft2": (FT.rft2, lambda: ([img((6, 6)), 0.3], {})), "irft2": (FT.irft2, lambda: ([cimg((6, 4)), 0.3], {})),
    "zoom": (IP.zoom, lambda: ([img((6, 6)), (9, 9)], {})), "zoom[complex]": (IP.zoom, lambda: ([cimg((6, 6)), 8], {"order": 1})),
    "zoom_rbs": (IP.zoom_rbs, lambda: ([img((6, 6)), (9, 9)], {})), "zoom_rbs[complex]": (IP.zoom_rbs, lambda: ([cimg((6, 6)), 8], {"order": 1})),
    "binImgs": (IP.binImgs, lambda: ([img((6, 4)), 2], {})), "binImgs[stack]": (IP.binImgs, lambda: ([img((3, 6, 4)), 2], {})),
    "angularSpectrum": (OP.angularSpectrum, lambda: ([cimg((8, 8)), 5e-7, 1e-3, 1.5e-3, 2.0], {})),
    "angularSpectrum[z=0]": (OP.angularSpectrum, lambda: ([cimg((8, 8)), 5e-7, 1e-3, 1.5e-3, 0], {})),
    "oneStepFresnel": (OP.oneStepFresnel, lambda: ([cimg((8, 8)), 5e-7, 1e-3, 2.0], {})),
    "twoStepFresnel": (OP.twoStepFresnel, lambda: ([cimg((8, 8)), 5e-7, 1e-3, 1.5e-3, 2.0], {})),
    "lensAgainst": (OP.lensAgainst, lambda: ([cimg((8, 8)), 5e-7, 1e-3, 2.0], {})),
    "centre_of_gravity": (IMG.centre_of_gravity, lambda: ([img((7, 6))], {"threshold": 0.3})),
    "centre_of_gravity[stack]": (IMG.centre_of_gravity, lambda: ([img((3, 7, 6))], {"threshold": 0.3, "min_threshold": 0.2})),
    "centre_of_gravity[stack,t=0]": (IMG.centre_of_gravity, lambda: ([img((3, 7, 6))], {})),
    "centre_of_gravity[nan / inf pixels]": (IMG.centre_of_gravity, lambda: ([img_flagged((7, 6))], {})),
    "centre_of_gravity[stack, nan / inf pixels]": (IMG.centre_of_gravity, lambda: ([img_flagged((3, 7, 6))], {"threshold": 0.3})),
    "brightest_pixel[float64 stack, twice]": (lambda a, f: (IMG.brightest_pixel(a, f), IMG.brightest_pixel(a, 2 * f))[1], lambda: ([img((3, 6, 6)), 0.2], {})),
    "brightest_pixel": (IMG.brightest_pixel, lambda: ([img((6, 6)), 0.3], {})),
    "brightest_pixel[stack]": (IMG.brightest_pixel, lambda: ([img((3, 6, 6)), 0.3], {})),
    "quadCell": (IMG.quadCell, lambda: ([img((3, 2, 2))], {})),
    "cross_correlate": (IMG.cross_correlate, lambda: ([img((6, 6)), img((6, 6), 1)], {"padding": 2})),
    "correlation_centroid": (IMG.correlation_centroid, lambda: ([img((6, 6)), img((6, 6), 1)], {"threshold": 0.2})),
    "correlation_centroid[stack]": (IMG.correlation_centroid, lambda: ([img((3, 6, 6)), img((6, 6), 1)], {"threshold": 0.2, "padding": 2})),
    "image_contrast": (IMG.image_contrast, lambda: ([img((6, 6))], {})), "rms_contrast": (IMG.rms_contrast, lambda: ([img((6, 6)) * 3], {})),
    "azimuthal_average": (IMG.azimuthal_average, lambda: ([img((8, 8))], {})),
    "encircled_energy": (IMG.encircled_energy, lambda: ([img((8, 8))], {"fraction": 0.4})),
    "encircled_energy[func]": (IMG.encircled_energy, lambda: ([img((8, 8))], {"eeDiameter": False, "center": [3, 4]})),
    "findActiveSubaps": (W.findActiveSubaps, lambda: ([4, aotools.circle(4, 8), 0.5], {"returnFill": True})),
    "computeFillFactor": (W.computeFillFactor, lambda: ([aotools.circle(4, 8), numpy.array([[0., 2.], [2., 4.]]), 2], {})),
    "make_subaps_2d": (W.make_subaps_2d, lambda: ([img((2, 2, 12)), aotools.circle(2, 4)], {})),
    "photons_per_mag": (aotools.photons_per_mag, lambda: ([5.5, aotools.circle(4, 8), 0.1, 90., 0.01], {})),
    "photons_per_band": (aotools.photons_per_band, lambda: ([5.5, aotools.circle(4, 8), 0.1, 0.01], {"waveband": "r"})),
    "magnitude_to_flux": (aotools.magnitude_to_flux, lambda: ([img((3,)) * 10, "i"], {})),
    "flux_to_magnitude": (aotools.flux_to_magnitude, lambda: ([3e5, "K"], {})),
    "ft_phase_screen": (aotools.ft_phase_screen, lambda: ([0.15, 16, 0.05, 20., 0.01], {"seed": 7})),
    "ft_sh_phase_screen": (aotools.ft_sh_phase_screen, lambda: ([0.15, 16, 0.05, 20., 0.01], {"seed": 7})),
    "ft_phase_screen[seed=0]": (aotools.ft_phase_screen, lambda: ([0.15, 8, 0.05, 20., 0.01], {"seed": 0})),
    "ft_sh_phase_screen[seed=0]": (aotools.ft_sh_phase_screen, lambda: ([0.15, 8, 0.05, 20., 0.01], {"seed": numpy.int64(0)})),
    "phase_covariance": (aotools.phase_covariance, lambda: ([numpy.array([0., 0.3, 2.], dtype="float32"), 0.15, 20.], {})),
    "phase_covariance[f64]": (aotools.phase_covariance, lambda: ([numpy.array([[0., 0.3], [2., 5.]]), 0.15, 20.], {})),
    "structure_function_vk": (aotools.structure_function_vk, lambda: ([numpy.array([0., 0.1, 0.3, 2.]), 0.15, 20.], {})),
    "structure_function_kolmogorov": (aotools.structure_function_kolmogorov, lambda: ([numpy.array([0., 0.3, 2.]), 0.15], {})),
    "calculate_structure_function": (aotools.calculate_structure_function, lambda: ([img((16, 16))], {"step": 2})),
    "mirror_covariance_matrix": (SC.mirror_covariance_matrix, lambda: ([numpy.tril(img((4, 4))).astype("float32")], {})),
    "create_tomographic_covariance_reconstructor": (aotools.create_tomographic_covariance_reconstructor, lambda: ([(lambda a: a @ a.T)(img((8, 8))), 2], {"svd_conditioning": 0.01})),
    "wfs_covariance": (SC.wfs_covariance, lambda: ([3, 2, img((3, 2)), img((2, 2), 1), 0.5, 0.4, 0.2, 20.], {})),
    "calculate_wfs_seperations": (SC.calculate_wfs_seperations, lambda: ([3, 2, img((3, 2)), img((2, 2), 1)], {})),
    "compute_covariance_xx": (SC.compute_covariance_xx, lambda: ([img((3, 2, 2)), 0.5, 0.4, 0.2, 20.], {})),
    "compute_covariance_yy": (SC.compute_covariance_yy, lambda: ([img((3, 2, 2)), 0.5, 0.4, 0.2, 20.], {})),
    "compute_covariance_xy": (SC.compute_covariance_xy, lambda: ([img((3, 2, 2)), 0.5, 0.4, 0.2, 20.], {})),
    "calc_slope_temporalps": (aotools.calc_slope_temporalps, lambda: ([img((2, 16, 5))], {})),
    "get_tps_time_axis": (aotools.get_tps_time_axis, lambda: ([100., 16], {})),
    "cn2_to_seeing": (aotools.cn2_to_seeing, lambda: ([img((3,)) * 1e-13], {})), "cn2_to_r0": (aotools.cn2_to_r0, lambda: ([img((3,)) * 1e-13, 6e-7], {})),
    "r0_to_cn2": (aotools.r0_to_cn2, lambda: ([img((3,))], {})), "r0_to_seeing": (aotools.r0_to_seeing, lambda: ([img((3,))], {})),
    "seeing_to_r0": (aotools.seeing_to_r0, lambda: ([img((3,))], {})), "seeing_to_cn2": (aotools.seeing_to_cn2, lambda: ([img((3,))], {})),
    "coherenceTime": (aotools.coherenceTime, lambda: ([img((3, 4)) * 1e-13, img((3, 4), 1) * 10], {"axis": 0})),
    "isoplanaticAngle": (aotools.isoplanaticAngle, lambda: ([img((3, 4)) * 1e-13, img((3, 4), 1) * 1e4], {})),
    "rytov_variance": (aotools.rytov_variance, lambda: ([img((3, 4)) * 1e-13, img((3, 4), 1) * 1e4], {})),
    "r0_from_slopes": (aotools.r0_from_slopes, lambda: ([img((2, 5, 30)) * 1e-6, 5e-7, 0.4], {})),
    "slope_variance_from_r0": (aotools.slope_variance_from_r0, lambda: ([img((3,)), 5e-7, 0.4], {})),
    "equivalent_layers": (aotools.equivalent_layers, lambda: ([numpy.linspace(0, 20000, 12), img((12,)), 3], {"w": img((12,), 1) * 10})),
    "GCTM": (aotools.GCTM, lambda: ([numpy.linspace(0, 20000, 12), img((12,)) * 1e-13, 3], {})),
    "optimal_grouping": (aotools.optimal_grouping, lambda: ([2, 3, numpy.linspace(0, 20000, 12), img((12,))], {})),
}


def snapshot(x):
    if isinstance(x, numpy.ndarray):
        return ("nd", x.shape, x.dtype.str, x.tobytes())
    if isinstance(x, (list, tuple)):
        return (type(x).__name__, tuple(snapshot(v) for v in x))
    if isinstance(x, dict):
        return ("dict", tuple((k, snapshot(v)) for k, v in sorted(x.items())))
    return ("val", repr(x))


def same(a, b):
    try:
        if isinstance(a, (list, tuple)) and not isinstance(a, numpy.ndarray):
            return isinstance(b, (list, tuple)) and len(a) == len(b) and all(same(x, y) for x, y in zip(a, b))
        if isinstance(a, (numpy.ndarray, numpy.generic)) or isinstance(b, (numpy.ndarray, numpy.generic)):
            a, b = numpy.asarray(a), numpy.asarray(b)
            if a.dtype == object or b.dtype == object:
                return a.shape == b.shape and all(same(x, y) for x, y in zip(a.ravel().tolist(), b.ravel().tolist()))
            return a.shape == b.shape and numpy.array_equal(a, b, equal_nan=True)
        return bool(a == b) or bool(a != a and b != b)
    except Exception:
        return pickle.dumps(a) == pickle.dumps(b)


def chk_recipe(inp):
    name = inp["recipe"]
    if name not in RECIPES:
        return None
    f, mk = RECIPES[name]
    args, kw = mk()
    before = snapshot((args, kw))
    numpy.random.seed(1)
    r1 = f(*args, **kw)
    r1c = copy.deepcopy(r1)
    after = snapshot((args, kw))
    if before != after:
        k = [i for i, (a, b) in enumerate(zip(before[1][0][1], after[1][0][1])) if a != b]
        return {"message": "%s modified its argument(s) %s (values / shape / dtype changed)" % (name, k or "kwargs"), "observed": "changed", "expected": "bit-identical"}
    # user-side edit of the returned array must not leak into later calls (no shared cached objects)
    def scribble(r):
        if isinstance(r, numpy.ndarray) and r.size and r.flags.writeable and not any(r is a or numpy.shares_memory(r, a) for a in args if isinstance(a, numpy.ndarray)):
            try:
                r[...] = r * 0 - 7
            except Exception:
                pass
        elif isinstance(r, (list, tuple)):
            for v in r:
                scribble(v)
    scribble(r1)
    # interleave unrelated calls, then call again with equal (fresh) arguments
    aotools.circle(2.5, 6); aotools.zernike_noll(3, 6)
    numpy.random.seed(1)
    args2, kw2 = mk()
    r2 = f(*args2, **kw2)
    if not same(r1c, r2):
        tag = "C20-global-rng" if name == "optimal_grouping!" else None
        out = {"message": "%s called twice with equal arguments returned different results (hidden state)" % name, "observed": "differs", "expected": "equal"}
        return out
    # the caller refills the SAME buffers with new contents (a loop that reuses its frame / reference arrays) and calls again: the answer
    # must be what fresh arrays with those contents give (no result remembered by object identity)
    args3, kw3 = mk()
    arrs = [a for a in list(args3) + list(kw3.values()) if isinstance(a, numpy.ndarray) and a.size and a.flags.writeable and a.dtype.kind == "f"]
    if arrs and name != "optimal_grouping":
        try:
            numpy.random.seed(1)
            f(*args3, **kw3)
            for a in arrs:
                a[...] = a[(slice(None, None, -1),) * a.ndim] * 0.75 + 0.125 * a       # new finite positive contents, same object
            fresh_args, fresh_kw = copy.deepcopy((args3, kw3))
            numpy.random.seed(1)
            r_same = f(*args3, **kw3)
            numpy.random.seed(1)
            r_fresh = f(*fresh_args, **fresh_kw)
        except Exception:
            r_same = r_fresh = None          # contents the function refuses: nothing to compare
        if r_same is not None and not same(r_same, r_fresh):
            return {"message": "%s: buffers refilled in place and passed again give a different result than fresh arrays with the same contents (a result remembered by object identity)" % name,
                    "observed": "differs", "expected": "equal"}
    if name == "optimal_grouping":
        # hidden state: result must not depend on NumPy's global RandomState (listed finding when it does)
        numpy.random.seed(12345)
        st0 = numpy.random.get_state()[1].copy()
        a3, k3 = mk()
        f(*a3, **k3)
        if not numpy.array_equal(st0, numpy.random.get_state()[1]):
            return {"message": "optimal_grouping draws from / advances NumPy's global RandomState (hidden state shared with the caller)", "observed": "global RandomState advanced", "expected": "untouched",
                    "finding": "C20-global-rng"}


def fam_recipes(tier, seed):
    for name in RECIPES:
        yield {"recipe": name}


def chk_methods(inp):
    """object methods: constructor arguments are not modified by building / rebuilding / reading"""
    cm = covmat_obj()
    snap = snapshot([cm.pupil_masks, cm.subap_diameters, cm.gs_altitudes, cm.gs_positions, cm.wfs_wavelengths, cm.layer_altitudes, cm.layer_r0s, cm.layer_L0s])
    m1 = cm.make_covariance_matrix().copy()
    cm.make_tomographic_reconstructor(0.01)
    m2 = cm.make_covariance_matrix()
    snap2 = snapshot([cm.pupil_masks, cm.subap_diameters, cm.gs_altitudes, cm.gs_positions, cm.wfs_wavelengths, cm.layer_altitudes, cm.layer_r0s, cm.layer_L0s])
    if snap != snap2:
        return {"message": "CovarianceMatrix modified the arrays passed to its constructor"}
    if not numpy.array_equal(m1, m2):
        return {"message": "CovarianceMatrix.make_covariance_matrix twice on the same object gives different matrices"}
    for cls, kw in ((aotools.PhaseScreenVonKarman, {"n_columns": 2}), (aotools.PhaseScreenKolmogorov, {"stencil_length_factor": 2})):
        # frames handed out earlier stay what they were when later rows are added
        k_ = cls(8, 0.1, 0.2, 20., random_seed=5, **kw)
        kept, snaps = [], []
        for _ in range(5):
            f = k_.add_row(); kept.append(f); snaps.append(f.copy())
        kept.append(k_.scrn); snaps.append(k_.scrn.copy())
        k_.add_row(); k_.add_row()
        for i, (f, s0) in enumerate(zip(kept, snaps)):
            if not numpy.array_equal(f, s0):
                return {"message": "%s: the screen returned by call %d was modified by later add_row() calls (result aliases a buffer that is rewritten)" % (cls.__name__, i)}
        a = cls(8, 0.1, 0.2, 20., random_seed=3, **kw)
        b = cls(8, 0.1, 0.2, 20., random_seed=3, **kw)
        for _ in range(3):
            ra = a.add_row().copy(); repr(b); _ = b.scrn; rb = b.add_row()
            if not numpy.array_equal(ra, rb):
                return {"message": "%s: reading / printing the screen changes later rows" % cls.__name__}


CLAUSES = {"purity": (chk_recipe, fam_recipes), "methods": (chk_methods, lambda t, s: [{}])}
if __name__ == "__main__":
    main(CLAUSES)
