"""C11 Propagators form a group and agree with each other and with theory."""
import sys, os
sys.path.insert(0, os.path.dirname(os.path.dirname(os.path.abspath(__file__))))
from aovc.check import run_check
from contracts import optics, fourier


def build(chk):
    chk.assumptions_used.update(["A-REAL", "A-NP"])
    chk.math_lemmas.append("operator identities of the DFT (ifft.fft = id, rolls compose, diagonal phases compose) as library contract of numpy.fft")
    chk.notes.append("requires: square N x N input (N even or odd), wvl, d1, d2 > 0; ft2/ift2 used through their C09 contract")
    optics.c11_obligations(chk)
    optics.c11_orientation(chk)
    optics.c11_fresnel_as(chk)
    chk.bounded_native("every propagator reproduces the analytic Gaussian beam (complex field: width, curvature, Gouy phase; no free phase), even and odd grid sizes, on- and off-axis beams, magnifications 1 / 1.5 / 0.75, both signs of z", "gaussian",
                       "N in {96, 97, 127, 128}, tolerance 1e-6 of the peak (aliasing of the chosen beams < 1e-7)", "aotools/opticalpropagation.py:angularSpectrum,oneStepFresnel,twoStepFresnel,lensAgainst")
    chk.bounded_native("focal-plane field of a circular aperture is the Airy pattern centred on sample N//2 (peak exact, side lobes within the pixelation error 2.5 / radius)", "airy",
                       "N in {255, 256, 192}", "aotools/opticalpropagation.py:lensAgainst")
    # the propagator identities use ft2 / ift2 through their contract and assume the input field is not modified: both are re-checked here
    with chk.borrow("C09"):
        fourier.obligations(chk, real_variants=False)
    with chk.borrow("C10"):
        optics.c10_obligations(chk)
    chk.confirm_known("C11-negative-distance-orientation", "orientation", {"m": 0.8, "z": 100.0})
    chk.confirm_known("C11-twostep-near-unit-magnification", "nearunit", None)
    chk.not_decided.append("reproduces the analytic Gaussian beam and the Airy pattern in the continuous limit: decided deductively only as 'each propagator is the discretised Fresnel integral on grids centred on the transform origin' (kernel-form obligations); the closed forms themselves are bounded native comparisons")
    chk.not_decided.append("numerical agreement between angular-spectrum and Fresnel propagators on coinciding grids (different discretisations; only orientation/kernel form is decided)")
    chk.not_decided.append("orientation for negative partial distances: listed finding C11-negative-distance-orientation (proved only for positive distances)")


if __name__ == "__main__":
    sys.exit(run_check("C11", "Propagators form a group and agree with each other and with theory", build))
