"""Contracts for aotools/image_processing/centroiders.py (property C15)."""
import z3
from aovc.check import num
from aovc.contract import verify
from aovc.values import zr, zi, ite, cmp, b_and
from aovc.arrays import sym_arr, Arr
from aovc import npmodel, sigma

CN = "aotools/image_processing/centroiders.py"
H, W, B = z3.Ints("H W B")


def cog_parts(it, e):
    """(numerator sum, denominator sum) of a centre-of-gravity quotient"""
    sums = sigma.find_sums(e)
    return sums


def obligations(chk):
    y0, x0, b0 = z3.Ints("y0 x0 b0")
    v, c, thr, mthr = z3.Reals("v c thr mthr")

    def delta_goals(it, out, stack):
        goals = []
        for comp, coord, nm in ((0, x0, "x"), (1, y0, "y")):
            e = zr(out.get([comp, b0] if stack else [comp]))
            sums = sigma.find_sums(e)
            hyps = []
            for k, sm in enumerate(sums):
                rng, body = sigma.instantiate(it.ctx, sm)
                is_num = k == 0
                val = (z3.ToReal(coord) * v) if is_num else v
                if len(rng) == 2:
                    o, h = sigma.delta(it.ctx, sm, [y0, x0], val)
                    goals += [("%s.sum%d.%s" % (nm, k, n_), g) for n_, g in o]
                    hyps.append(h)
                else:
                    # nested: outer over y of (inner over x)
                    inner = sigma.find_sums(body)
                    if len(inner) != 1:
                        goals.append(("%s.sum%d.nested-structure" % (nm, k), z3.BoolVal(False)))
                        continue
                    # inner sum at row y: delta at x0 with value (val if y == y0 else 0)
                    yv = rng[0][0]
                    o1, h1 = sigma.delta(it.ctx, inner[0], [x0], z3.If(yv == y0, val, z3.RealVal(0)))
                    goals += [("%s.sum%d.inner.%s" % (nm, k, n_), z3.Implies(sigma.in_range(rng), g)) for n_, g in o1]
                    # outer: with the inner equality as a hypothesis for every y in range (bound variable instance)
                    o2, h2 = sigma.delta(it.ctx, sm, [y0], val)
                    goals += [("%s.sum%d.outer.%s" % (nm, k, n_), g, {"hyps": [z3.Implies(sigma.in_range(rng), h1)]}) for n_, g in o2]
                    hyps.append(h2)
            goals.append(("centroid.%s=%s0" % (nm, nm), e == z3.ToReal(coord), {"hyps": hyps}))
        return goals

    # ---------------------------------------------------------------- (1) a single bright pixel at (y0, x0): centroid (x0, y0)
    for stack in (False, True):
        def run_delta(it, stack=stack):
            it.ctx.assume(z3.And(H >= 1, W >= 1, B >= 1, v > 0, y0 >= 0, y0 < H, x0 >= 0, x0 < W, b0 >= 0, b0 < B))
            if stack:
                img = Arr([B, H, W], lambda idx: ite(b_and(cmp("==", idx[1], y0), cmp("==", idx[2], x0)), v, 0), "float", prov={"img"})
            else:
                img = Arr([H, W], lambda idx: ite(b_and(cmp("==", idx[0], y0), cmp("==", idx[1], x0)), v, 0), "float", prov={"img"})
            return it, it.call_repo(CN, "centre_of_gravity", [img])

        def post_delta(pr, stack=stack):
            it, out = pr.value
            ok = isinstance(out, Arr) and out.ndim == (2 if stack else 1)
            goals = [("result-rank", z3.BoolVal(ok))]
            if not ok:
                return goals
            return goals + delta_goals(it, out, stack)
        verify(chk, "centre_of_gravity.single-pixel[%s]" % ("stack" if stack else "2d"), CN + ":centre_of_gravity", run_delta, post_delta, clause="cog.single-pixel",
               replay=lambda m: {"H": num(m.eval(H, model_completion=True)), "W": num(m.eval(W, model_completion=True)), "y0": num(m.eval(y0, model_completion=True)), "x0": num(m.eval(x0, model_completion=True))},
               encoding="Sigma delta rule", skip_defs=("divisor non-zero",))   # the divisors are the sums proved equal to v > 0 by the delta rule

    # ---------------------------------------------------------------- (5) quad cell: signal changes sign under mirroring
    def run_quad(it):
        it.ctx.assume(z3.And(B >= 1, b0 >= 0, b0 < B))
        img = sym_arr("img", [B, 2, 2], prov={"img"})
        mx = Arr([B, 2, 2], lambda idx: img.get([idx[0], idx[1], 1 - idx[2]]), "float")      # img[..., ::-1]
        my = Arr([B, 2, 2], lambda idx: img.get([idx[0], 1 - idx[1], idx[2]]), "float")      # img[..., ::-1, :]
        return [it.call_repo(CN, "quadCell", [a]) for a in (img, mx, my)] + [it.call_repo(CN, "quadCell", [npmodel.getitem(it, img, (b0,))])]

    def post_quad(pr):
        o, ox, oy, single = pr.value
        inb = z3.And(b0 >= 0, b0 < B)
        g = lambda a, k: zr(a.get([k, b0]))
        return [("x-signal-changes-sign-under-left-right-mirroring", z3.Implies(inb, z3.And(g(ox, 0) == -g(o, 0), g(ox, 1) == g(o, 1)))),
                ("y-signal-changes-sign-under-up-down-mirroring", z3.Implies(inb, z3.And(g(oy, 1) == -g(o, 1), g(oy, 0) == g(o, 0)))),
                ("stack-item-equals-single-frame", z3.Implies(inb, z3.And(zr(single.get([0])) == g(o, 0), zr(single.get([1])) == g(o, 1))))]
    verify(chk, "quadCell", CN + ":quadCell", run_quad, post_quad, clause="quadcell", replay=lambda m: {}, encoding="pointwise (2x2 sums expanded)")

    # ---------------------------------------------------------------- (2)+(3) scale invariance and stack = frame, threshold 0 and != 0
    for thresholded in (False, True):
        holder = {}

        def run_sv(it, thresholded=thresholded):
            it.ctx.assume(z3.And(H >= 1, W >= 1, B >= 1, c > 0, b0 >= 0, b0 < B))
            img = sym_arr("img", [B, H, W], prov={"img"})
            scaled = Arr([B, H, W], lambda idx: zr(img.get(idx)) * c, "float", prov={"img2"})
            frame = npmodel.getitem(it, img, (b0,))
            kw = {}
            if thresholded:
                it.ctx.assume(z3.And(thr > 0, thr < 1, mthr >= 0))
                kw = {"threshold": thr, "min_threshold": mthr}
            holder.update(img=img, scaled=scaled)
            o_stack = it.call_repo(CN, "centre_of_gravity", [img], dict(kw))
            o_frame = it.call_repo(CN, "centre_of_gravity", [frame], dict(kw))
            kw2 = dict(kw)
            if thresholded:
                kw2["min_threshold"] = mthr * c
            o_scaled = it.call_repo(CN, "centre_of_gravity", [scaled], kw2)
            return it, o_stack, o_frame, o_scaled

        def post_sv(pr, thresholded=thresholded):
            it, o_stack, o_frame, o_scaled = pr.value
            goals = []
            ok = isinstance(o_stack, Arr) and o_stack.ndim == 2 and isinstance(o_frame, Arr) and o_frame.ndim == 1 and isinstance(o_scaled, Arr) and o_scaled.ndim == 2
            goals.append(("result-ranks", z3.BoolVal(ok)))
            if not ok:
                return goals
            for comp, nm in ((0, "x"), (1, "y")):
                es, ef, ec = zr(o_stack.get([comp, b0])), zr(o_frame.get([comp])), zr(o_scaled.get([comp, b0]))
                # extremes (per-frame maxima): relate nested / joint / scaled maxima through their witnesses
                ext_terms = npmodel.find_extremes(it, es) + npmodel.find_extremes(it, ef) + npmodel.find_extremes(it, ec)
                # nested maxima: the outer max's array elements are inner maxima, evaluated at the outer witness when the bound is instantiated
                exh = npmodel.extreme_chain_instances(it, ext_terms)
                more = []
                for t_ in list(ext_terms):
                    pass
                ss, sf, sc = sigma.find_sums(es), sigma.find_sums(ef), sigma.find_sums(ec)
                goals.append(("%s.structure: two sums per quotient" % nm, z3.BoolVal(len(ss) == 2 and len(sf) == 2 and len(sc) == 2)))
                if not (len(ss) == 2 and len(sf) == 2 and len(sc) == 2):
                    continue
                hy_f, hy_c = list(exh), list(exh)
                for k in range(2):
                    o, h = sigma.fubini(it.ctx, sf[k], ss[k])
                    goals += [("%s.stack-vs-frame.sum%d.%s" % (nm, k, n_), g, {"hyps": exh}) for n_, g in o]
                    hy_f.append(h)
                    # scaled: nested sums; outer ext with factor c needs inner ext with factor c
                    (ry, by_), (ry2, by2) = sigma.instantiate(it.ctx, sc[k]), sigma.instantiate(it.ctx, ss[k])
                    in_c, in_s = sigma.find_sums(by_), sigma.find_sums(by2)
                    if len(in_c) == 1 and len(in_s) == 1:
                        o1, h1 = sigma.ext(it.ctx, in_c[0], in_s[0], factor=c)
                        yv = ry[0][0]
                        yv2 = ry2[0][0]
                        o1 = [(n_, z3.substitute(g, (yv2, yv))) for n_, g in o1]
                        h1 = z3.substitute(h1, (yv2, yv))
                        goals += [("%s.scale.sum%d.inner.%s" % (nm, k, n_), z3.Implies(sigma.in_range(ry), g), {"hyps": exh}) for n_, g in o1]
                        o2, h2 = sigma.ext(it.ctx, sc[k], ss[k], factor=c)
                        goals += [("%s.scale.sum%d.outer.%s" % (nm, k, n_), g, {"hyps": exh + [z3.Implies(sigma.in_range(ry), h1)]}) for n_, g in o2]
                        hy_c.append(h2)
                    else:
                        goals.append(("%s.scale.sum%d.nested-structure" % (nm, k), z3.BoolVal(False)))
                nz = [z3.Implies(True, ss[1] != 0)]
                goals.append(("%s.stack-item-equals-single-frame" % nm, z3.Implies(ss[1] != 0, es == ef), {"hyps": hy_f}))
                goals.append(("%s.unchanged-by-positive-scaling" % nm, z3.Implies(ss[1] != 0, ec == es), {"hyps": hy_c}))
            return goals
        verify(chk, "centre_of_gravity.stack-and-scale[%s]" % ("thresholded" if thresholded else "threshold=0"), CN + ":centre_of_gravity", run_sv, post_sv, clause="cog.stack-scale",
               replay=lambda m, thresholded=thresholded: {"thresholded": thresholded, "H": num(m.eval(H, model_completion=True)), "W": num(m.eval(W, model_completion=True)), "B": num(m.eval(B, model_completion=True))},
               encoding="Sigma rules (Fubini, linearity) + extreme-term witnesses", skip_defs=("divisor non-zero",), frame=True)


def brightest_obligations(chk):
    """brightest_pixel: a frame inside a stack (one or two leading axes) gives exactly what the frame alone gives, for every image size,
    stack depth and fraction selecting at least two pixels.  numpy.sort is an uninterpreted order-statistic functional of each row's contents
    (npmodel._np_sort): the per-frame level of the stack path and the level of the 2-d path are then the same term, the upper clip at the
    (different) maxima is the identity by the maxima's defining bounds, and the centroid sums are related by the Fubini rule."""
    b0, b1, B2 = z3.Ints("b0 b1 B2")
    frac = z3.Real("frac")
    for lead_n, dt in ((1, "float"), (2, "float"), (1, "int")):
        def run(it, lead_n=lead_n, dt=dt):
            it.ctx.assume(z3.And(H >= 1, W >= 1, B >= 1, B2 >= 1, b0 >= 0, b0 < B, b1 >= 0, b1 < B2, frac > 0, frac < 1, frac * z3.ToReal(H * W) >= 2))
            img = sym_arr("img", ([B] if lead_n == 1 else [B, B2]) + [H, W], dtype=dt, prov={"img"})
            frame = npmodel.getitem(it, img, (b0,) if lead_n == 1 else (b0, b1))
            o_stack = it.call_repo(CN, "brightest_pixel", [img, frac])
            o_frame = it.call_repo(CN, "brightest_pixel", [frame, frac])
            return it, o_stack, o_frame

        def post(pr, lead_n=lead_n):
            it, o_stack, o_frame = pr.value
            lead = [b0] if lead_n == 1 else [b0, b1]
            ok = isinstance(o_stack, Arr) and o_stack.ndim == 1 + lead_n and isinstance(o_frame, Arr) and o_frame.ndim == 1
            goals = [("result-ranks", z3.BoolVal(ok))]
            if not ok:
                return goals
            for comp, nm in ((0, "x"), (1, "y")):
                es, ef = zr(o_stack.get([comp] + lead)), zr(o_frame.get([comp]))
                ext_terms = npmodel.find_extremes(it, es) + npmodel.find_extremes(it, ef)
                exh = npmodel.extreme_chain_instances(it, ext_terms)
                ss, sf = sigma.find_sums(es), sigma.find_sums(ef)
                shape_ok = len(ss) == 2 and len(sf) == 2
                goals.append(("%s.structure: two sums per quotient" % nm, z3.BoolVal(shape_ok)))
                if not shape_ok:
                    continue
                hy = list(exh)
                for k in range(2):
                    o, h = sigma.fubini(it.ctx, sf[k], ss[k])
                    rj, _ = sigma.instantiate(it.ctx, sf[k])
                    if len(rj) != 2:
                        goals.append(("%s.sum%d.frame-sum-is-joint" % (nm, k), z3.BoolVal(False)))
                        continue
                    vy, vx = rj[0][0], rj[1][0]
                    # the maxima bound every element: instantiated at the summation index (upper clip = identity)
                    eb = []
                    for t in ext_terms:
                        rank = len(it.ctx.extremes[t.sexpr()].shape)
                        eb.append(npmodel.extreme_bound(it, t, (lead if rank == 2 + lead_n else []) + [vy, vx]))
                    goals += [("%s.stack-vs-frame.sum%d.%s" % (nm, k, n_), g, {"hyps": exh + eb}) for n_, g in o]
                    hy.append(h)
                goals.append(("%s.stack-item-equals-single-frame" % nm, z3.Implies(ss[1] != 0, es == ef), {"hyps": hy}))
            return goals
        verify(chk, "brightest_pixel.stack-item=frame[%d leading ax%s%s]" % (lead_n, "is" if lead_n == 1 else "es", "" if dt == "float" else ", integer frames"), CN + ":brightest_pixel,centre_of_gravity", run, post, clause="brightest",
               replay=lambda m, lead_n=lead_n: {"lead": lead_n, "H": num(m.eval(H, model_completion=True)), "W": num(m.eval(W, model_completion=True)), "B": num(m.eval(B, model_completion=True))},
               encoding="order statistic of numpy.sort uninterpreted (function of the row's contents); Sigma rule Fubini; maxima by their defining bounds",
               skip_defs=("divisor non-zero",))       # the divisor is the flux above the level: the clause is stated for frames where it is non-zero


def _ordstats(e):
    """applications of the order-statistic functionals (npmodel._np_sort) in a term"""
    out, seen, st = [], set(), [e]
    while st:
        t = st.pop()
        if not z3.is_expr(t) or t.get_id() in seen:
            continue
        seen.add(t.get_id())
        if z3.is_app(t) and t.decl().name().startswith("OrdStat"):
            out.append(t)
        st.extend(t.children())
    return out


def brightest_scale_obligations(chk):
    """brightest_pixel is unchanged when the image is multiplied by a positive constant c (stack path, every size / depth / fraction).
    Library contract used (assumed, A-NP): sorting commutes with multiplication by c > 0, i.e. every order statistic of c*a is c times
    that of a - instantiated for the one level term of each path.  Everything else (the subtraction, both clips, the maxima, the
    centroid sums) is the real code."""
    b0 = z3.Int("b0")
    frac, c = z3.Reals("frac c")

    def run(it):
        it.ctx.assume(z3.And(H >= 1, W >= 1, B >= 1, b0 >= 0, b0 < B, frac > 0, frac < 1, frac * z3.ToReal(H * W) >= 2, c > 0))
        img = sym_arr("img", [B, H, W], prov={"img"})
        scaled = Arr([B, H, W], lambda idx: zr(img.get(idx)) * c, "float", prov={"img2"})
        return it, it.call_repo(CN, "brightest_pixel", [img, frac]), it.call_repo(CN, "brightest_pixel", [scaled, frac])

    def post(pr):
        it, o_s, o_c = pr.value
        ok = isinstance(o_s, Arr) and o_s.ndim == 2 and isinstance(o_c, Arr) and o_c.ndim == 2
        goals = [("result-ranks", z3.BoolVal(ok))]
        if not ok:
            return goals
        for comp, nm in ((0, "x"), (1, "y")):
            es, ec = zr(o_s.get([comp, b0])), zr(o_c.get([comp, b0]))
            ext_terms = npmodel.find_extremes(it, es) + npmodel.find_extremes(it, ec)
            exh = npmodel.extreme_chain_instances(it, ext_terms)
            ss, sc = sigma.find_sums(es), sigma.find_sums(ec)
            shape_ok = len(ss) == 2 and len(sc) == 2
            goals.append(("%s.structure: two sums per quotient" % nm, z3.BoolVal(shape_ok)))
            if not shape_ok:
                continue
            hy = list(exh)
            for k in range(2):
                (ry, by_), (ry2, by2) = sigma.instantiate(it.ctx, sc[k]), sigma.instantiate(it.ctx, ss[k])
                in_c, in_s = sigma.find_sums(by_), sigma.find_sums(by2)
                if not (len(in_c) == 1 and len(in_s) == 1 and len(ry) == 1 and len(ry2) == 1):
                    goals.append(("%s.scale.sum%d.nested-structure" % (nm, k), z3.BoolVal(False)))
                    continue
                yv, yv2 = ry[0][0], ry2[0][0]
                (rxc, bxc), (rxs, bxs) = sigma.instantiate(it.ctx, in_c[0]), sigma.instantiate(it.ctx, in_s[0])
                xv, xv2 = rxc[0][0], rxs[0][0]
                oc_, os_ = _ordstats(bxc), _ordstats(bxs)
                one_level = len(oc_) == 1 and len(os_) == 1
                goals.append(("%s.scale.sum%d.one-level-term-per-path" % (nm, k), z3.BoolVal(one_level)))
                if not one_level:
                    continue
                homog = [oc_[0] == c * os_[0]]        # A-NP: order statistics are positively homogeneous (instance)
                eb = [npmodel.extreme_bound(it, t, [b0, yv, xv]) for t in ext_terms if len(it.ctx.extremes[t.sexpr()].shape) == 3]
                o1, h1 = sigma.ext(it.ctx, in_c[0], in_s[0], factor=c)
                o1 = [(n_, z3.substitute(g, (yv2, yv), (xv2, xv))) for n_, g in o1]
                h1 = z3.substitute(h1, (yv2, yv))
                goals += [("%s.scale.sum%d.inner.%s" % (nm, k, n_), z3.Implies(sigma.in_range(ry), g), {"hyps": exh + homog + eb}) for n_, g in o1]
                o2, h2 = sigma.ext(it.ctx, sc[k], ss[k], factor=c)
                goals += [("%s.scale.sum%d.outer.%s" % (nm, k, n_), g, {"hyps": exh + homog + [z3.Implies(sigma.in_range(ry), h1)]}) for n_, g in o2]
                hy.append(h2)
            goals.append(("%s.unchanged-by-positive-scaling" % nm, z3.Implies(ss[1] != 0, ec == es), {"hyps": hy}))
        return goals
    verify(chk, "brightest_pixel.scale[stack]", CN + ":brightest_pixel,centre_of_gravity", run, post, clause="brightest",
           replay=lambda m: {"H": num(m.eval(H, model_completion=True)), "W": num(m.eval(W, model_completion=True)), "B": num(m.eval(B, model_completion=True))},
           encoding="order statistic uninterpreted + positive-homogeneity instance (library contract); Sigma linearity; maxima by their defining bounds",
           skip_defs=("divisor non-zero",))
    chk.math_lemmas.append("numpy.sort commutes with multiplication by a positive constant (sort(c a) = c sort(a), c > 0): assumed library contract, used as one instance per path")
