"""Contracts for the empirical estimators (property C19): calculate_structure_function, calc_slope_temporalps, get_tps_time_axis"""
import z3
from aovc.check import num
from aovc.contract import verify
from aovc.values import zr, zi, Cx
from aovc.arrays import sym_arr, Arr
from aovc import npmodel, sigma

SC = "aotools/turbulence/slopecovariance.py"
TP = "aotools/turbulence/temporal_ps.py"


def obligations(chk):
    R, C, step, nb = z3.Ints("R C step nb")
    j = z3.Int("j")

    ANN = {("calculate_structure_function", 0): {
        "inverse": lambda X: [X[0] - 1],
        "lemmas": [lambda it, K: [("(step + K*step)/step = 1 + K", (z3.ToReal(step) + z3.ToReal(K[0]) * z3.ToReal(step)) / z3.ToReal(step) == 1 + z3.ToReal(K[0])),
                                  ("lag step + K*step is positive", step + K[0] * step > 0)]]}}

    def spec_sf(it, phase, lag):
        """mean over the R - lag overlapping rows and all columns of (phase[r, c] - phase[r + lag, c])^2"""
        ps = phase.snapshot()
        s = npmodel.sigma(it, [(0, R - lag), (0, C)], lambda k: (zr(ps([k[0], k[1]])) - zr(ps([k[0] + lag, k[1]]))) * (zr(ps([k[0], k[1]])) - zr(ps([k[0] + lag, k[1]]))), "spec")
        return zr(s) / (zr(R - lag) * zr(C))

    for variant in ("explicit", "defaults"):
        def run(it, variant=variant):
            for a in (R >= 1, C >= 1):
                it.ctx.assume(a)
            ph = sym_arr("phase", [R, C], prov={"phase"})
            if variant == "explicit":
                it.ctx.assume(step >= 1)
                it.ctx.assume(nb >= 1)
                sf = it.call_repo(SC, "calculate_structure_function", [ph, nb, step])
            else:
                sf = it.call_repo(SC, "calculate_structure_function", [ph])
            return it, ph, sf

        def post(pr, variant=variant):
            it, ph, sf = pr.value
            st = step if variant == "explicit" else z3.IntVal(1)
            goals = [("result-is-1d", z3.BoolVal(isinstance(sf, Arr) and sf.ndim == 1))]
            if not (isinstance(sf, Arr) and sf.ndim == 1):
                return goals
            xm = zi(sf.shape[0])
            if variant == "explicit":
                mn = z3.If(z3.ToReal(nb) <= z3.ToReal(R) / z3.ToReal(st) - 1, z3.ToReal(nb), z3.ToReal(R) / z3.ToReal(st) - 1)
            else:
                mn = z3.If(z3.ToReal(C) / 4 <= z3.ToReal(R) - 1, z3.ToReal(C) / 4, z3.ToReal(R) - 1)
            goals.append(("length=int(min(nbOfPoint, rows/step - 1))", xm == z3.If(mn >= 0, z3.ToInt(mn), -z3.ToInt(-mn))))
            goals.append(("lag0-is-zero", z3.Implies(xm >= 1, zr(sf.get([0])) == 0)))
            code = zr(sf.get([j]))
            spec = spec_sf(it, ph, j * st)
            side, hyps = sigma.relate_pairwise(it.ctx, code, spec)
            inb = z3.And(j >= 1, j < xm)
            for n_, f in side:
                goals.append(("lag-j.%s" % n_, z3.Implies(inb, f)))
            goals.append(("lag-j-is-mean-squared-difference", z3.Implies(inb, code == spec), {"hyps": hyps}))
            return goals

        def replay(m, variant=variant):
            g = lambda t: num(m.eval(t, model_completion=True))
            return {"R": g(R), "C": g(C), "step": g(step) if variant == "explicit" else None, "nb": g(nb) if variant == "explicit" else None, "j": g(j)}
        verify(chk, "calculate_structure_function[%s]" % variant, SC + ":calculate_structure_function", run, post, clause="sf.definition", replay=replay,
               encoding="loop-summary S2 + sigma-extensionality", loop_annotations=ANN if variant == "explicit" else {})


    # ---- temporal power spectrum: squared modulus of the FFT along the frame axis, averaged over sub-apertures
    B, F, NC = z3.Ints("B F NC")
    b, kf = z3.Ints("b kf")

    def run_tps(it):
        for a in (B >= 1, F >= 1, NC >= 1):
            it.ctx.assume(a)
        sl = sym_arr("slope", [B, F, NC], prov={"slope_data"})
        out = it.call_repo(TP, "calc_slope_temporalps", [sl])
        return it, sl, out

    def post_tps(pr):
        it, sl, out = pr.value
        ok = isinstance(out, tuple) and len(out) == 2 and all(isinstance(o, Arr) and o.ndim == 2 for o in out)
        goals = [("returns (mean, error) of rank 2", z3.BoolVal(bool(ok)))]
        if not ok:
            return goals
        mean_tps, err = out
        half = z3.If(z3.ToReal(F) / 2 >= 0, z3.ToInt(z3.ToReal(F) / 2), 0)
        for nm, o in (("mean", mean_tps), ("error", err)):
            goals.append(("%s.shape=(batch, floor(n_frames/2))" % nm, z3.And(zi(o.shape[0]) == B, zi(o.shape[1]) == half)))
        FT_ = npmodel.abstract_fft(it, sl, "fft", [1], None, None)     # the DFT along the frame axis (library contract: opaque, congruent)
        fs = FT_.snapshot()
        p2 = lambda idx: npmodel.s_abs2(fs(idx))
        spec_mean = zr(npmodel.sigma(it, [(0, NC)], lambda c: p2([b, kf, c[0]]), "spec")) / zr(NC)
        inb = z3.And(b >= 0, b < B, kf >= 0, kf < half)
        code = zr(mean_tps.get([b, kf]))
        side, hyps = sigma.relate_pairwise(it.ctx, code, spec_mean)
        for n_, f in side:
            goals.append(("mean.%s" % n_, z3.Implies(inb, f)))
        goals.append(("mean_tps=mean over sub-apertures of |FFT|^2", z3.Implies(inb, code == spec_mean), {"hyps": hyps}))
        # error = std over sub-apertures / sqrt(n_subaps)
        dev = lambda c: (zr(p2([b, kf, c])) - spec_mean) * (zr(p2([b, kf, c])) - spec_mean)
        spec_var = zr(npmodel.sigma(it, [(0, NC)], lambda c: dev(c[0]), "specvar")) / zr(NC)
        code_e = zr(err.get([b, kf]))
        side2, hyps2 = sigma.relate_pairwise(it.ctx, code_e, spec_var)
        for n_, f in side2:
            goals.append(("error.%s" % n_, z3.Implies(inb, f), {"hyps": hyps}))
        nn_side, nn_hyps = [], []
        for sm in sigma.find_sums(spec_var):
            o_, h_ = sigma.nonneg(it.ctx, sm)
            nn_side += o_
            nn_hyps.append(h_)
        for n_, f in nn_side:
            goals.append(("error.variance.%s" % n_, z3.Implies(inb, f)))
        goals.append(("tps_err^2*n = var over sub-apertures of |FFT|^2", z3.Implies(inb, code_e * code_e * zr(NC) == spec_var), {"hyps": hyps + hyps2 + nn_hyps}))
        return goals

    def replay_tps(m):
        g = lambda t: num(m.eval(t, model_completion=True))
        return {"B": g(B), "F": g(F), "NC": g(NC)}
    verify(chk, "calc_slope_temporalps", TP + ":calc_slope_temporalps", run_tps, post_tps, clause="tps.definition", replay=replay_tps, encoding="pointwise + sigma-extensionality")

    # ---- frequency axis
    rate = z3.Real("frame_rate")
    nfr = z3.Int("n_frames")

    def run_ax(it):
        it.ctx.assume(rate > 0)
        it.ctx.assume(nfr >= 1)
        return it.call_repo(TP, "get_tps_time_axis", [rate, nfr])

    def post_ax(pr):
        t = pr.value
        if not (isinstance(t, Arr) and t.ndim == 1):
            return [("returns 1-d", z3.BoolVal(False))]
        half = z3.ToInt(z3.ToReal(nfr) / 2)
        return [("length=floor(n_frames/2)", zi(t.shape[0]) == half),
                ("t[k]=k*frame_rate/n_frames", z3.Implies(z3.And(kf >= 0, kf < half), zr(t.get([kf])) == zr(kf) * rate / zr(nfr)))]
    verify(chk, "get_tps_time_axis", TP + ":get_tps_time_axis", run_ax, post_ax, clause="tps.axis",
           replay=lambda m: {"frame_rate": num(m.eval(rate, model_completion=True)), "n_frames": num(m.eval(nfr, model_completion=True))})
