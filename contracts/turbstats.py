"""Contracts for the closed-form turbulence statistics (property C08)."""
import z3
from aovc.check import num
from aovc.contract import verify
from aovc.values import zr, zi, UF, PI
from aovc import constfold

TURB = "aotools/turbulence/turb.py"
SC = "aotools/turbulence/slopecovariance.py"
KL = "aotools/functions/karhunenLoeve.py"
TOL = "0.001"


def _entails(pr, f):
    """path condition of the explored path entails f (z3, linear facts only; unknown counts as no)"""
    sv = z3.Solver()
    sv.set("timeout", 3000)
    for a in pr.ctx.hyps():
        sv.add(a)
    sv.add(z3.Not(f))
    return sv.check() == z3.unsat


def obligations(chk):
    import sympy
    r, r0, L0 = z3.Reals("r r0 L0")
    res = {}

    def run_all(it):
        res = {}          # per path (a shared holder would mix the values of different paths)
        it.ctx.assume(z3.And(r > 0, r0 > 0, L0 > 0))
        res["D"] = it.call_repo(SC, "structure_function_vk", [r, r0, L0])
        res["Dk"] = it.call_repo(SC, "structure_function_kolmogorov", [r, r0])
        # phase_covariance evaluates its formula at r + 1e-40 (declared regularisation of r = 0): the contract is stated at that internal separation
        from fractions import Fraction
        it.ctx.assume(r > z3.RealVal("1/" + "1" + "0" * 40))
        res["C"] = it.call_repo(TURB, "phase_covariance", [r - z3.RealVal("1/" + "1" + "0" * 40), r0, L0])
        res["klD"] = it.call_repo(KL, "stf_vonKarman", [r, L0])
        res["klDk"] = it.call_repo(KL, "stf_kolmogorov", [r])
        return res

    def post_all(pr):
        res = pr.value
        goals = []
        # the von Karman closed forms branch on `separation == 0`: under this path's condition (r > 0) the branch is decided
        def resolve(t):
            t = z3.simplify(t)
            if z3.is_app(t) and t.decl().kind() == z3.Z3_OP_ITE:
                c = t.arg(0)
                if pr_valid(c):
                    return resolve(t.arg(1))
                if pr_valid(z3.Not(c)):
                    return resolve(t.arg(2))
                return t
            if z3.is_app(t) and t.num_args():
                return t.decl()(*[resolve(a) for a in t.children()])
            return t
        pr_valid = lambda f: z3.is_true(z3.simplify(f)) or _entails(pr, f)
        D, Dk, C, klD, klDk = (resolve(zr(res[k])) for k in ("D", "Dk", "C", "klD", "klDk"))
        # opaque atoms: the Bessel factor, the (r/L0)^(5/6) factor, the (L0/r0)^(5/3) amplitude
        K = sympy.Symbol("K", positive=True)          # kv(5/6, 2 pi r / L0)
        rs, r0s, L0s = sympy.Symbol("r", positive=True), sympy.Symbol("r0", positive=True), sympy.Symbol("L0", positive=True)

        def atom_kv(e):
            if z3.is_app(e) and e.decl().name() == "kv":
                return K
            return None
        S = lambda t: sympy.simplify(constfold.to_sympy(z3.simplify(t), [atom_kv]))
        sD, sDk, sC, sKD, sKDk = S(D), S(Dk), S(C), S(klD), S(klDk)
        # the Bessel argument is the same 2 pi r / L0 in every copy
        args = set()
        for t in (D, C, klD):
            stack = [t]
            while stack:
                x = stack.pop()
                if z3.is_app(x) and x.decl().name() == "kv":
                    args.add(z3.simplify(x.arg(1)).sexpr() + "|" + z3.simplify(x.arg(0)).sexpr())
                else:
                    stack.extend(x.children())
        goals.append(("every closed form uses the same Bessel term kv(5/6, 2 pi r/L0)", z3.BoolVal(len(args) == 1)))
        chk.samples.append({"structure_function_vk": str(sD), "phase_covariance": str(sC), "kv-arguments": sorted(args)})
        # (1) copies agree
        goals.append(("KL copy stf_vonKarman(r, L0) == structure_function_vk(r, 1, L0) (exact)", z3.BoolVal(sympy.simplify(sKD - sD.subs(r0s, 1)) == 0)))
        ok_exp = sympy.simplify(sympy.diff(sympy.log(sKDk), rs) * rs - sympy.Rational(5, 3)) == 0 and sympy.simplify(sympy.diff(sympy.log(sDk), rs) * rs - sympy.Rational(5, 3)) == 0
        goals.append(("Kolmogorov copies: exponent 5/3 (exact)", z3.BoolVal(bool(ok_exp))))
        okc, ratio = constfold.within(sKDk.subs(rs, 1), sDk.subs({rs: 1, r0s: 1}), TOL)
        goals.append(("Kolmogorov copies: constants 6.8839 vs 6.88 within %s [ratio %s]" % (TOL, str(ratio)[:12]), z3.BoolVal(bool(okc))))
        # (2) D(r) = 2 (C(0+) - C(r)):  both are affine in K;  C(0+) from x^nu K_nu(x) -> 2^(nu-1) Gamma(nu)
        dD = sympy.Poly(sympy.expand(sD), K)
        dC = sympy.Poly(sympy.expand(sC), K)
        goals.append(("D and C are affine in the Bessel term", z3.BoolVal(dD.degree() == 1 and dC.degree() == 1 and dC.coeff_monomial(1) == 0)))
        if dD.degree() == 1 and dC.degree() == 1:
            d0, d1 = dD.coeff_monomial(1), dD.coeff_monomial(K)
            c1 = dC.coeff_monomial(K)
            x = 2 * sympy.pi * rs / L0s
            nu = sympy.Rational(5, 6)
            C0 = sympy.simplify(c1 / x ** nu * 2 ** (nu - 1) * sympy.gamma(nu))      # lim_{r->0} C(r)  (A-MATH limit)
            goals.append(("C(0+) does not depend on r (the x^(5/6) factors match the Bessel argument)", z3.BoolVal(sympy.simplify(sympy.diff(C0, rs)) == 0)))
            sub = {rs: sympy.Rational(7, 10), r0s: sympy.Rational(3, 20), L0s: sympy.Rational(23, 2)}
            ok_a, ra = constfold.within(d0.subs(sub), (2 * C0).subs(sub), TOL)
            ok_b, rb = constfold.within(d1.subs(sub), (-2 * c1).subs(sub), TOL)
            goals.append(("D(r) = 2(C(0+) - C(r)): saturation terms agree within %s [ratio %s]" % (TOL, str(ra)[:12]), z3.BoolVal(bool(ok_a))))
            goals.append(("D(r) = 2(C(0+) - C(r)): Bessel terms agree within %s [ratio %s]" % (TOL, str(rb)[:12]), z3.BoolVal(bool(ok_b))))
            # the ratios above must not depend on the sample point: the r, r0, L0 dependence of both sides is identical (exact)
            goals.append(("saturation term has the same (L0/r0)^(5/3) dependence on both sides (exact)", z3.BoolVal(sympy.simplify(d0 / (2 * C0) - (d0 / (2 * C0)).subs(sub)) == 0)))
            goals.append(("Bessel term has the same r, r0, L0 dependence on both sides (exact)", z3.BoolVal(sympy.simplify(d1 / (-2 * c1) - (d1 / (-2 * c1)).subs(sub)) == 0)))
            # (3) scaling r0^(-5/3), exact
            kk = sympy.Symbol("kk", positive=True)
            goals.append(("D scales as r0^(-5/3) (exact)", z3.BoolVal(sympy.simplify(sD.subs(r0s, kk * r0s) / sD - kk ** sympy.Rational(-5, 3)) == 0)))
            goals.append(("C scales as r0^(-5/3) (exact)", z3.BoolVal(sympy.simplify(sC.subs(r0s, kk * r0s) / sC - kk ** sympy.Rational(-5, 3)) == 0)))
            # (4) saturation at twice the variance 0.0863 (L0/r0)^(5/3)
            var = sympy.Rational(863, 10000) * (L0s / r0s) ** sympy.Rational(5, 3)
            ok_v, rv = constfold.within(C0.subs(sub), var.subs(sub), TOL)
            ok_s, rsat = constfold.within(d0.subs(sub), (2 * var).subs(sub), TOL)
            goals.append(("variance C(0+) = 0.0863 (L0/r0)^(5/3) within %s [ratio %s]" % (TOL, str(rv)[:12]), z3.BoolVal(bool(ok_v))))
            goals.append(("D saturates at twice the variance within %s [ratio %s]" % (TOL, str(rsat)[:12]), z3.BoolVal(bool(ok_s))))
            # small-r behaviour (A-MATH): 1 - 2 pi^(5/6)(r/L0)^(5/6)/Gamma(5/6) * K -> 0 as r -> 0 :  coefficient identity, exact
            lim = sympy.simplify(d0 + d1 / x ** nu * 2 ** (nu - 1) * sympy.gamma(nu))
            goals.append(("D(0+) = 0: the constant and the Bessel coefficient cancel in the limit (exact identity of the constants)", z3.BoolVal(sympy.simplify(lim) == 0)))
        return goals
    verify(chk, "closed-forms", SC + ":structure_function_vk,structure_function_kolmogorov;" + TURB + ":phase_covariance;" + KL + ":stf_vonKarman,stf_kolmogorov", run_all, post_all,
           clause="consistency", replay=lambda m: {}, encoding="symbolic execution to closed forms; coefficients compared exactly (sympy) or within tolerance by 40-digit enclosures (mpmath)", frame=False)

    # elementwise: applied to an array of separations (any rank-2 shape, symmetric or not) each closed form returns, entry by entry, what the
    # scalar call returns for that separation
    n1, n2 = z3.Ints("n1 n2")
    ia, ib = z3.Ints("ia ib")
    for fname_, modp, extra in (("phase_covariance", TURB, lambda: [r0, L0]), ("structure_function_vk", SC, lambda: [r0, L0]), ("structure_function_kolmogorov", SC, lambda: [r0]),
                                ("stf_vonKarman", KL, lambda: [L0]), ("stf_kolmogorov", KL, lambda: [])):
        def run_el(it, fname_=fname_, modp=modp, extra=extra):
            from aovc.arrays import sym_arr
            it.ctx.assume(z3.And(n1 >= 1, n2 >= 1, r0 > 0, L0 > 0))
            R = sym_arr("seps", [n1, n2], prov={"r"})
            it.ctx.assume(zr(R.get([ia, ib])) > 0)
            out = it.call_repo(modp, fname_, [R] + extra())
            one = it.call_repo(modp, fname_, [R.get([ia, ib])] + extra())
            return it, out, one

        def post_el(pr):
            from aovc.arrays import Arr
            it, out, one = pr.value
            ok = isinstance(out, Arr) and out.ndim == 2
            goals = [("array in, array of the same rank out", z3.BoolVal(bool(ok)))]
            if not ok:
                return goals
            goals.append(("shape preserved", z3.And(zi(out.shape[0]) == n1, zi(out.shape[1]) == n2)))
            goals.append(("out[a, b] = f(separations[a, b])", z3.Implies(z3.And(ia >= 0, ia < n1, ib >= 0, ib < n2), zr(out.get([ia, ib])) == zr(one))))
            return goals
        verify(chk, "elementwise[%s]" % fname_, modp + ":" + fname_, run_el, post_el, clause="consistency", replay=lambda m: {}, encoding="pointwise (array call against the scalar call on one symbolic entry)", frame=False)
