import sys, os
sys.path.insert(0, os.path.dirname(os.path.abspath(__file__)))
import numpy
from _harness import main
from aotools import opticalpropagation as OP


def bad(msg, obs=None, exp=None, **kw):
    d = {"message": msg, "observed": obs, "expected": exp}
    d.update(kw)
    return d


def field(N, seed):
    rng = numpy.random.default_rng(seed)
    return rng.normal(size=(N, N)) + 1j * rng.normal(size=(N, N))


def call(fn, U, p):
    if fn == "angularSpectrum":
        return OP.angularSpectrum(U, p["wvl"], p["d1"], p["d2"], p["z"]), p["d2"]
    if fn == "oneStepFresnel":
        return OP.oneStepFresnel(U, p["wvl"], p["d1"], p["z"]), p["wvl"] * p["z"] / (U.shape[0] * p["d1"])
    if fn == "twoStepFresnel":
        return OP.twoStepFresnel(U, p["wvl"], p["d1"], p["d2"], p["z"]), p["d2"]
    if fn == "lensAgainst":
        return OP.lensAgainst(U, p["wvl"], p["d1"], p["f"]), p["wvl"] * p["f"] / (U.shape[0] * p["d1"])


def mk(fn):
    def chk(inp):
        p = {"N": 8, "wvl": 5e-7, "d1": 1e-3, "d2": 1.5e-3, "z": 3.0, "f": 2.0}
        p.update({k: v for k, v in (inp or {}).items() if v is not None and not isinstance(v, str)})
        N = int(p["N"])
        if N < 2 or N % 2 or N > 256 or p["z"] == 0 or p["f"] == 0 or min(p["wvl"], p["d1"], p["d2"]) <= 0:
            return None
        as_np = bool((inp or {}).get("numpy_scalars"))
        for k in ("wvl", "d1", "d2", "z", "f"):
            p[k] = numpy.float64(p[k]) if as_np else float(p[k])
        U1, U2 = field(N, 1), field(N, 2)
        keep1, keep2 = U1.copy(), U2.copy()
        o1, do = call(fn, U1, p)
        o2, _ = call(fn, U2, p)
        pin, pout = (abs(keep1) ** 2).sum() * p["d1"] ** 2, (abs(o1) ** 2).sum() * do ** 2
        if not abs(pin - pout) <= 1e-9 * pin:
            return bad("%s does not conserve power: sum|Uout|^2 dout^2 != sum|Uin|^2 din^2" % fn, float(pout), float(pin))
        a, b = 0.7 - 0.2j, -1.3 + 2j
        o12, _ = call(fn, a * U1 + b * U2, p)
        if not abs(o12 - (a * o1 + b * o2)).max() <= 1e-9 * abs(o12).max():
            return bad("%s is not linear: P(a U1 + b U2) != a P(U1) + b P(U2) (inputs re-used after the first calls)" % fn, float(abs(o12 - (a * o1 + b * o2)).max()), 0.0)
        # linearity at the ends of the range: the zero field maps to the zero field, and a field scaled by a very small / very large constant
        # maps to the scaled output (a linear map never looks at the size of its input)
        oz, _ = call(fn, numpy.zeros((N, N), dtype=complex), p)
        if not (numpy.all(numpy.isfinite(oz)) and abs(oz).max() == 0):
            return bad("%s is not linear: the zero field does not propagate to the zero field" % fn, "non-finite" if not numpy.all(numpy.isfinite(oz)) else float(abs(oz).max()), 0.0)
        for c in (1e-170, 1e+150, -3e-120j):
            oc, _ = call(fn, c * keep1, p)
            if not (numpy.all(numpy.isfinite(oc)) and abs(oc / c - o1).max() <= 1e-9 * abs(o1).max()):
                return bad("%s is not linear: P(c U) != c P(U) for c = %r" % (fn, c), float(abs(oc / c - o1).max()) if numpy.all(numpy.isfinite(oc)) else "non-finite", 0.0)
        mask_f = (abs(keep1) > 0.8).astype(float) * (1 + numpy.arange(N)[:, None] / N)
        ref_m, _ = call(fn, mask_f.astype(complex), p)
        for dt in ("float64", "float32", "int64", "uint8", "bool"):
            src = (mask_f > 0) if dt == "bool" else (numpy.round(mask_f * 3) if dt in ("int64", "uint8") else mask_f)
            om, _ = call(fn, src.astype(dt), p)
            want_m, _ = call(fn, src.astype(dt).astype(complex), p)
            if not (numpy.iscomplexobj(om) and abs(om - want_m).max() <= 1e-5 * max(abs(want_m).max(), 1e-300)):
                return bad("%s of a %s field (an aperture mask with flat phase) is not the propagation of the same field held as complex" % (fn, dt),
                           "real-valued output" if not numpy.iscomplexobj(om) else float(abs(om - want_m).max() / max(abs(want_m).max(), 1e-300)), 0.0)
        if not (numpy.array_equal(U1, keep1) and numpy.array_equal(U2, keep2)):
            return bad("%s modified its input field in place" % fn)
    return chk


def fam(tier, seed):
    for N in (2, 4, 8, 16):
        for z in (3.0, -3.0, 150., -0.4, 1e-9, -1e-9):
            for d2 in (1e-3, 1.5e-3, 0.5e-3):
                yield {"N": N, "wvl": 6e-7, "d1": 1e-3, "d2": d2, "z": z, "f": z}
                if N == 8:
                    yield {"N": N, "wvl": 6e-7, "d1": 1e-3, "d2": d2, "z": z, "f": z, "numpy_scalars": True}


CLAUSES = {"power." + fn: (mk(fn), fam) for fn in ("angularSpectrum", "oneStepFresnel", "twoStepFresnel", "lensAgainst")}
if __name__ == "__main__":
    main(CLAUSES)
