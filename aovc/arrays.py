"""Functional arrays with live views, symbolic shapes, provenance for frame clauses."""
from fractions import Fraction
import z3
from .values import (Unsupported, DefinednessError, is_conc, is_z3, z, zi, zr, simp, ite, cmp, b_and, b_or, b_not,
                     r_add, r_sub, r_mul, r_div, fresh_name, is_scalar, Cx, Polar, _num)


def dim_eq(a, b):
    """syntactic equality of two dimension terms (None = unknown)"""
    if is_conc(a) and is_conc(b):
        return _num(a) == _num(b)
    A, B = simp(a), simp(b)
    if is_conc(A) and is_conc(B):
        return A == B
    if is_z3(A) and is_z3(B) and A.eq(B):
        return True
    return None


class Arr:
    """n-d array: shape (list of int / z3 Int) and element function idx(list of Int terms) -> scalar.

    A root array owns a mutable element function `_f`; a view holds its root and the index maps.
    `prov` (on roots) is the set of parameter names whose memory this array is (frame clauses).
    """

    def __init__(self, shape, f=None, dtype="float", root=None, tob=None, fromb=None, prov=frozenset(), label=None):
        self.shape = [simp(s) for s in shape]
        self.dtype = dtype
        self.root = root
        self.tob = tob
        self.fromb = fromb
        self._f = f
        self._prov = frozenset(prov)
        self.label = label or fresh_name("arr")
        self.writes = 0          # number of writes into a root (to detect stale reasoning)
        self.np_dtype = None     # exact NumPy dtype name when it matters (complex64 vs complex128 ...)

    # -- structure
    @property
    def ndim(self):
        return len(self.shape)

    def rootarr(self):
        return self.root if self.root is not None else self

    @property
    def prov(self):
        return self.rootarr()._prov

    def size(self):
        s = 1
        for d in self.shape:
            s = r_mul(s, d)
        return s

    # -- element access
    def get(self, idx):
        idx = list(idx)
        if len(idx) != len(self.shape):
            raise Unsupported("index rank %d on array of rank %d" % (len(idx), len(self.shape)))
        if self.root is None:
            return self._f(idx)
        return self.root._f(self.tob(idx))

    def snapshot(self):
        """element function frozen at the current state of the root"""
        if self.root is None:
            f0 = self._f
            return f0
        f0 = self.root._f
        tob = self.tob
        return lambda idx: f0(tob(list(idx)))

    def frozen(self, dtype=None, shape=None):
        """a fresh root array with the current contents (a copy)"""
        return Arr(shape or list(self.shape), self.snapshot(), dtype or self.dtype)

    def in_bounds(self, idx):
        cs = []
        for i, d in zip(idx, self.shape):
            cs.append(cmp(">=", i, 0))
            cs.append(cmp("<", i, d))
        return b_and(*cs)

    # -- mutation (always lands in the root)
    def write(self, cond_fn, val_fn, ctx=None, what="store"):
        """for every idx of *this* array with cond_fn(idx): element := val_fn(idx)"""
        root = self.rootarr()
        if ctx is not None:
            ctx.on_array_write(root, what)
        old = root._f
        root.writes += 1
        dt = root.dtype
        if self.root is None:
            def newf(idx, old=old, cond_fn=cond_fn, val_fn=val_fn, dt=dt):
                c = cond_fn(idx)
                if c is False:
                    return old(idx)
                return ite(c, cast_elem(val_fn(idx), dt), old(idx))
        else:
            fromb = self.fromb

            def newf(bidx, old=old, cond_fn=cond_fn, val_fn=val_fn, fromb=fromb, dt=dt):
                c0, idx = fromb(list(bidx))
                if c0 is False:
                    return old(bidx)
                c = b_and(c0, cond_fn(idx))
                if c is False:
                    return old(bidx)
                return ite(c, cast_elem(val_fn(idx), dt), old(bidx))
        root._f = memo_fn(newf)

    # -- views
    def view(self, shape, tob, fromb, dtype=None):
        """view of this array: tob maps view idx -> idx of self; fromb maps idx of self -> (cond, view idx)"""
        if self.root is None:
            return Arr(shape, None, dtype or self.dtype, root=self, tob=tob, fromb=fromb)
        t0, f0 = self.tob, self.fromb

        def tob2(idx):
            return t0(tob(idx))

        def fromb2(bidx):
            c0, i0 = f0(bidx)
            c1, i1 = fromb(i0)
            return b_and(c0, c1), i1
        return Arr(shape, None, dtype or self.dtype, root=self.root, tob=tob2, fromb=fromb2)


def memo_fn(f):
    """element functions are pure: memoise on the index terms (repeated in-place updates otherwise re-evaluate the
    previous contents exponentially often)"""
    cache = {}

    def g(idx):
        try:
            key = tuple((i.get_id() if is_z3(i) else ("c", i)) for i in idx)
        except Exception:
            return f(idx)
        hit = cache.get(key)
        if hit is None:
            hit = (list(idx), f(idx))      # keep the index terms alive so that ids are not reused
            cache[key] = hit
        return hit[1]
    return g


def cast_elem(v, dtype):
    from .values import r_trunc
    if dtype == "int":
        if isinstance(v, (Cx, Polar)):
            raise Unsupported("complex stored into int array")
        if isinstance(v, bool):
            return int(v)
        if is_z3(v) and z3.is_bool(v):
            return z3.If(v, z3.IntVal(1), z3.IntVal(0))
        if is_conc(v) and Fraction(_num(v)).denominator == 1:
            return int(v)
        if is_z3(v) and z3.is_int(v):
            return v
        return r_trunc(v)
    if dtype == "float":
        if isinstance(v, (Cx, Polar)):
            raise Unsupported("complex stored into float array (numpy would discard the imaginary part with a warning)")
        if isinstance(v, bool):
            return int(v)
        if is_z3(v) and z3.is_bool(v):
            return z3.If(v, z3.RealVal(1), z3.RealVal(0))
    return v


def const_arr(shape, value, dtype="float"):
    return Arr(shape, lambda idx, v=value: v, dtype)


def sym_arr(name, shape, dtype="float", prov=frozenset()):
    """input array: uninterpreted function Int^n -> Real (or a pair for complex)"""
    n = len(shape)
    if dtype == "complex":
        fr = z3.Function(name + ".re", *([z3.IntSort()] * n + [z3.RealSort()]))
        fi = z3.Function(name + ".im", *([z3.IntSort()] * n + [z3.RealSort()]))
        f = lambda idx: Cx(fr(*[zi(i) for i in idx]), fi(*[zi(i) for i in idx]))
    elif dtype == "int":
        fn = z3.Function(name, *([z3.IntSort()] * n + [z3.IntSort()]))
        f = lambda idx: fn(*[zi(i) for i in idx])
    elif dtype == "bool":
        fn = z3.Function(name, *([z3.IntSort()] * n + [z3.BoolSort()]))
        f = lambda idx: fn(*[zi(i) for i in idx])
    else:
        fn = z3.Function(name, *([z3.IntSort()] * n + [z3.RealSort()]))
        f = lambda idx: fn(*[zi(i) for i in idx])
    if n == 0:
        raise Unsupported("0-d symbolic array")
    a = Arr(shape, f, dtype, prov=prov, label=name)
    return a


def broadcast_shapes(ctx, sa, sb):
    """numpy broadcasting of two shapes; returns (shape, mapA, mapB) where map(idx)->operand idx"""
    n = max(len(sa), len(sb))
    pa = [None] * (n - len(sa)) + list(sa)
    pb = [None] * (n - len(sb)) + list(sb)
    shape = []
    selA, selB = [], []
    for k in range(n):
        da, db = pa[k], pb[k]
        if da is None:
            shape.append(db); selA.append(None); selB.append("i")
        elif db is None:
            shape.append(da); selA.append("i"); selB.append(None)
        else:
            e = dim_eq(da, db)
            if e is True:
                shape.append(da); selA.append("i"); selB.append("i")
            elif is_conc(da) and _num(da) == 1:
                shape.append(db); selA.append(0); selB.append("i")
            elif is_conc(db) and _num(db) == 1:
                shape.append(da); selA.append("i"); selB.append(0)
            else:
                if e is False:
                    ctx.definedness(False, "operands could not be broadcast together: %s vs %s" % (sa, sb))
                    raise DefinednessError("shape mismatch %s vs %s" % (sa, sb))
                # symbolic dims: numpy requires equality (or one of them 1); we require equality
                ctx.definedness(cmp("==", da, db), "broadcast: dimensions equal (%s == %s)" % (da, db))
                shape.append(da); selA.append("i"); selB.append("i")

    def mk(sel):
        def m(idx):
            out = []
            for k, s in enumerate(sel):
                if s is None:
                    continue
                out.append(idx[k] if s == "i" else 0)
            return out
        return m
    return shape, mk(selA), mk(selB)
