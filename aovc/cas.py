"""Exact rational-function identities by computer algebra (sympy): a second back end for obligations of the form
e == 0 where e is built from + - * / of real symbols, integer symbols, rational constants and uninterpreted applications.
`is_zero(e)` returns True when e cancels to 0 identically as a rational function (valid wherever the denominators are
non-zero - those conditions are separate definedness obligations), None otherwise.  Never used to refute."""
from fractions import Fraction
import z3


class NoCAS(Exception):
    pass


def to_sympy(e, cache, syms):
    import sympy
    key = e.get_id()
    if key in cache:
        return cache[key]
    r = None
    if z3.is_int_value(e):
        r = sympy.Integer(e.as_long())
    elif z3.is_rational_value(e):
        r = sympy.Rational(e.numerator_as_long(), e.denominator_as_long())
    elif z3.is_const(e) and e.decl().kind() == z3.Z3_OP_UNINTERPRETED:
        name = str(e)
        if name not in syms:
            syms[name] = sympy.Symbol("v%d" % len(syms), real=True)
        r = syms[name]
    elif z3.is_app(e) and e.decl().kind() in (z3.Z3_OP_IDIV, z3.Z3_OP_MOD, z3.Z3_OP_REM, z3.Z3_OP_TO_INT):
        # integer division / remainder / floor: an opaque atom (an identity that holds for every value of the atom holds for its actual value)
        name = "atom:" + e.sexpr()
        if name not in syms:
            syms[name] = sympy.Symbol("v%d" % len(syms), real=True)
        r = syms[name]
    elif z3.is_app(e):
        k = e.decl().kind()
        ch = [to_sympy(c, cache, syms) for c in e.children()] if k not in (z3.Z3_OP_ITE,) else None
        if k == z3.Z3_OP_ADD:
            r = sympy.Add(*ch)
        elif k == z3.Z3_OP_MUL:
            r = sympy.Mul(*ch)
        elif k == z3.Z3_OP_SUB:
            r = ch[0] - sympy.Add(*ch[1:])
        elif k == z3.Z3_OP_UMINUS:
            r = -ch[0]
        elif k == z3.Z3_OP_DIV:
            r = ch[0] / ch[1]
        elif k == z3.Z3_OP_TO_REAL:
            r = ch[0]
        elif k == z3.Z3_OP_POWER:
            if ch[1].is_Integer:
                r = ch[0] ** ch[1]
            else:
                raise NoCAS("non-integer power")
        elif k == z3.Z3_OP_UNINTERPRETED and e.decl().name() in ("sqrt", "exp", "cos", "sin") and len(ch) == 1:
            # the uninterpreted symbol stands for this function: its exact algebraic laws may be used by the CAS (never to refute)
            r = getattr(sympy, e.decl().name())(ch[0])
        elif k == z3.Z3_OP_UNINTERPRETED:
            name = e.decl().name() + "/%d" % len(ch)
            if name not in syms:
                syms[name] = sympy.Function("f%d" % len(syms))
            r = syms[name](*ch)
        else:
            raise NoCAS("operator %s" % e.decl().name())
    if r is None:
        raise NoCAS("term")
    cache[key] = r
    return r


def is_zero(e, max_size=60000):
    try:
        import sympy
        if not z3.is_expr(e):
            return True if e == 0 else None
        e = z3.simplify(e)
        if z3.is_rational_value(e) or z3.is_int_value(e):
            return True if e.numerator_as_long() == 0 else None
        if len(e.sexpr()) > max_size:
            return None
        s = to_sympy(e, {}, {})
        # cheap attempt first: deep expansion (also inside the arguments of uninterpreted functions) often cancels term by term
        ex = sympy.expand(s, deep=True)
        if ex == 0:
            return True
        num, den = sympy.fraction(sympy.together(ex))
        num = sympy.expand(num, deep=True)
        return True if num == 0 else None
    except NoCAS:
        return None
    except Exception:
        return None
