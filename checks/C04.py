"""C04 Infinite phase screen rows follow the exact conditional von Karman law."""
import sys, os
sys.path.insert(0, os.path.dirname(os.path.dirname(os.path.abspath(__file__))))
from aovc.check import run_check
from contracts import infscreen, turbstats


def build(chk):
    chk.assumptions_used.update(["A-REAL", "A-NP", "A-MATH", "A-JIT"])
    chk.math_lemmas.append("a Schur complement Cov_xx - Cov_xz Cov_zz^-1 Cov_zx of a positive semi-definite matrix is positive semi-definite (so its svd has the symmetric form used for B)")
    infscreen.c04_obligations(chk)
    with chk.borrow("C08"):
        turbstats.obligations(chk)           # the covariance the matrices are built from: phase_covariance is the von Karman closed form for every separation
        chk.bounded_native("phase_covariance agrees numerically with the other closed forms (incl. separations beyond the outer scale)", "consistency", "r/L0 from 1e-4 to 30", "aotools/turbulence/turb.py:phase_covariance")
    with chk.borrow("C05"):
        infscreen.c05_obligations(chk)       # add_row: the new row is drawn from the screen before the shift and becomes row 0
    chk.bounded_native("end to end: black-box A, B of constructed screens satisfy the identities at the true pixel separations (both variants, sizes that are not 2^n+1, Fried constant shift)", "AB-identities",
                       "5 constructions (sizes 8..20), tolerance 2e-5 Cov(0)", "aotools/turbulence/infinitephasescreen.py:PhaseScreenVonKarman,PhaseScreenKolmogorov")
    chk.bounded_native("ill-conditioned parameters are refused (or still satisfy the identities)", "refuse", "2 constructions", "aotools/turbulence/infinitephasescreen.py:PhaseScreen.makeAMatrix")
    chk.notes.append("Fried stencil (base-class set_stencil_coords: while True / break, linspace rounding) is outside the executor's subset: its coordinates are covered only by the bounded end-to-end native check")
    chk.not_decided.append("Cholesky succeeds / Cov_zz positive definite; float32 truncation of separations in phase_covariance; stationarity of the joint statistics (consequence, A-MATH)")


if __name__ == "__main__":
    sys.exit(run_check("C04", "Infinite phase screen rows follow the exact conditional von Karman law", build))
