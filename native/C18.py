import sys, os
sys.path.insert(0, os.path.dirname(os.path.abspath(__file__)))
import numpy
from _harness import main
import aotools
from aotools.turbulence import profile_compression as PC


def bad(msg, obs=None, exp=None):
    return {"message": msg, "observed": obs, "expected": exp}


def profiles(seed):
    rng = numpy.random.default_rng(seed)
    yield "regular", numpy.arange(0, 25000, 250.), numpy.full(100, 1e-15), numpy.full(100, 10.)
    yield "witness-15000", numpy.array([0, 15000 / 3, 15000 / 2, 0.9 * 15000, 15000.]), numpy.ones(5), numpy.array([5., 8., 3., 20., 30.])
    yield "irregular", numpy.array([0., 100., 200., 9000., 10000.]), numpy.array([1., 2., 3., 4., 5.]), numpy.array([4., 6., 8., 30., 25.])
    h = numpy.sort(rng.uniform(0, 20000, 40)); h[0] = 0
    yield "random", h, rng.uniform(0, 1, 40) * 1e-13, rng.uniform(2, 40, 40)
    yield "geometric", 10. * 1.15 ** numpy.arange(40), rng.uniform(0.1, 1, 40), rng.uniform(2, 40, 40)
    yield "integer-grid", numpy.arange(0, 25000, 250), numpy.full(100, 1e-15), numpy.arange(5, 105)
    hz = numpy.arange(10) * 2000.; pz = numpy.zeros(10); pz[[1, 4, 5, 8]] = [3., 1., 2., 4.]
    yield "mostly-empty bins", hz, pz, numpy.full(10, 10.)
    yield "si-units", numpy.linspace(0, 24000, 49), 4e-13 * numpy.exp(-numpy.linspace(0, 24000, 49) / 1500.) / 30, numpy.full(49, 12.)


def chk_equivalent(inp):
    for name, h, p, w in profiles(1):
        for L in (1, 2, 3, 5, 7, 10):
            if L >= len(h) and L != 1:
                continue
            for wind in (False, True):
                out = PC.equivalent_layers(h.copy(), p.copy(), L, w=w.copy()) if wind else PC.equivalent_layers(h.copy(), p.copy(), L)
                h_el, c_el = out[0], out[1]
                if len(h_el) != L or len(c_el) != L:
                    return bad("equivalent_layers(%s, L=%d): not exactly L layers" % (name, L), [len(h_el), len(c_el)], L)
                if numpy.any(c_el < 0):
                    return bad("equivalent_layers(%s, L=%d): negative strength" % (name, L))
                if abs(c_el.sum() - p.sum()) > 1e-12 * p.sum():
                    return bad("equivalent_layers(%s, L=%d): total Cn2 not conserved (a layer was dropped)" % (name, L), float(c_el.sum()), float(p.sum()))
                m_in, m_out = (p * h ** (5. / 3)).sum(), (c_el * h_el ** (5. / 3)).sum()
                if not abs(m_out - m_in) <= 1e-9 * max(m_in, 1e-300):
                    return bad("equivalent_layers(%s, L=%d): 5/3 height moment (isoplanatic angle) not conserved" % (name, L), float(m_out), float(m_in))
                if wind:
                    w_el = out[2]
                    v_in, v_out = (p * w ** (5. / 3)).sum(), (c_el * w_el ** (5. / 3)).sum()
                    if not abs(v_out - v_in) <= 1e-9 * v_in:
                        return bad("equivalent_layers(%s, L=%d): 5/3 wind moment (coherence time) not conserved" % (name, L), float(v_out), float(v_in))


def cost(groups, h, p):
    tot = 0.
    for g in groups:
        tot += min((p[g] * abs(h[g] - h[j])).sum() for j in g)
    return tot


def chk_grouping(inp):
    # more target layers than turbulent bins (the other bins have zero strength): still exactly L layers, nothing dropped
    hz = numpy.arange(10) * 2000.; pz = numpy.zeros(10); pz[[1, 4, 5, 8]] = [3., 1., 2., 4.]
    for L in (2, 4, 5, 7, 9):
        try:
            hL, cL = PC.optimal_grouping(1, L, hz.copy(), pz.copy())
        except Exception as ex:
            return bad("optimal_grouping(10 bins of which 4 turbulent, L=%d) raises %s: %s" % (L, type(ex).__name__, str(ex)[:80]), type(ex).__name__, "%d layers" % L)
        if len(hL) != L or len(cL) != L or abs(numpy.sum(cL) - pz.sum()) > 1e-12 * pz.sum() or numpy.any(numpy.asarray(cL) < 0):
            return bad("optimal_grouping(10 bins of which 4 turbulent, L=%d): not exactly L non-negative layers conserving the total" % L, [len(hL), float(numpy.sum(cL))], [L, float(pz.sum())])
    hu = numpy.array([0, 3400, 3600, 13900, 14800]); pu = numpy.array([9., 9., 8., 3., 1.])
    hu2 = numpy.array([0, 100, 200, 5000, 5100, 5200, 12000, 12100]); pu2 = numpy.array([5., 1., 1., 1., 5., 1., 1., 5.])
    for hh, pp, L in ((hu, pu, 2), (hu2, pu2, 3)):
        ref = PC.optimal_grouping(0, L, hh.astype(float), pp)
        for dt in ("uint16", "uint32", "uint64", "int32", "int64", "float32"):
            got = PC.optimal_grouping(0, L, hh.astype(dt), pp)
            if not (numpy.array_equal(numpy.asarray(got[0], dtype=float), numpy.asarray(ref[0], dtype=float)) and numpy.allclose(got[1], ref[1])):
                return bad("optimal_grouping with %s heights %s (L=%d) does not return the grouping it returns for the same heights as floats" % (dt, hh.tolist(), L),
                           [numpy.asarray(got[0], dtype=float).tolist(), numpy.asarray(got[1]).tolist()], [numpy.asarray(ref[0]).tolist(), numpy.asarray(ref[1]).tolist()])
    for name, h, p, w in profiles(2):
        N = len(h)
        for L in (1, 2, 4, 8):
            if L >= N:
                continue
            for state in (0, 1, 12345):
                numpy.random.seed(state)
                hL, cL = PC.optimal_grouping(3, L, h.copy(), p.copy())
                if len(hL) != L or len(cL) != L:
                    return bad("optimal_grouping(%s, L=%d): not exactly L layers" % (name, L), [len(hL), len(cL)], L)
                if numpy.any(cL < 0) or abs(cL.sum() - p.sum()) > 1e-12 * p.sum():
                    return bad("optimal_grouping(%s, L=%d): total Cn2 not conserved / negative strength" % (name, L), float(cL.sum()), float(p.sum()))
                if not all(x in h for x in hL) or numpy.any(numpy.diff(hL) <= 0):
                    return bad("optimal_grouping(%s, L=%d): heights are not input heights in increasing order" % (name, L), numpy.asarray(hL).tolist())
                # recover the contiguous groups from the cumulative strengths and compare the cost with the equal split
                cum = numpy.concatenate([[0], numpy.cumsum(p)])
                edges = [0]
                for c in numpy.cumsum(cL)[:-1]:
                    edges.append(int(numpy.argmin(abs(cum - c))))
                edges.append(N)
                groups = [numpy.arange(edges[k], edges[k + 1]) for k in range(L)]
                # the equal split the method starts from: splits linspace(0, N, L+1, dtype=int)[1:-1], group k = (split[k-1], split[k]]
                sp = list(numpy.linspace(0, N, L + 1, dtype=int)[1:-1])
                b = [-1] + sp + [N - 1]
                eq_groups = [numpy.arange(b[k] + 1, b[k + 1] + 1) for k in range(L)]
                if all(len(g) for g in groups) and all(len(g) for g in eq_groups):
                    # the cost of the RETURNED profile: every input layer moved to the returned height of its group
                    got = sum((p[g] * abs(h[g] - hL[k])).sum() for k, g in enumerate(groups))
                    if got > cost(eq_groups, h, p) * (1 + 1e-9):
                        return bad("optimal_grouping(%s, L=%d, RNG state %d): the returned heights / strengths cost more than the equal split the search starts from" % (name, L, state),
                                   float(got), float(cost(eq_groups, h, p)))
                    if cost(groups, h, p) > cost(eq_groups, h, p) * (1 + 1e-9):
                        return bad("optimal_grouping(%s, L=%d, RNG state %d): cost worse than the equal split" % (name, L, state), float(cost(groups, h, p)), float(cost(eq_groups, h, p)))


def chk_gctm(inp):
    h = numpy.arange(0, 25000, 250.)
    p = numpy.ones(len(h)) * 100e-17 * (1 + numpy.sin(h / 3000.) ** 2)
    for L in (2, 3, 5):
        hL, cL = PC.GCTM(h, p, L)
        if len(hL) != L or len(cL) != L or numpy.any(cL < 0) or numpy.any(hL < 0):
            return bad("GCTM: not L non-negative layers", [len(hL), len(cL)], L)
        m0 = numpy.array([(p / 100e-15 * (h / 1e4) ** k).sum() for k in range(2 * L - 1)])
        m1 = numpy.array([(cL / 100e-15 * (hL / 1e4) ** k).sum() for k in range(2 * L - 1)])
        if numpy.max(abs(m1 - m0) / abs(m0)) > 2e-2:
            return bad("GCTM(L=%d) does not reproduce the first 2L-1 moments to optimiser accuracy" % L, m1.tolist(), m0.tolist())
    # a ground layer at h = 0 alone in the lowest slab (heights on the optimiser's bound), irregular spacing
    profs = [(numpy.array([0., 5000., 6500., 8000., 9500.]), numpy.array([4., 1., 2., 1.5, .5]) * 1e-13),
             (numpy.r_[0., numpy.linspace(8000., 15000., 12)], numpy.r_[5., 0.5 + 0.2 * numpy.sin(numpy.arange(12)) ** 2] * 1e-13),
             (numpy.array([0., 200., 7000., 9000., 12000.]), numpy.array([3., 2., 1., 1., .4]) * 1e-13)]
    profs += [(numpy.linspace(500., 16000., 32), (1.2 + numpy.cos(numpy.arange(32) / 5.)) * 1e-14), (numpy.linspace(2400., 12000., 25), (1. + 0.5 * numpy.sin(numpy.arange(25) / 3.)) * 1e-14)]
    for h, p in profs:
        for L in (2, 3):
            hL, cL = PC.GCTM(h, p, L)
            if len(hL) != L or len(cL) != L or not numpy.all(numpy.isfinite(hL)) or not numpy.all(numpy.isfinite(cL)) or numpy.any(cL < 0) or numpy.any(hL < 0):
                return bad("GCTM: not L finite non-negative layers (ground-layer profile)", [numpy.asarray(hL).tolist(), numpy.asarray(cL).tolist()], L)
            m0 = numpy.array([(p / 1e-13 * (h / 1e4) ** k).sum() for k in range(2 * L - 1)])
            m1 = numpy.array([(cL / 1e-13 * (hL / 1e4) ** k).sum() for k in range(2 * L - 1)])
            if numpy.max(abs(m1 - m0) / abs(m0)) > 1e-2:
                return bad("GCTM(L=%d) does not reproduce the first 2L-1 moments of a profile with a ground layer at h=0 to optimiser accuracy (1e-2)" % L, m1.tolist(), m0.tolist())


one = lambda t, s: [{}]
CLAUSES = {"equivalent": (chk_equivalent, one), "grouping": (chk_grouping, one), "gctm": (chk_gctm, one)}
if __name__ == "__main__":
    main(CLAUSES)
