"""Native side of the checks: runs the REAL code (PYTHONPATH=$AOVC_REPO, /venv/bin/python).

Protocol: JSON on stdin {mode: replay|family, clause, inputs, tier, seed}; last stdout line is JSON
{status: pass|fail|error, evaluations, inputs, observed, expected, message, finding?}.
A clause is a pair (check, family): check(inputs) -> None if the clause holds, else a dict
(observed/expected/message[/finding]); family(tier, seed) yields input dicts (deterministic, bounded).
An exception raised by the real code while a clause is evaluated is a failure of that clause."""
import json, sys, traceback, warnings

warnings.simplefilter("ignore")


def to_jsonable(x):
    import numpy
    if isinstance(x, numpy.ndarray):
        if numpy.iscomplexobj(x):
            return {"__complex_array__": True, "re": x.real.tolist(), "im": x.imag.tolist()}
        return x.tolist()
    if isinstance(x, (numpy.floating, numpy.integer, numpy.bool_)):
        return x.item()
    if isinstance(x, complex):
        return {"__complex__": [x.real, x.imag]}
    if isinstance(x, dict):
        return {str(k): to_jsonable(v) for k, v in x.items()}
    if isinstance(x, (list, tuple)):
        return [to_jsonable(v) for v in x]
    return x


def main(clauses):
    payload = json.loads(sys.stdin.read())
    mode, clause, inputs = payload.get("mode"), payload.get("clause"), payload.get("inputs")
    tier, seed = payload.get("tier", "quick"), int(payload.get("seed", 0) or 0)
    names = [clause] if clause in clauses else [c for c in clauses if clause is None or c.startswith(str(clause))]
    if not names:
        print(json.dumps({"status": "error", "error": "unknown clause %r" % clause}))
        return
    n = 0
    listed = None
    try:
        for name in names:
            check, family = clauses[name]
            cases = [inputs] if mode == "replay" else family(tier, seed)
            for inp in cases:
                n += 1
                try:
                    bad = check(inp)
                except Exception as ex:
                    bad = {"message": "real code raised %s: %s" % (type(ex).__name__, ex), "traceback": traceback.format_exc()[-1500:]}
                if bad:
                    out = {"status": "fail", "clause": name, "evaluations": n, "inputs": to_jsonable(inp)}
                    out.update(to_jsonable(bad))
                    if bad.get("finding") and mode == "family":
                        # a failure tagged as a listed finding does not stop the enumeration: other failures must still surface
                        listed = listed or out
                        continue
                    print(json.dumps(out))
                    return
        if listed is not None:
            listed["evaluations"] = n
            print(json.dumps(listed))
            return
        print(json.dumps({"status": "pass", "evaluations": n, "clause": clause}))
    except Exception as ex:
        print(json.dumps({"status": "error", "error": "%s: %s" % (type(ex).__name__, ex), "traceback": traceback.format_exc()[-1500:]}))
