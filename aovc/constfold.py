"""Closed-form constants: a z3 term built by symbolic execution (with pow / gamma / kv / exp uninterpreted) is turned into a sympy
expression in which (a) designated applications are opaque atoms, (b) every other uninterpreted application of numeric arguments is
replaced by its exact mathematical meaning (gamma, pi, rational powers).  Coefficients of the atoms are then compared with mpmath at 40
digits; a relation `within rel tol t` is accepted only if the enclosure |a/b - 1| <= t holds with a margin of 1e-30 (interval style)."""
from fractions import Fraction
import z3


def to_sympy(e, atoms, cache=None):
    """atoms: list of (predicate(z3 app) -> sympy symbol or None)"""
    import sympy
    cache = {} if cache is None else cache
    key = e.get_id()
    if key in cache:
        return cache[key]
    r = None
    for pred in atoms:
        s = pred(e)
        if s is not None:
            r = s
            break
    if r is None:
        if z3.is_int_value(e):
            r = sympy.Integer(e.as_long())
        elif z3.is_rational_value(e):
            r = sympy.Rational(e.numerator_as_long(), e.denominator_as_long())
        elif z3.is_const(e) and e.decl().kind() == z3.Z3_OP_UNINTERPRETED:
            r = sympy.pi if str(e) == "PI" else sympy.Symbol(str(e), positive=True)
        elif z3.is_app(e):
            k = e.decl().kind()
            ch = [to_sympy(c, atoms, cache) for c in e.children()]
            nm = e.decl().name()
            if k == z3.Z3_OP_ADD:
                r = sympy.Add(*ch)
            elif k == z3.Z3_OP_MUL:
                r = sympy.Mul(*ch)
            elif k == z3.Z3_OP_SUB:
                r = ch[0] - sympy.Add(*ch[1:])
            elif k == z3.Z3_OP_UMINUS:
                r = -ch[0]
            elif k == z3.Z3_OP_DIV:
                r = ch[0] / ch[1]
            elif k == z3.Z3_OP_TO_REAL:
                r = ch[0]
            elif k == z3.Z3_OP_UNINTERPRETED and nm == "pow":
                r = ch[0] ** ch[1]
            elif k == z3.Z3_OP_UNINTERPRETED and nm == "gamma":
                r = sympy.gamma(ch[0])
            elif k == z3.Z3_OP_UNINTERPRETED and nm == "sqrt":
                r = sympy.sqrt(ch[0])
            elif k == z3.Z3_OP_UNINTERPRETED and nm == "exp":
                r = sympy.exp(ch[0])
            elif k == z3.Z3_OP_UNINTERPRETED:
                r = sympy.Function(nm)(*ch)
            else:
                raise ValueError("cannot translate %s" % nm)
    if r is None:
        raise ValueError("cannot translate term")
    cache[key] = r
    return r


def num(x, digits=40):
    import sympy
    return sympy.N(x, digits)


def within(a, b, tol):
    """|a/b - 1| <= tol decided at 40 digits with a 1e-30 margin; returns (ok, ratio)"""
    import sympy
    ratio = sympy.N(a / b, 40)
    if not ratio.is_real:
        return False, ratio
    dev = abs(ratio - 1)
    return bool(dev + sympy.Float("1e-30") <= sympy.Float(str(tol))), ratio
