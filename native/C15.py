import sys, os
sys.path.insert(0, os.path.dirname(os.path.abspath(__file__)))
import numpy
from _harness import main
from aotools.image_processing import centroiders as CN


def bad(msg, obs=None, exp=None):
    return {"message": msg, "observed": obs, "expected": exp}


def close(a, b, tol=1e-9):
    a, b = numpy.asarray(a, float), numpy.asarray(b, float)
    return a.shape == b.shape and numpy.allclose(a, b, rtol=0, atol=tol)


def chk_single(inp):
    # detector frames are unsigned integers: a bright pixel far from the origin is located exactly, whatever the storage type (threshold 0 and > 0)
    for dt in ("uint8", "uint16", "int16", "uint32", "float32"):
        for (H, W, y, x, v) in ((8, 8, 5, 6, 200), (16, 20, 15, 19, 250), (12, 12, 11, 3, 100)):
            img = numpy.zeros((H, W), dtype=dt); img[y, x] = v
            for thr in (0, 0.5):
                c = CN.centre_of_gravity(img.copy(), threshold=thr)
                cs = CN.centre_of_gravity(numpy.stack([img, img]), threshold=thr)
                if not (close(numpy.asarray(c, dtype=float), [x, y]) and close(numpy.asarray(cs, dtype=float), [[x, x], [y, y]])):
                    return bad("centre_of_gravity of a single bright %s pixel (value %d) at (y=%d,x=%d) in a %dx%d frame (threshold %g)" % (dt, v, y, x, H, W, thr), numpy.asarray(c, dtype=float).tolist(), [x, y])
    for (H, W) in ((5, 7), (8, 8), (1, 3)):
        for (y, x) in ((0, 0), (H - 1, W - 1), (H // 2, W // 3)):
            img = numpy.zeros((H, W)); img[y, x] = 2.5
            for thr in (0, 0.5):
                c = CN.centre_of_gravity(img.copy(), threshold=thr)
                if not close(c, [x, y]):
                    return bad("centre_of_gravity of a single bright pixel at (y=%d,x=%d) (threshold %g)" % (y, x, thr), numpy.asarray(c).tolist(), [x, y])
                st = numpy.zeros((3, H, W)); st[:, y, x] = [1., 2., 3.]
                cs = CN.centre_of_gravity(st.copy(), threshold=thr)
                if not close(cs, [[x] * 3, [y] * 3]):
                    return bad("centre_of_gravity (stack) of a single bright pixel", numpy.asarray(cs).tolist(), [[x] * 3, [y] * 3])
            if H * W >= 4:
                bg = numpy.full((H, W), 0.1); bg[y, x] = 5.0
                b = CN.brightest_pixel(bg.copy(), 2.0 / (H * W) + 1e-9)
                if not close(b, [x, y]):
                    return bad("brightest_pixel of a single bright pixel at (y=%d,x=%d)" % (y, x), numpy.asarray(b).tolist(), [x, y])


def chk_stack_scale(inp):
    rng = numpy.random.default_rng(9)
    thrs = (0, 0.1, 0.3, 0.6) if not (inp and inp.get("thresholded") is False) else (0,)
    for (B, H, W) in ((3, 6, 8), (5, 7, 7), (1, 4, 4)):
        st = rng.random((B, H, W)) * rng.uniform(0.2, 3, size=(B, 1, 1))
        for thr in thrs:
            for mthr in (0, 0.2):
                kw = {"threshold": thr, "min_threshold": mthr} if thr else {}
                full = CN.centre_of_gravity(st.copy(), **kw)
                each = numpy.array([CN.centre_of_gravity(f.copy(), **kw) for f in st]).T
                if not numpy.allclose(full, each, rtol=0, atol=1e-9, equal_nan=True):
                    return bad("centre_of_gravity: a stack differs from its frames processed alone (threshold %g, min_threshold %g)" % (thr, mthr), numpy.asarray(full).tolist(), each.tolist())
                kw2 = dict(kw)
                if thr:
                    kw2["min_threshold"] = mthr * 3.7
                sc = CN.centre_of_gravity(3.7 * st, **kw2)
                if not numpy.allclose(full, sc, rtol=0, atol=1e-9, equal_nan=True):
                    return bad("centre_of_gravity changes when the image is multiplied by a positive constant (threshold %g)" % thr, numpy.asarray(sc).tolist(), numpy.asarray(full).tolist())


def chk_brightest(inp):
    rng = numpy.random.default_rng(10)
    # one stack handed to the centroider several times, as a caller would (no defensive copies): each answer is still what the
    # frames give when processed alone (working dtypes float64 / int64, for which no conversion copy is needed, and float32)
    for dt in ("float64", "int64", "float32"):
        base = (rng.random((3, 6, 7)) * 1000 + 50).astype(dt)
        held = base.copy()
        for frac in (0.1, 0.5, 0.25):
            full = CN.brightest_pixel(held, frac)
            each = numpy.array([CN.brightest_pixel(f.copy(), frac) for f in base]).T
            if not close(full, each):
                return bad("brightest_pixel: a %s stack passed again (fraction %g, after earlier calls with the same array) differs from its frames processed alone" % (dt, frac),
                           numpy.asarray(full).tolist(), each.tolist())
    for (B, H, W) in ((3, 6, 8), (4, 5, 5)):
        st = rng.random((B, H, W)) + 0.05
        for frac in (0.1, 0.3, 0.75):
            full = CN.brightest_pixel(st.copy(), frac)
            each = numpy.array([CN.brightest_pixel(f.copy(), frac) for f in st]).T
            if not close(full, each):
                return bad("brightest_pixel: stack differs from frames alone (fraction %g)" % frac, numpy.asarray(full).tolist(), each.tolist())
            if not close(CN.brightest_pixel(2.5 * st, frac), full):
                return bad("brightest_pixel changes under positive scaling")
    # camera frames are unsigned integers: same centroid as the float copy of the frame, single bright pixel located, scaling by an integer harmless
    y, x = numpy.indices((8, 8))
    spot = numpy.round(100 * numpy.exp(-((y - 3) ** 2 + (x - 4) ** 2) / (2 * 1.2 ** 2))) + 5
    for dt in ("uint8", "uint16", "uint32", "int16", "int64", "float32"):
        im = spot.astype(dt)
        for frac in (0.1, 0.25):
            want = CN.brightest_pixel(spot.astype(float), frac)
            for got, what in ((CN.brightest_pixel(im, frac), "frame"), (CN.brightest_pixel(numpy.stack([im, im]), frac)[:, 1], "frame inside a stack"), (CN.brightest_pixel(im * im.dtype.type(2), frac), "frame times 2")):
                if not close(numpy.asarray(got, dtype=float), want):
                    return bad("brightest_pixel of a %s %s (fraction %g) differs from the centroid of the same frame held as float" % (dt, what, frac), numpy.asarray(got, dtype=float).tolist(), numpy.asarray(want).tolist())
    # stacks with more than one leading axis: every frame as if processed alone, with a threshold too
    st4 = rng.random((2, 3, 5, 6)) + 0.05
    sq4 = rng.random((3, 3, 5, 5)) + 0.05
    for stack in (st4, sq4, rng.random((2, 2, 2, 4, 5)) + 0.05):
        for frac in (0.1, 0.4):
            full = CN.brightest_pixel(stack.copy(), frac)
            for lead in numpy.ndindex(*stack.shape[:-2]):
                alone = CN.brightest_pixel(stack[lead].copy(), frac)
                if not close(numpy.asarray(full)[(slice(None),) + lead], alone):
                    return bad("brightest_pixel(fraction %g) of a %s stack: frame %s differs from the frame processed alone" % (frac, list(stack.shape), list(lead)),
                               numpy.asarray(full)[(slice(None),) + lead].tolist(), numpy.asarray(alone).tolist())
    for stack in (st4, sq4):
        for thr, mthr in ((0.0, 0), (0.3, 0), (0.5, 0.6)):
            full = CN.centre_of_gravity(stack, threshold=thr, min_threshold=mthr)
            for i in range(stack.shape[0]):
                for j in range(stack.shape[1]):
                    if not close(full[:, i, j], CN.centre_of_gravity(stack[i, j], threshold=thr, min_threshold=mthr)):
                        return bad("centre_of_gravity(threshold=%g) of a %s stack: frame [%d, %d] differs from the frame processed alone" % (thr, list(stack.shape), i, j),
                                   numpy.asarray(full[:, i, j]).tolist(), numpy.asarray(CN.centre_of_gravity(stack[i, j], threshold=thr, min_threshold=mthr)).tolist())


def chk_shift(inp):
    rng = numpy.random.default_rng(11)
    H, W = 16, 18
    core = rng.random((5, 6)) + 0.1
    for (ky, kx) in ((0, 0), (3, 2), (1, 5)):
        a = numpy.zeros((H, W)); a[4:9, 3:9] = core
        b = numpy.zeros((H, W)); b[4 + ky:9 + ky, 3 + kx:9 + kx] = core
        for f, kw in ((CN.centre_of_gravity, {}), (CN.centre_of_gravity, {"threshold": 0.2}), (CN.brightest_pixel, {"threshold": 0.08})):
            ca, cb = f(a.copy(), **kw), f(b.copy(), **kw)
            if not close(numpy.asarray(cb) - numpy.asarray(ca), [kx, ky]):
                return bad("%s does not move by exactly the shift (ky=%d,kx=%d) of the image content" % (f.__name__, ky, kx), (numpy.asarray(cb) - numpy.asarray(ca)).tolist(), [kx, ky])


def chk_quad(inp):
    rng = numpy.random.default_rng(12)
    st = rng.random((4, 2, 2))
    q = CN.quadCell(st)
    if not (close(CN.quadCell(st[..., ::-1])[0], -q[0]) and close(CN.quadCell(st[..., ::-1, :])[1], -q[1])):
        return bad("quad-cell signal does not change sign under mirroring")
    if not close(q[:, 1], CN.quadCell(st[1])):
        return bad("quadCell: stack item differs from single frame")
    # camera frames are unsigned integers: the signal of the mirrored image is the negative number, whatever the storage type
    base = rng.integers(0, 200, size=(5, 2, 2))
    ref = CN.quadCell(base.astype(float))
    for dt in ("uint8", "uint16", "uint32", "uint64", "int16", "int64", "float32"):
        im = base.astype(dt)
        q, qx, qy = CN.quadCell(im), CN.quadCell(im[..., ::-1]), CN.quadCell(im[..., ::-1, :])
        if not (close(numpy.asarray(q, dtype=float), ref) and close(numpy.asarray(qx, dtype=float)[0], -ref[0]) and close(numpy.asarray(qy, dtype=float)[1], -ref[1])):
            return bad("quad-cell signal of a %s image is not the signed difference of the half sums / does not change sign under mirroring" % dt,
                       [numpy.asarray(q, dtype=float)[:, 0].tolist(), numpy.asarray(qx, dtype=float)[:, 0].tolist()], [ref[:, 0].tolist(), (-ref[0, 0], ref[1, 0])])


def chk_corr(inp):
    rng = numpy.random.default_rng(13)
    # (sizes include lengths whose padded size has a large prime factor: 13, 17, 19, 23, 26, 34 ...)
    for (ny, nx) in ((10, 10), (10, 16), (12, 8), (26, 26), (34, 20), (20, 46)):
        ref = numpy.zeros((ny, nx)); ref[ny // 2 - 1:ny // 2 + 1, nx // 2 - 1:nx // 2 + 1] = 1.0
        ref += 0.01
        for pad in (1, 2, 3):
            for (sy, sx) in ((0, 0), (1, -2), (-2, 1)):
                im = numpy.roll(ref, (sy, sx), (0, 1))
                c = CN.correlation_centroid(numpy.array([im, ref]), ref.copy(), threshold=0.5, padding=pad)
                want = [nx / 2. + sx, ny / 2. + sy]
                if not close(c[:, 0], want, 1e-6) or not close(c[:, 1], [nx / 2., ny / 2.], 1e-6):
                    return bad("correlation centroid of an image displaced by (sy=%d,sx=%d) is not displaced by it from the array centre (shape %dx%d, padding %d)" % (sy, sx, ny, nx, pad),
                               numpy.asarray(c).tolist(), want)
    # a stack whose frames have different background levels gives, per frame, what the frame alone gives
    ref = numpy.zeros((10, 12)); ref[4:6, 5:7] = 1.0; ref += 0.01
    frames = numpy.array([numpy.roll(ref, (1, -2), (0, 1)) + 0.0, numpy.roll(ref, (-1, 1), (0, 1)) + 0.35, ref + 0.8])
    for pad in (1, 2):
        for thr in (0.0, 0.5):
            cs = CN.correlation_centroid(frames.copy(), ref.copy(), threshold=thr, padding=pad)
            for k in range(3):
                c1f = CN.correlation_centroid(frames[k].copy(), ref.copy(), threshold=thr, padding=pad)
                if not close(cs[:, k], numpy.asarray(c1f)[:, 0], 1e-9):
                    return bad("correlation centroid of frame %d inside a stack (frames with different background levels) differs from the frame processed alone (padding %d, threshold %g)" % (k, pad, thr),
                               numpy.asarray(cs[:, k]).tolist(), numpy.asarray(c1f)[:, 0].tolist())
    # positive scaling of image and reference leaves the correlation centroid unchanged
    ref = numpy.zeros((10, 12)); ref[4:6, 5:7] = 1.0; ref += 0.01
    im = numpy.roll(ref, (1, -2), (0, 1))
    c1 = CN.correlation_centroid(numpy.array([im, ref]), ref.copy(), threshold=0.5, padding=2)
    for kf in (7.5, 1e-3):
        c2 = CN.correlation_centroid(numpy.array([kf * im, kf * ref]), kf * ref, threshold=0.5, padding=2)
        if not close(c1, c2, 1e-9):
            return bad("correlation centroid changes when image and reference are multiplied by %g" % kf, numpy.asarray(c2).tolist(), numpy.asarray(c1).tolist())
    # odd sizes
    for (ny, nx) in ((9, 9), (11, 7), (9, 12), (7, 10), (13, 13), (17, 19), (23, 13)):
        ref = numpy.zeros((ny, nx)); ref[ny // 2 - 1:ny // 2 + 2, nx // 2 - 1:nx // 2 + 2] = 1.0
        ref += 0.01
        for pad in (1, 2, 3, 4):
            for (sy, sx) in ((0, 0), (1, -2), (-1, 1)):
                im = numpy.roll(ref, (sy, sx), (0, 1))
                c = CN.correlation_centroid(numpy.array([im, ref]), ref.copy(), threshold=0.5, padding=pad)
                if numpy.shape(c) != (2, 2) or not close(c[:, 0] - c[:, 1], [sx, sy], 1e-6):
                    return bad("correlation centroid of an image displaced by (sy=%d,sx=%d) is not displaced by it w.r.t. the undisplaced one (shape %dx%d, padding %d)" % (sy, sx, ny, nx, pad),
                               numpy.asarray(c).tolist(), [sx, sy])
                # the array centre is pixel n // 2 (the zero-lag pixel of a centred correlation), whatever the padding
                if abs(c[0, 1] - nx // 2) > 1e-6 or abs(c[1, 1] - ny // 2) > 1e-6:
                    return bad("correlation centroid of the reference with itself is not at the array centre (pixel n//2) for padding %d (shape %dx%d): the centre depends on the padding" % (pad, ny, nx),
                               numpy.asarray(c[:, 1]).tolist(), [nx // 2, ny // 2])


one = lambda t, s: [{}]
CLAUSES = {"cog.single-pixel": (chk_single, one), "cog.stack-scale": (chk_stack_scale, one), "brightest": (chk_brightest, one), "shift": (chk_shift, one), "quadcell": (chk_quad, one),
           "correlation": (chk_corr, one)}
if __name__ == "__main__":
    main(CLAUSES)
