"""C11 Propagators form a group and agree with each other and with theory."""
import sys, os
sys.path.insert(0, os.path.dirname(os.path.dirname(os.path.abspath(__file__))))
from aovc.check import run_check
from contracts import optics, fourier


def build(chk):
    chk.assumptions_used.update(["A-REAL", "A-NP"])
    chk.math_lemmas.append("operator identities of the DFT (ifft.fft = id, rolls compose, diagonal phases compose) as library contract of numpy.fft")
    chk.notes.append("requires: square N x N input, N even, wvl, d1, d2 > 0; ft2/ift2 used through their C09 contract")
    optics.c11_obligations(chk)
    optics.c11_orientation(chk)
    # the propagator identities use ft2 / ift2 through their contract and assume the input field is not modified: both are re-checked here
    with chk.borrow("C09"):
        fourier.obligations(chk, real_variants=False)
    with chk.borrow("C10"):
        optics.c10_obligations(chk)
    chk.confirm_known("C11-negative-distance-orientation", "orientation", {"m": 0.8, "z": 100.0})
    chk.not_decided.append("reproduces the analytic Gaussian beam (width, curvature, Gouy phase) and the Airy pattern: continuous-limit statements, no per-call contract")
    chk.not_decided.append("numerical agreement between angular-spectrum and Fresnel propagators on coinciding grids (different discretisations; only orientation/kernel form is decided)")
    chk.not_decided.append("orientation for negative partial distances: listed finding C11-negative-distance-orientation (proved only for positive distances)")


if __name__ == "__main__":
    sys.exit(run_check("C11", "Propagators form a group and agree with each other and with theory", build))
