import sys, os
sys.path.insert(0, os.path.dirname(os.path.abspath(__file__)))
import numpy
from _harness import main
import aotools
from aotools.turbulence import phasescreen as PS


class UnitGen:
    """stand-in generator: the k-th requested draw array is a unit vector (or zero), to recover the exact linear map draws -> screen"""
    def __init__(self, which, index, shape_total):
        self.which, self.index, self.count = which, index, 0

    def normal(self, loc=0, scale=1, size=None):
        out = numpy.zeros(size)
        if self.count == self.which:
            out.flat[self.index] = 1.0
        self.count += 1
        return out


def bad(msg, obs=None, exp=None):
    return {"message": msg, "observed": obs, "expected": exp}


def psd(f, r0, L0, l0):
    fm = 5.92 / l0 / (2 * numpy.pi)
    return 0.023 * r0 ** (-5. / 3) * numpy.exp(-(f / fm) ** 2) / (f ** 2 + 1. / L0 ** 2) ** (11. / 6)


def chk_spectrum(inp):
    cases = [(8, 0.1, 0.2, 20., 0.5), (8, 0.1, 0.2, 20., 0.16), (6, 0.25, 0.1, 5., 0.3), (8, 0.1, 0.2, 20., 0.1)]
    orig = numpy.random.default_rng
    for (N, delta, r0, L0, l0) in cases:
        # exact linear map: columns = response to each unit draw (2 N^2 draws)
        cols = []
        try:
            for which in (0, 1):
                for k in range(N * N):
                    g = UnitGen(which, k, N * N)
                    numpy.random.default_rng = lambda seed=None, g=g: g
                    cols.append(aotools.ft_phase_screen(r0, N, delta, L0, l0, seed=None).ravel())
        finally:
            numpy.random.default_rng = orig
        A = numpy.array(cols).T                         # screen = A @ draws
        cov = A @ A.T
        del_f = 1. / (N * delta)
        k = numpy.arange(N) - N / 2
        KX, KY = numpy.meshgrid(k, k)
        P = psd(del_f * numpy.sqrt(KX ** 2 + KY ** 2), r0, L0, l0) * del_f ** 2
        P[N // 2, N // 2] = 0
        x = numpy.arange(N)
        X, Y = numpy.meshgrid(x, x)
        want = numpy.zeros((N * N, N * N))
        xs, ys = X.ravel(), Y.ravel()
        for a in range(N):
            for b in range(N):
                if P[a, b] == 0:
                    continue
                ph = 2 * numpy.pi * (KX[a, b] * xs + KY[a, b] * ys) / N
                want += P[a, b] * (numpy.outer(numpy.cos(ph), numpy.cos(ph)) + numpy.outer(numpy.sin(ph), numpy.sin(ph)))
        if abs(cov - want).max() > 1e-9 * abs(want).max():
            return bad("exact ensemble covariance of ft_phase_screen(N=%d, delta=%g, r0=%g, L0=%g, l0=%g) is not the inverse discrete Fourier sum of the modified von Karman spectrum" % (N, delta, r0, L0, l0),
                       float(abs(cov - want).max() / abs(want).max()), 0.0)
        if abs(numpy.diag(cov) - numpy.diag(cov)[0]).max() > 1e-9 * numpy.diag(cov)[0]:
            return bad("variance of the screen depends on the position")
    for f in (aotools.ft_phase_screen, aotools.ft_sh_phase_screen):
        for (ra, rb) in ((0.1, 0.2), (0.1, 0.05), (0.3, 0.1)):
            a = f(ra, 16, 0.05, 20., 0.01, seed=5)
            b = f(rb, 16, 0.05, 20., 0.01, seed=5)
            if not numpy.allclose(b, a * (rb / ra) ** (-5. / 6), rtol=1e-9, atol=1e-12):
                return bad("%s amplitude does not scale as r0^(-5/6) for fixed draws (r0 %g -> %g, repeated calls in one process)" % (f.__name__, ra, rb))


def int_seed_structure(r0, N, delta, L0, l0):
    """exact ensemble structure functions of ft_sh_phase_screen / ft_phase_screen called with an INTEGER seed: every default_rng(<int>) call
    is replaced by a generator replaying one common stream from its start (what equal integer seeds do), the screens are probed with unit streams"""
    orig = numpy.random.default_rng

    class Play:
        def __init__(self, s): self.s, self.k = s, 0
        def normal(self, loc=0, scale=1, size=None):
            n = int(numpy.prod(size)); v = self.s[self.k:self.k + n].reshape(size); self.k += n; return v
    n = 2 * N * N + 54
    Lsh, Lhi = numpy.zeros((N * N, n)), numpy.zeros((N * N, n))
    for k in range(n):
        e = numpy.zeros(n); e[k] = 1
        try:
            numpy.random.default_rng = lambda seed=None: seed if hasattr(seed, "normal") else Play(e)
            sh = aotools.ft_sh_phase_screen(r0, N, delta, L0, l0, seed=1)
            hi = aotools.ft_phase_screen(r0, N, delta, L0, l0, seed=1)
        finally:
            numpy.random.default_rng = orig
        Lsh[:, k], Lhi[:, k] = sh.ravel(), hi.ravel()
    d = lambda L: ((L[:, None, :] - L[None, :, :]) ** 2).sum(-1)
    return d(Lsh), d(Lhi)


def chk_sub(inp):
    # called with an integer seed (the documented use) the sub-harmonic screen only ADDS structure: no value below the plain FFT screen's
    for cfg in ((0.2, 4, 1.0, 0.5, 0.01), (0.2, 8, 0.1, 0.2, 1e-3), (0.15, 8, 0.05, 20., 0.01)):
        Dsh, Dhi = int_seed_structure(*cfg)
        worst = (Dsh - Dhi).min() / Dhi.max()
        if worst < -1e-9:
            i, j = numpy.unravel_index(numpy.argmin(Dsh - Dhi), Dsh.shape)
            return bad("ft_sh_phase_screen(seed=<int>) (r0=%g, N=%d, delta=%g, L0=%g): the structure function between pixels %d and %d is BELOW the plain FFT screen's (the two parts share draws)" % (cfg[0], cfg[1], cfg[2], cfg[3], i, j),
                       float(Dsh[i, j]), ">= %.6g" % float(Dhi[i, j]))
    a = aotools.ft_sh_phase_screen(0.15, 16, 0.05, 20., 0.01, seed=numpy.random.default_rng(3))
    if a.shape != (16, 16) or not numpy.all(numpy.isfinite(a)):
        return bad("sub-harmonic screen shape / finiteness")
    # low-frequency part alone: zero mean
    g = numpy.random.default_rng(3)
    hi = aotools.ft_phase_screen(0.15, 16, 0.05, 20., 0.01, seed=g)
    lo = a - hi
    if abs(lo.mean()) > 1e-9 * max(abs(lo).max(), 1e-300):
        return bad("low-frequency (sub-harmonic) part does not have zero mean", float(lo.mean()), 0.0)


    # exact content of the low-frequency part: with the draws recorded, the screen must be
    #   hi + lo - mean(lo),  lo(x,y) = sum over grids g=1..3 (spacing del_f_g = 1/(3^g N delta)) and the 8 non-DC points (i,j) of
    #   Re[(A_g[i,j] + i B_g[i,j]) sqrt(PSD(f_g[i,j])) del_f_g exp(2 pi i (fx x + fy y))]
    class Rec:
        def __init__(self, seed): self.g, self.rec = numpy.random.default_rng(seed), []
        def normal(self, loc=0, scale=1, size=None):
            v = self.g.normal(loc, scale, size); self.rec.append(numpy.array(v)); return v

    class Play:
        def __init__(self, arrs): self.arrs = list(arrs)
        def normal(self, loc=0, scale=1, size=None): return self.arrs.pop(0)
    orig = numpy.random.default_rng
    # a real numpy Generator handed in as seed: the sub-harmonic draws are the NEXT draws of that generator after the two N x N arrays of the
    # high-frequency screen (a generator with the same seed replays them)
    for (r0, N, delta, L0, l0) in ((0.15, 8, 0.05, 20., 0.01), (0.2, 4, 1.0, 0.5, 0.01)):
        scr = aotools.ft_sh_phase_screen(r0, N, delta, L0, l0, seed=numpy.random.default_rng(77))
        g2 = numpy.random.default_rng(77)

        class _Replay:
            def __init__(self, arrs): self.arrs = list(arrs)
            def normal(self, loc=0, scale=1, size=None): return self.arrs.pop(0)
        first = [g2.normal(size=(N, N)), g2.normal(size=(N, N))]          # what the high-frequency screen consumes
        _orig = numpy.random.default_rng
        try:
            numpy.random.default_rng = lambda seed=None: seed if isinstance(seed, _Replay) else _orig(seed)
            hi = aotools.ft_phase_screen(r0, N, delta, L0, l0, seed=_Replay(first))
        finally:
            numpy.random.default_rng = _orig
        nxt = [g2.normal(size=(3, 3)) for _ in range(6)]
        c = numpy.arange(-N / 2, N / 2) * delta
        X, Y = numpy.meshgrid(c, c)
        lo = numpy.zeros((N, N))
        for gi in (1, 2, 3):
            dfg = 1. / (3 ** gi * N * delta)
            A_, B_ = nxt[2 * gi - 2], nxt[2 * gi - 1]
            for i in range(3):
                for j in range(3):
                    if i == 1 and j == 1:
                        continue
                    fx, fy = (j - 1) * dfg, (i - 1) * dfg
                    w = numpy.sqrt(psd(numpy.sqrt(fx ** 2 + fy ** 2), r0, L0, l0)) * dfg
                    lo += w * (A_[i, j] * numpy.cos(2 * numpy.pi * (fx * X + fy * Y)) - B_[i, j] * numpy.sin(2 * numpy.pi * (fx * X + fy * Y)))
        want = hi + lo - lo.mean()
        if not numpy.allclose(scr, want, rtol=1e-9, atol=1e-9 * abs(want).max()):
            return bad("ft_sh_phase_screen(seed=<Generator>) (N=%d): the screen is not the high-frequency screen of that generator plus sub-harmonics built from the generator's NEXT draws" % N, float(abs(scr - want).max()), 0.0)
    for (r0, N, delta, L0, l0) in ((0.15, 8, 0.05, 20., 0.01), (0.2, 12, 0.1, 3., 0.02), (0.1, 6, 0.25, 100., 0.3), (0.15, 8, 0.05, 1e10, 0.01), (0.15, 8, 0.05, float("inf"), 0.01)):
        rec = Rec(11)
        try:
            numpy.random.default_rng = lambda seed=None, rec=rec: seed if hasattr(seed, "normal") else rec
            scr = aotools.ft_sh_phase_screen(r0, N, delta, L0, l0, seed=rec)
            draws = list(rec.rec)
            if len(draws) != 8 or draws[0].shape != (N, N) or draws[1].shape != (N, N) or any(d.shape != (3, 3) for d in draws[2:]):
                return bad("ft_sh_phase_screen does not draw two N x N arrays followed by three pairs of 3 x 3 arrays from the generator it is given", [list(d.shape) for d in draws])
            hi = aotools.ft_phase_screen(r0, N, delta, L0, l0, seed=Play(draws[:2]))
        finally:
            numpy.random.default_rng = orig
        c = numpy.arange(-N / 2, N / 2) * delta
        X, Y = numpy.meshgrid(c, c)
        lo = numpy.zeros((N, N))
        for gi in (1, 2, 3):
            dfg = 1. / (3 ** gi * N * delta)
            A_, B_ = draws[2 * gi], draws[2 * gi + 1]
            for i in range(3):
                for j in range(3):
                    if i == 1 and j == 1:
                        continue
                    fx, fy = (j - 1) * dfg, (i - 1) * dfg
                    w = numpy.sqrt(psd(numpy.sqrt(fx ** 2 + fy ** 2), r0, L0, l0)) * dfg
                    ph = 2 * numpy.pi * (fx * X + fy * Y)
                    lo += w * (A_[i, j] * numpy.cos(ph) - B_[i, j] * numpy.sin(ph))
        want = hi + lo - lo.mean()
        if not numpy.allclose(scr, want, rtol=1e-9, atol=1e-9 * abs(want).max()):
            return bad("ft_sh_phase_screen(r0=%g, N=%d, delta=%g, L0=%g, l0=%g) is not the FFT screen plus the three sub-harmonic grids with weights sqrt(PSD) del_f_g (draws replayed)" % (r0, N, delta, L0, l0),
                       float(abs(scr - want).max() / abs(want).max()), 0.0)


one = lambda t, s: [{}]
CLAUSES = {"spectrum": (chk_spectrum, one), "transform": (chk_spectrum, one), "subharmonics": (chk_sub, one)}
if __name__ == "__main__":
    main(CLAUSES)
