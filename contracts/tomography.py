"""Contracts for create_tomographic_covariance_reconstructor / make_tomographic_reconstructor (property C02)."""
import z3
from aovc.check import num
from aovc.contract import verify
from aovc.values import zr, zi
from aovc.arrays import sym_arr, Arr
from aovc.symex import Obj, RepoClass
from aovc import matalg, frontend

SC = "aotools/turbulence/slopecovariance.py"


def obligations(chk):
    T, n = z3.Ints("T n")
    a, b = z3.Ints("a b")
    cond = z3.Real("svd_conditioning")
    for via_method in (False, True):
        holder = {}

        def run(it, via_method=via_method):
            it.ctx.assume(z3.And(n >= 0, T >= n, cond >= 0))
            C = sym_arr("C", [2 * T, 2 * T], prov={"covariance_matrix"})
            holder["C"] = C
            # requires: symmetric covariance matrix (instantiated where the pointwise symmetry checks ask for it)
            i_, j_ = z3.Int("sy!i"), z3.Int("sy!j")
            it.ctx.assume(zr(C.get([2 * n + i_, 2 * n + j_])) == zr(C.get([2 * n + j_, 2 * n + i_])))
            if via_method:
                mod = frontend.load(SC)
                o = Obj(RepoClass(mod, "CovarianceMatrix"))
                ns = sym_arr("n_subaps", [z3.Int("n_wfs")], dtype="int")
                it.ctx.assume(z3.Int("n_wfs") >= 1)
                it.ctx.assume(zi(ns.get([0])) == n)
                # object invariant established by the constructor: n_wfs sensors, total_subaps = sum(n_subaps) (the matrix is 2 total x 2 total);
                # the sensors need not have the same number of sub-apertures
                it.ctx.assume(z3.And(T >= zi(ns.get([0])), z3.Int("n_wfs") <= z3.If(T > 0, T, 1)))
                o.attrs.update(covariance_matrix=C, n_subaps=ns, n_wfs=z3.Int("n_wfs"), total_subaps=T)
                R = it.call_repo(SC, "CovarianceMatrix.make_tomographic_reconstructor", [cond], {}, self_obj=o)
                holder["obj"] = o
            else:
                R = it.call_repo(SC, "create_tomographic_covariance_reconstructor", [C, n, cond])
            return it, R

        def post(pr, via_method=via_method):
            it, R = pr.value
            C = holder["C"]
            goals = []
            ok = isinstance(R, matalg.Mat) and len(R.poly) == 1
            goals.append(("R is one product C_on,off * pinv(C_off,off)", z3.BoolVal(bool(ok))))
            if not ok:
                return goals
            word, coef = list(R.poly.items())[0]
            alg = matalg.algebra(it)
            ok2 = len(word) == 2 and word[1][0].startswith("pinv(") and not word[0][1] and not word[1][1] and coef == 1
            goals.append(("R = C_on,off . pinv(C_off,off)", z3.BoolVal(bool(ok2))))
            if not ok2:
                return goals
            s_no = alg.syms[word[0][0]]
            s_oo = alg.syms[word[1][0][5:-1]]
            inb1 = z3.And(a >= 0, a < 2 * n, b >= 0, b < 2 * T - 2 * n)
            inb2 = z3.And(a >= 0, a < 2 * T - 2 * n, b >= 0, b < 2 * T - 2 * n)
            # partition: on-axis sensor = the first 2n rows, off-axis = the rest
            goals.append(("C_on,off.shape=(2n, 2T-2n)", z3.And(zi(s_no.shape[0]) == 2 * n, zi(s_no.shape[1]) == 2 * T - 2 * n)))
            goals.append(("C_off,off.shape=(2T-2n, 2T-2n)", z3.And(zi(s_oo.shape[0]) == 2 * T - 2 * n, zi(s_oo.shape[1]) == 2 * T - 2 * n)))
            goals.append(("C_on,off[a,b]=C[a, 2n+b]", z3.Implies(inb1, zr(s_no.arr.get([a, b])) == zr(C.get([a, 2 * n + b])))))
            goals.append(("C_off,off[a,b]=C[2n+a, 2n+b]", z3.Implies(inb2, zr(s_oo.arr.get([a, b])) == zr(C.get([2 * n + a, 2 * n + b])))))
            pv = matalg.Mat(it, {(word[1],): 1}, [])
            goals.append(("pinv called with rcond=svd_conditioning", zr(getattr_rcond(it, R, word)) == cond if getattr_rcond(it, R, word) is not None else z3.BoolVal(False)))
            # algebra with the Moore-Penrose contract
            Cno = matalg.Mat(it, {((s_no.name, False),): 1}, s_no.shape)
            Coo = matalg.Mat(it, {((s_oo.name, False),): 1}, s_oo.shape)
            P = matalg.Mat(it, {(word[1],): 1}, [s_oo.shape[1], s_oo.shape[0]])
            checks = [("normal equations on the retained subspace: R.C_oo.C_oo^+ = R", matalg.dot(it, matalg.dot(it, R, Coo), P), R, []),
                      ("R.C_oo = C_no.(C_oo^+ C_oo)", matalg.dot(it, R, Coo), matalg.dot(it, Cno, matalg.dot(it, P, Coo)), [])]
            inv_rule = [((word[1], (s_oo.name, False)), {(): 1}, "hypothesis: C_off,off invertible (zero conditioning, well-conditioned): C_oo^+ C_oo = I"),
                        (((s_oo.name, False), word[1]), {(): 1}, "hypothesis: C_off,off invertible: C_oo C_oo^+ = I")]
            checks.append(("[C_oo invertible] R.C_oo = C_no (normal equations)", matalg.dot(it, R, Coo), Cno, inv_rule))
            alg.sym("E", [s_no.shape[0], s_oo.shape[0]])
            E = matalg.Mat(it, {(("E", False),): 1}, [s_no.shape[0], s_oo.shape[0]])
            dup = [(((s_no.name, False),), {(("E", False), (s_oo.name, False)): 1}, "hypothesis: the on-axis sensor duplicates an off-axis one: C_no = E C_oo (E a row selection)")]
            checks.append(("[duplicate sensor] R.C_oo = E.C_oo", matalg.dot(it, R, Coo), matalg.dot(it, E, Coo), dup))
            checks.append(("[duplicate sensor, C_oo invertible] R = E (reproduces that sensor, zero weight to the others)", R, E, dup + inv_rule))
            for nm, lhs, rhs, extra in checks:
                okk, resid = matalg.equal(it, lhs, rhs, extra)
                if okk:
                    goals.append((nm, z3.BoolVal(True)))
                else:
                    verdict, model = matalg.refute_2x2(it, lhs, rhs, extra)
                    goals.append((nm + " [residual %s; 2x2 interpretation: %s]" % (matalg.show(resid)[:120], verdict), z3.BoolVal(False)))
            if via_method:
                goals.append(("wrapper stores the reconstructor", z3.BoolVal(holder["obj"].attrs.get("tomographic_reconstructor") is R)))
            return goals
        verify(chk, "tomographic-reconstructor[%s]" % ("method" if via_method else "function"), SC + (":CovarianceMatrix.make_tomographic_reconstructor" if via_method else ":create_tomographic_covariance_reconstructor"),
               run, post, clause="normal-equations", replay=lambda m: {"T": num(m.eval(T, model_completion=True)), "n": num(m.eval(n, model_completion=True))},
               encoding="pointwise block slicing + matrix-algebra rewriting with the Moore-Penrose contract (2x2 real interpretation for refutation)")


def getattr_rcond(it, R, word):
    return getattr(it.ctx, "last_pinv_rcond", None)
