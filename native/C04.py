import sys, os
sys.path.insert(0, os.path.dirname(os.path.abspath(__file__)))
import numpy
from scipy.special import gamma, kv
from _harness import main
import aotools


def bad(msg, obs=None, exp=None):
    return {"message": msg, "observed": obs, "expected": exp}


def cov(r, r0, L0):
    r = numpy.asarray(r, dtype=float) + 1e-40
    A = (L0 / r0) ** (5. / 3)
    B1 = (2 ** (-5. / 6)) * gamma(11. / 6) / (numpy.pi ** (8. / 3))
    B2 = ((24. / 5) * gamma(6. / 5)) ** (5. / 6)
    return A * B1 * B2 * (((2 * numpy.pi * r) / L0) ** (5. / 6)) * kv(5. / 6, (2 * numpy.pi * r) / L0)


class FakeGen:
    def __init__(self, vec):
        self.vec = vec

    def normal(self, loc=0, scale=1, size=None):
        return numpy.array(self.vec, dtype=float)


def extract(scr, pix):
    """black-box A, B, reference column of a screen object as impulse responses of get_new_row; also true geometry"""
    nst = len(scr.stencil_coords)
    nx = scr.nx_size
    saved_R, saved_s = scr._R, scr._scrn
    base = numpy.zeros_like(scr._scrn)
    scr._scrn = base
    scr._R = FakeGen(numpy.zeros(nx))
    zero = scr.get_new_row().ravel().copy()
    A = numpy.zeros((nx, nst))
    for k, (r, c) in enumerate(scr.stencil_coords):
        s = base.copy(); s[r, c] = 1.0
        scr._scrn = s
        A[:, k] = scr.get_new_row().ravel() - zero
    scr._scrn = base
    B = numpy.zeros((nx, nx))
    for k in range(nx):
        e = numpy.zeros(nx); e[k] = 1
        scr._R = FakeGen(e)
        B[:, k] = scr.get_new_row().ravel() - zero
    scr._R, scr._scrn = saved_R, saved_s
    return A, B


def chk_identities(inp):
    cases = [("vk", 8, 0.1, 0.2, 20., {"n_columns": 2}), ("vk", 11, 0.25, 0.15, 10., {"n_columns": 3}), ("k", 9, 0.2, 0.2, 15., {"stencil_length_factor": 2}),
             ("k", 12, 0.15, 0.2, 15., {"stencil_length_factor": 2}), ("k", 20, 0.1, 0.25, 30., {"stencil_length_factor": 1}),
             # separations beyond the outer scale (the covariance is small there, not zero)
             ("vk", 16, 0.5, 0.2, 5., {"n_columns": 2}), ("vk", 12, 1.0, 0.2, 6., {"n_columns": 2}), ("k", 9, 0.5, 0.2, 3., {"stencil_length_factor": 2}),
             # very large outer scales (the near-Kolmogorov regime): the screen must build, and the identities hold relative to the (huge) variance
             ("vk", 8, 0.2, 0.5, 1e3, {"n_columns": 2}), ("vk", 8, 0.2, 0.5, 1e5, {"n_columns": 2}), ("vk", 8, 0.2, 0.5, 1e6, {"n_columns": 2}), ("k", 9, 0.2, 0.2, 1e5, {"stencil_length_factor": 2}),
             # constructible but badly conditioned (cond(Cov_zz) ~ 1e14): the identities must still hold, in units of the LOCAL statistics as well
             ("k", 32, 0.05, 0.15, 1e4, {}), ("vk", 16, 0.05, 0.2, 1e5, {"n_columns": 2})]
    # (not included: L0 / pixel_scale ~ 1e9, e.g. (16, 0.01, 0.2, 1e7): there the covariance differences between neighbouring pixels are below the
    #  float64 resolution of the covariance itself, 1e-4 rad^2 against a one-pixel structure function of 0.05 rad^2 -- a limit of the covariance
    #  formulation, not of the solve; the recursion stays stable there, which is C05's clause `stable`)
    for kind, n, pix, r0, L0, kw in cases:
        cls = aotools.PhaseScreenVonKarman if kind == "vk" else aotools.PhaseScreenKolmogorov
        scr = cls(n, pix, r0, L0, random_seed=5, **kw)
        A, B = extract(scr, pix)
        zc = numpy.asarray(scr.stencil_coords, dtype=float) * pix               # true pixel separations: the pixel scale the caller asked for
        xc = numpy.stack([-numpy.ones(scr.nx_size), numpy.arange(scr.nx_size)], 1) * pix
        d = lambda P, Q: numpy.sqrt(((P[:, None, :] - Q[None, :, :]) ** 2).sum(-1))
        Czz, Cxz, Cxx = cov(d(zc, zc), r0, L0), cov(d(xc, zc), r0, L0), cov(d(xc, xc), r0, L0)
        c0 = float(cov(0., r0, L0))
        if kind == "k":
            # Fried variant acts on values relative to the reference pixel: A applies to Z - ref, the identities hold for A itself
            pass
        e1 = abs(A @ Czz - Cxz).max() / c0
        e2 = abs(A @ Czz @ A.T + B @ B.T - Cxx).max() / c0
        # measured on the unchanged tree: <= 2e-15 of the variance for every case (outer scales to 1e6 m included); in units of the structure function
        # over one pixel the worst case (L0 = 1e6 m) is 3e-6
        tol = 1e-9
        sf1 = 6.88 * (abs(pix) / r0) ** (5. / 3)          # structure function over one pixel: the scale of what a new row adds
        if (e1 > tol or e2 > tol) or (abs(A @ Czz - Cxz).max() > 1e-3 * sf1):
            return bad("%s(%d, pixel_scale=%g, r0=%g, L0=%g): A Cov_zz = Cov_xz / A Cov_zz A^T + B B^T = Cov_xx fail against the von Karman covariance at the true pixel separations" % (cls.__name__, n, pix, r0, L0),
                       [float(e1), float(e2)], "< %g x Cov(0)" % tol)
        if kind == "k":
            s0 = scr._scrn.copy()
            g = numpy.random.default_rng(3).normal(size=scr.nx_size)
            scr._R = FakeGen(g); r1 = scr.get_new_row().ravel()
            scr._scrn = s0 + 7.5; scr._R = FakeGen(g); r2 = scr.get_new_row().ravel()
            scr._scrn = s0
            if not numpy.allclose(r2 - r1, 7.5, atol=1e-7):
                return bad("Fried variant: adding a constant to the screen does not add exactly that constant to the new row", float(abs(r2 - r1 - 7.5).max()), 0.0)
        # the row add_row() actually produces: computed from the screen as it is BEFORE the shift, placed at index 0
        s0 = numpy.random.default_rng(8).normal(size=scr._scrn.shape)
        g = numpy.random.default_rng(9).normal(size=scr.nx_size)
        keepR = scr._R
        scr._scrn = s0.copy(); scr._R = FakeGen(g)
        direct = scr.get_new_row().ravel()
        scr._scrn = s0.copy(); scr._R = FakeGen(g)
        scr.add_row()
        after = numpy.array(scr._scrn, dtype=float)
        scr._R = keepR
        if after.shape != s0.shape or not numpy.allclose(after[0], direct, rtol=1e-12, atol=1e-12):
            return bad("%s(%d): the row add_row() puts at index 0 is not the conditional draw A Z + B b computed from the screen before the shift" % (cls.__name__, n),
                       float(abs(after[0] - direct).max()) if after.shape == s0.shape else list(after.shape), 0.0)
        if not numpy.array_equal(after[1:], s0[:-1]):
            return bad("%s(%d): add_row() does not move the previous rows down by exactly one" % (cls.__name__, n))
        if not all(0 <= r < scr._scrn.shape[0] and 0 <= c < scr._scrn.shape[1] for r, c in scr.stencil_coords):
            return bad("a stencil coordinate lies outside the internal screen")


def chk_refuse(inp):
    """ill-conditioned parameters: construction must refuse (LinAlgError) rather than silently build matrices violating the identities"""
    for cls, args, kw in ((aotools.PhaseScreenVonKarman, (32, 0.005, 0.2, 300.), {"n_columns": 3}), (aotools.PhaseScreenVonKarman, (16, 0.001, 0.2, 300.), {"n_columns": 3})):
        try:
            scr = cls(*args, random_seed=1, **kw)
        except Exception:
            continue
        A, B = extract(scr, args[1])
        zc = numpy.asarray(scr.stencil_coords, dtype=float) * args[1]
        xc = numpy.stack([-numpy.ones(scr.nx_size), numpy.arange(scr.nx_size)], 1) * args[1]
        d = lambda P, Q: numpy.sqrt(((P[:, None, :] - Q[None, :, :]) ** 2).sum(-1))
        Czz, Cxz, Cxx = cov(d(zc, zc), args[2], args[3]), cov(d(xc, zc), args[2], args[3]), cov(d(xc, xc), args[2], args[3])
        c0 = float(cov(0., args[2], args[3]))
        e2 = abs(A @ Czz @ A.T + B @ B.T - Cxx).max() / c0
        if e2 > 2e-5:
            return bad("construction succeeded for ill-conditioned parameters %r but A Cov_zz A^T + B B^T != Cov_xx" % (args,), float(e2), "< 2e-5 x Cov(0)")


one = lambda t, s: [{}]
CLAUSES = {"AB-identities": (chk_identities, one), "row": (chk_identities, one), "covmats": (chk_identities, one), "geometry": (chk_identities, one), "refuse": (chk_refuse, one)}
if __name__ == "__main__":
    main(CLAUSES)
