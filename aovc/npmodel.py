"""Assumed contracts of NumPy / SciPy / builtins (assumption A-NP): every rule is an index
transformation or a first-order statement about the library call it stands for."""
from fractions import Fraction
import z3
import hashlib

from .values import *      # noqa
from .values import _num, MODE
from .arrays import Arr, const_arr, sym_arr, broadcast_shapes, dim_eq, cast_elem
from . import symex
from .symex import ExtRef, Builtin, BoundMethod, PyException, DType, SymRange, Obj, SymList

DTYPES = {"float": "float", "float64": "float", "float32": "float", "double": "float", "int": "int", "int32": "int",
          "int64": "int", "complex": "complex", "complex64": "complex", "complex128": "complex", "bool": "bool",
          "bool_": "bool"}


EXACT = {"complex": "complex128", "float": "float64", "int": "int64", "double": "float64", "float_": "float64", "bool_": "bool"}


def exact_dtype(d):
    """exact NumPy dtype name for comparisons (complex64 != complex128 == complex)"""
    n = d.name if isinstance(d, (DType, Builtin)) else (d if isinstance(d, str) else (d.dotted.split(".")[-1] if isinstance(d, ExtRef) else None))
    return EXACT.get(n, n)


def dtype_name(d):
    if isinstance(d, DType):
        return DTYPES.get(d.name, d.name)
    if isinstance(d, str):
        return DTYPES.get(d, d)
    if isinstance(d, Builtin):
        return DTYPES.get(d.name, d.name)
    if isinstance(d, ExtRef):
        return DTYPES.get(d.dotted.split(".")[-1], d.dotted)
    if d is None:
        return None
    raise Unsupported("dtype %r" % (d,))


def ext_attr(it, o, name):
    d = o.dotted + "." + name
    if d == "numpy.pi":
        if MODE["log"]:
            from .logmono import LogVal, LG
            return LogVal(LG("PI"))
        return PI
    if d == "numpy.newaxis":
        return None
    if d == "math.pi":
        return ext_attr(it, ExtRef("numpy"), "pi")
    if o.dotted == "numpy" and name in DTYPES:
        return DType(name)
    if d in ("numpy.math", "scipy.interpolate.interp2d"):
        raise PyException("AttributeError", "module %s has no attribute %s" % (o.dotted, name))
    return ExtRef(d)


# ----------------------------------------------------------------------------- helpers

def as_arr(it, x, dtype=None):
    if isinstance(x, Arr):
        return x
    if isinstance(x, (list, tuple)):
        return array(it, x, dtype)
    if isinstance(x, range):
        return array(it, list(x), "int")
    if is_scalar(x):
        return Arr([], lambda idx, x=x: x, elem_dtype(x))
    raise Unsupported("cannot convert %s to an array" % type(x).__name__)


def elem_dtype(x):
    if isinstance(x, (Cx, Polar)):
        return "complex"
    if is_bool(x):
        return "bool"
    if is_int_valued(x):
        return "int"
    return "float"


def join_dtype(a, b):
    order = ["bool", "int", "float", "complex"]
    return order[max(order.index(a), order.index(b))]


def array(it, x, dtype=None):
    dt = dtype_name(dtype) if dtype is not None else None
    if isinstance(x, Arr):
        return x.frozen(dtype=dt or x.dtype) if dt in (None, x.dtype) else astype(it, x, dt)
    if isinstance(x, range):
        x = list(x)
    if hasattr(x, "__aovc_array__"):
        return x.__aovc_array__(it, dt)
    if is_scalar(x):
        return Arr([], lambda idx, x=x: x, dt or elem_dtype(x))
    if not isinstance(x, (list, tuple)):
        raise Unsupported("numpy.array of %s" % type(x).__name__)
    items = [array(it, e) if not is_scalar(e) else e for e in x]
    n = len(items)
    if n == 0:
        return Arr([0], lambda idx: 0, dt or "float")
    if all(is_scalar(e) for e in items):
        edt = "bool"
        for e in items:
            edt = join_dtype(edt, elem_dtype(e))
        vals = list(items)

        def f(idx, vals=vals):
            i = idx[0]
            if is_conc(i):
                return vals[int(i)]
            r = vals[-1]
            for k in range(len(vals) - 2, -1, -1):
                r = ite(cmp("==", i, k), vals[k], r)
            return r
        res = Arr([n], f, edt)
        return res if dt in (None, edt) else astype(it, res, dt)
    subs = [as_arr(it, e) for e in items]
    shp = subs[0].shape
    for s in subs[1:]:
        if len(s.shape) != len(shp) or any(dim_eq(p, q) is not True for p, q in zip(s.shape, shp)):
            if len(s.shape) != len(shp):
                raise Unsupported("ragged nested sequence")
            for p, q in zip(s.shape, shp):
                it.ctx.definedness(cmp("==", p, q), "numpy.array: equal sub-array shapes")
    snaps = [s.snapshot() for s in subs]
    edt = subs[0].dtype
    for s in subs[1:]:
        edt = join_dtype(edt, s.dtype)

    def f(idx, snaps=snaps):
        i = idx[0]
        rest = idx[1:]
        if is_conc(i):
            return snaps[int(i)](rest)
        r = snaps[-1](rest)
        for k in range(len(snaps) - 2, -1, -1):
            r = ite(cmp("==", i, k), snaps[k](rest), r)
        return r
    res = Arr([n] + list(shp), f, edt)
    return res if dt in (None, edt) else astype(it, res, dt)


def astype(it, a, dt):
    dt = dtype_name(dt)
    snap = a.snapshot()
    if dt == a.dtype:
        return Arr(list(a.shape), snap, dt)
    return Arr(list(a.shape), lambda idx: cast_elem(snap(idx), dt), dt)


def map1(it, a, f, dtype=None):
    snap = a.snapshot()
    return Arr(list(a.shape), lambda idx: f(snap(idx)), dtype or a.dtype)


def map2(it, a, b, f, dtype=None):
    A = as_arr(it, a)
    B = as_arr(it, b)
    shape, ma, mb = broadcast_shapes(it.ctx, A.shape, B.shape)
    sa, sb = A.snapshot(), B.snapshot()
    dt = dtype or join_dtype(A.dtype, B.dtype)
    res = Arr(shape, lambda idx: f(sa(ma(idx)), sb(mb(idx))), dt)
    if not shape:
        # 0-d results behave as scalars
        return res.get([])
    return res


def check_same_shape(it, a, b, msg):
    if len(a.shape) != len(b.shape):
        it.ctx.definedness(False, msg)
        raise DefinednessError(msg)
    for p, q in zip(a.shape, b.shape):
        e = dim_eq(p, q)
        if e is True:
            continue
        it.ctx.definedness(cmp("==", p, q), msg)


def norm_axis(ax, ndim):
    if not is_conc(ax):
        raise Unsupported("symbolic axis")
    ax = int(ax)
    if ax < 0:
        ax += ndim
    if not (0 <= ax < ndim):
        raise PyException("AxisError", "axis out of bounds")
    return ax


def shape_arg(it, s):
    if isinstance(s, (list, tuple)):
        return [as_dim(x) for x in s]
    if isinstance(s, Arr):
        if len(s.shape) != 1 or not is_conc(s.shape[0]):
            raise Unsupported("shape given as symbolic-length array")
        return [as_dim(s.get([k])) for k in range(int(s.shape[0]))]
    return [as_dim(s)]


def as_dim(x):
    if is_conc(x):
        f = Fraction(_num(x))
        if f.denominator != 1:
            raise PyException("TypeError", "non-integer dimension")
        return int(f)
    if is_z3(x) and z3.is_int(x):
        return x
    if is_z3(x):
        return zi(x)
    raise Unsupported("dimension %r" % (x,))


# ----------------------------------------------------------------------------- indexing

def _norm_bound(it, v, dim, default):
    """normalise a slice bound (python semantics: negative counts from the end, clamp to [0, dim])"""
    if v is None:
        return default
    if is_conc(v):
        k = int(v)
        if k < 0:
            if is_conc(dim):
                return max(0, int(dim) + k)
            t = r_add(dim, k)
            d = it.ctx.decide(cmp(">=", t, 0))
            return t if d is True else ite(cmp(">=", t, 0), t, 0)
        if is_conc(dim):
            return min(k, int(dim))
        d = it.ctx.decide(cmp("<=", k, dim))
        return k if d is True else ite(cmp("<=", k, dim), k, dim)
    v = zi(v)
    neg = it.ctx.decide(v < 0)
    if neg is None:
        # sign not decided by the path condition: python's rule as a term (no path split)
        t = r_add(dim, v)
        return ite(cmp("<", v, 0), ite(cmp(">=", t, 0), t, 0), ite(cmp("<=", v, dim), v, dim))
    if neg:
        t = r_add(dim, v)
        d = it.ctx.decide(cmp(">=", t, 0))
        return t if d is True else ite(cmp(">=", t, 0), t, 0)
    d = it.ctx.decide(cmp("<=", v, dim))
    return v if d is True else ite(cmp("<=", v, dim), v, dim)


def _slice_len(it, start, stop, step):
    if is_conc(start) and is_conc(stop):
        return max(0, -((int(start) - int(stop)) // step))
    diff = r_sub(stop, start)
    if step == 1:
        d = it.ctx.decide(cmp(">=", diff, 0))
        return diff if d is True else ite(cmp(">=", diff, 0), diff, 0)
    q = (zi(diff) + (step - 1)) / step
    d = it.ctx.decide(cmp(">=", diff, 0))
    return q if d is True else ite(cmp(">=", diff, 0), q, 0)


def expand_key(a, key):
    key = list(key)
    n_real = sum(1 for k in key if k is not None and k is not Ellipsis)
    if any(k is Ellipsis for k in key):
        i = [j for j, k in enumerate(key) if k is Ellipsis]
        if len(i) > 1:
            raise PyException("IndexError", "more than one ellipsis")
        fill = a.ndim - n_real
        key = key[:i[0]] + [slice(None, None, None)] * fill + key[i[0] + 1:]
    else:
        key = key + [slice(None, None, None)] * (a.ndim - n_real)
    if sum(1 for k in key if k is not None) != a.ndim:
        raise PyException("IndexError", "too many indices for array")
    return key


def getitem(it, a, key):
    # boolean mask
    if len(key) == 1 and isinstance(key[0], Arr) and key[0].dtype == "bool":
        return Masked(it, a, key[0])
    if any(isinstance(k, (Arr, list)) or hasattr(k, "__aovc_index__") for k in key):
        return fancy_get(it, a, key)
    key = expand_key(a, key)
    shape = []
    plan = []   # per source axis: ("int", k) | ("slice", start, step, outpos) ; newaxis recorded separately
    outpos = 0
    new_axes = []
    src = 0
    for k in key:
        if k is None:
            shape.append(1)
            new_axes.append(outpos)
            outpos += 1
            continue
        dim = a.shape[src]
        if isinstance(k, slice):
            step = k.step
            if step is None:
                step = 1
            if not is_conc(step):
                # symbolic step: only a step the path condition makes positive (a[i::n] with n >= 1); the length is a fresh
                # integer L constrained by its defining inequalities  step*(L-1) < stop-start <= step*L  (L = 0 for an empty slice)
                if not is_int_valued(step):
                    raise PyException("TypeError", "slice indices must be integers")
                stz = zi(step)
                if it.ctx.decide(stz > 0) is not True:
                    raise Unsupported("symbolic slice step of undecided sign")
                start = _norm_bound(it, k.start, dim, 0)
                stop = _norm_bound(it, k.stop, dim, dim)
                diff = zi(r_sub(stop, start))
                ln = z3.Int(fresh_name("slen"))
                it.ctx.assume(z3.And(ln >= 0, z3.Implies(diff <= 0, ln == 0),
                                     z3.Implies(diff > 0, z3.And(stz * (ln - 1) < diff, diff <= stz * ln))))
                plan.append(("slice", start, stz, outpos, stop))
                shape.append(ln)
                outpos += 1
                src += 1
                continue
            step = int(step)
            if step == 0:
                raise PyException("ValueError", "slice step cannot be zero")
            if step < 0:
                if k.start is None and k.stop is None and step == -1:
                    plan.append(("rev", dim, outpos))
                    shape.append(dim)
                    outpos += 1
                    src += 1
                    continue
                raise Unsupported("negative slice step")
            start = _norm_bound(it, k.start, dim, 0)
            stop = _norm_bound(it, k.stop, dim, dim)
            ln = _slice_len(it, start, stop, step)
            plan.append(("slice", start, step, outpos, stop))
            shape.append(ln)
            outpos += 1
        else:
            if isinstance(k, (Cx, Polar)):
                raise PyException("IndexError", "complex index")
            if not is_int_valued(k):
                raise PyException("IndexError", "only integers, slices ... are valid indices")
            if is_conc(k):
                kk = int(k)
                if kk < 0:
                    kk2 = r_add(dim, kk)
                    it.ctx.definedness(cmp(">=", kk2, 0), "index %d in bounds" % kk)
                    kk = kk2
                else:
                    it.ctx.definedness(cmp("<", kk, dim), "index %d in bounds" % kk)
            else:
                kk = zi(k)
                if it.ctx.decide(kk < 0) is True:
                    # an index the path condition makes negative counts from the end (a[-k] with k >= 1)
                    kk = zi(r_add(dim, kk))
                    it.ctx.definedness(b_and(cmp(">=", kk, 0), cmp("<", kk, dim)), "negative index in bounds")
                else:
                    it.ctx.definedness(b_and(cmp(">=", kk, 0), cmp("<", kk, dim)), "index in bounds (non-negative indices modelled)")
            plan.append(("int", kk))
        src += 1

    def tob(idx, plan=plan):
        out = []
        for p in plan:
            if p[0] == "int":
                out.append(p[1])
            elif p[0] == "rev":
                out.append(r_sub(r_sub(p[1], 1), idx[p[2]]))
            else:
                _, start, step, pos, _stop = p
                out.append(simp(r_add(start, r_mul(step, idx[pos]))))
        return out

    nout = outpos

    def fromb(sidx, plan=plan, nout=nout, new_axes=tuple(new_axes)):
        conds = []
        out = [0] * nout
        for s, p in zip(sidx, plan):
            if p[0] == "int":
                conds.append(cmp("==", s, p[1]))
            elif p[0] == "rev":
                out[p[2]] = r_sub(r_sub(p[1], 1), s)
            else:
                _, start, step, pos, stop = p
                conds.append(cmp(">=", s, start))
                conds.append(cmp("<", s, stop))
                if is_conc(step) and step == 1:
                    out[pos] = simp(r_sub(s, start))
                else:
                    d = r_sub(s, start)
                    conds.append(cmp("==", it.mod(d, step), 0))
                    out[pos] = it.floordiv(d, step)
        return b_and(*conds), out
    v = a.view(shape, tob, fromb)
    if not shape:
        return v.get([])
    return v


def getitem_view(it, a, key):
    """a[key] as a view even when every index is an integer (0-d view), for in-place updates of single elements"""
    k2 = expand_key(a, list(key)) if not any(isinstance(k, (Arr, list)) for k in key) else None
    if k2 is not None and all(not isinstance(k, slice) and k is not None for k in k2):
        idx = []
        for k, dim in zip(k2, a.shape):
            kk = k
            if is_conc(k) and int(k) < 0:
                kk = r_add(dim, int(k))
            it.ctx.definedness(b_and(cmp(">=", kk, 0), cmp("<", kk, dim)), "index in bounds")
            idx.append(kk)
        return a.view([], lambda i, idx=idx: list(idx), lambda s, idx=idx: (b_and(*[cmp("==", p, q) for p, q in zip(s, idx)]), []))
    v = getitem(it, a, key)
    if not isinstance(v, Arr):
        raise Unsupported("in-place update target")
    return v


def fancy_get(it, a, key):
    """integer-array indexing (copy).  Supported: every key an int Arr / IndexArr of one common shape,
    or a mix of scalars and such arrays (broadcast scalars)."""
    key = list(key)
    if len(key) != a.ndim:
        # a[idx_arr] on the first axis only
        if len(key) == 1:
            k0 = as_index_arr(it, key[0])
            snap = a.snapshot()
            rest = list(a.shape[1:])
            kshape = list(k0.shape)
            nk = len(kshape)
            ks = k0.snapshot()
            it.ctx.notes.append("fancy index on axis 0")
            return Arr(kshape + rest, lambda idx: snap([ks(idx[:nk])] + list(idx[nk:])), a.dtype)
        raise Unsupported("partial fancy indexing")
    arrs = []
    shape = None
    for k in key:
        if isinstance(k, slice) or k is None or k is Ellipsis:
            raise Unsupported("mixed slice / fancy indexing")
        if is_scalar(k):
            arrs.append(None if False else k)
        else:
            ka = as_index_arr(it, k)
            arrs.append(ka)
            if shape is None:
                shape = list(ka.shape)
            else:
                for p, q in zip(shape, ka.shape):
                    if dim_eq(p, q) is not True:
                        it.ctx.definedness(cmp("==", p, q), "fancy index arrays have equal shapes")
    snap = a.snapshot()
    ks = [k.snapshot() if isinstance(k, Arr) else k for k in arrs]

    def f(idx):
        src = []
        for k in ks:
            src.append(k(idx) if callable(k) else k)
        return snap(src)
    return Arr(shape, f, a.dtype)


def as_index_arr(it, k):
    if hasattr(k, "__aovc_index__"):
        return k.__aovc_index__(it)
    if isinstance(k, list):
        return array(it, k, "int")
    if isinstance(k, Arr):
        return k
    raise Unsupported("index of type %s" % type(k).__name__)


def setitem(it, a, key, v):
    if len(key) == 1 and isinstance(key[0], Arr) and key[0].dtype == "bool":
        mask = key[0]
        check_same_shape(it, a, mask, "boolean index has the shape of the array")
        ms = mask.snapshot()
        if is_scalar(v):
            a.write(lambda idx: ms(idx), lambda idx: v, it.ctx, "masked store")
            return
        raise Unsupported("masked store of non-scalar")
    if any(isinstance(k, (Arr, list)) or hasattr(k, "__aovc_index__") for k in key):
        if hasattr(key[0], "__aovc_setitem_key__") or (len(key) and all(hasattr(k, "__aovc_where_axis__") for k in key)):
            # a[where(cond)] = scalar
            w = key[0].__aovc_where_axis__()[0]
            if all(k.__aovc_where_axis__()[0] is w for k in key) and [k.__aovc_where_axis__()[1] for k in key] == list(range(a.ndim)) and is_scalar(v):
                cs = w.cond.snapshot()
                check_same_shape(it, a, w.cond, "where() index matches array")
                a.write(lambda idx: cs(idx), lambda idx: v, it.ctx, "store at where() coordinates")
                return
        raise Unsupported("fancy-index store")
    k_exp = expand_key(a, list(key)) if not any(k is None for k in key) else None
    all_int = k_exp is not None and all(not isinstance(k, slice) for k in k_exp)
    target = None if all_int else getitem(it, a, key)
    if all_int:
        for k, dim in zip(k_exp, a.shape):
            kk = r_add(dim, int(k)) if (is_conc(k) and int(k) < 0) else k
            it.ctx.definedness(b_and(cmp(">=", kk, 0), cmp("<", kk, dim)), "index in bounds")
    if not isinstance(target, Arr):
        # all-integer key: single element (no read of the array)
        k2 = expand_key(a, key)
        idx = []
        for k, dim in zip(k2, a.shape):
            kk = k
            if is_conc(k) and int(k) < 0:
                kk = r_add(dim, int(k))
            idx.append(kk)
        if isinstance(v, Arr):
            if v.ndim == 0:
                v = v.get([])
            else:
                raise PyException("ValueError", "setting an array element with a sequence")
        if isinstance(v, (list, tuple)):
            raise PyException("ValueError", "setting an array element with a sequence")
        if not is_scalar(v):
            raise Unsupported("store of %s into an array element" % type(v).__name__)
        a.write(lambda i2: b_and(*[cmp("==", p, q) for p, q in zip(i2, idx)]), lambda i2: v, it.ctx, "element store")
        return
    if is_scalar(v):
        target.write(lambda idx: True, lambda idx: v, it.ctx, "slice store")
        return
    V = as_arr(it, v)
    shape, mt, mv = broadcast_shapes(it.ctx, target.shape, V.shape)
    if len(shape) != len(target.shape):
        raise PyException("ValueError", "could not broadcast input array into shape")
    vs = V.snapshot()
    target.write(lambda idx: True, lambda idx: vs(mv(idx)), it.ctx, "slice store")


class Masked:
    """a[mask] for a boolean mask of a's shape: the selected elements in row-major order.
    Only order-independent uses are modelled (sum, elementwise arithmetic between selections by the same mask)."""

    def __init__(self, it, a, mask, f=None):
        check_same_shape(it, a, mask, "boolean index has the shape of the array") if f is None else None
        self.shape_src = list(a.shape) if a is not None else None
        self.mask = mask
        self.ms = mask.snapshot()
        self.f = f if f is not None else a.snapshot()
        self.dtype = a.dtype if a is not None else "float"

    def same_mask(self, other):
        return isinstance(other, Masked) and other.mask is self.mask

    def __aovc_binop__(self, it, op, other, swapped):
        if isinstance(other, Masked):
            if not self.same_mask(other):
                raise Unsupported("arithmetic between selections by different masks")
            g = other.f
            f = self.f
            nf = (lambda idx: it.binop(op, g(idx), f(idx))) if swapped else (lambda idx: it.binop(op, f(idx), g(idx)))
        elif is_scalar(other):
            f = self.f
            nf = (lambda idx: it.binop(op, other, f(idx))) if swapped else (lambda idx: it.binop(op, f(idx), other))
        else:
            return NotImplemented
        m = Masked(it, None, self.mask, nf)
        m.shape_src = self.shape_src
        return m

    def __aovc_attr__(self, it, name):
        return BoundMethod(self, name)

    def as_full(self, fill):
        """array of the source shape holding the selected elements and `fill` elsewhere"""
        f, ms = self.f, self.ms
        return Arr(list(self.shape_src), lambda idx: ite(ms(idx), f(idx), fill), "float")


# ----------------------------------------------------------------------------- reductions (Sigma terms)

class SumTerm:
    def __init__(self, name, ranges, body, const):
        self.name = name        # opaque constant name
        self.ranges = ranges    # list of (z3 Int bound var, lo, hi)   hi exclusive
        self.body = body        # scalar term over the bound vars
        self.const = const


EXPAND_LIMIT = 40


def sigma(it, ranges, body_fn, label="sum"):
    """sum over the box `ranges` (list of (lo, hi)) of body_fn(idx); expands small concrete boxes"""
    conc = all(is_conc(lo) and is_conc(hi) for lo, hi in ranges)
    if conc:
        total = 1
        for lo, hi in ranges:
            total *= max(0, int(hi) - int(lo))
        if total <= EXPAND_LIMIT:
            import itertools
            acc = 0
            for idx in itertools.product(*[range(int(lo), int(hi)) for lo, hi in ranges]):
                acc = s_add(acc, body_fn(list(idx)))
            return acc
    bvs = [z3.Int(fresh_name("k")) for _ in ranges]
    # definedness conditions met while building the summand are obligations for every index IN RANGE
    guard = [z(b_and(cmp(">=", v, lo), cmp("<", v, hi))) for v, (lo, hi) in zip(bvs, ranges)]
    guard = [g for g in guard if not z3.is_true(g)]
    it.ctx.pc.extend(guard)
    try:
        body = body_fn(list(bvs))
    finally:
        if guard:
            del it.ctx.pc[len(it.ctx.pc) - len(guard):]
    if isinstance(body, Polar):
        raise Unsupported("sum of exp(i*phi) terms")
    if isinstance(body, Cx):
        re = _sigma_real(it, ranges, bvs, body.re, label + ".re")
        im = _sigma_real(it, ranges, bvs, body.im, label + ".im")
        return Cx(re, im)
    return _sigma_real(it, ranges, bvs, body, label)


def free_consts(e, acc=None):
    """uninterpreted constants (arity 0) occurring in a z3 term"""
    if acc is None:
        acc = {}
    seen = set()
    stack = [e]
    while stack:
        t = stack.pop()
        if t.get_id() in seen:
            continue
        seen.add(t.get_id())
        if z3.is_const(t) and t.decl().kind() == z3.Z3_OP_UNINTERPRETED:
            acc[str(t)] = t
        else:
            stack.extend(t.children())
    return acc


def _sigma_real(it, ranges, bvs, body, label):
    """hash-consed Sigma term: alpha-equivalent sums over the same ranges are the SAME uninterpreted function applied
    to their free variables (so syntactically equal sums are equal by congruence; everything else needs a Sigma rule)"""
    import hashlib
    if is_conc(body) and _num(body) == 0:
        return 0
    body = zr(body)
    # canonical bound-variable names carry the nesting depth, so that an inner sum's variables never clash with an enclosing sum's
    depth = 0
    reg = getattr(it.ctx, "sums", {})
    stack, seen = [body], set()
    while stack:
        t = stack.pop()
        if t.get_id() in seen:
            continue
        seen.add(t.get_id())
        if z3.is_app(t) and t.decl().name() in reg:
            depth = max(depth, getattr(reg[t.decl().name()], "depth", 0) + 1)
        stack.extend(t.children())
    canon = [z3.Int("b%d!%d" % (depth, k)) for k in range(len(bvs))]
    sub = list(zip(bvs, canon))
    cbody = z3.simplify(z3.substitute(body, *sub))
    cr = []
    for (lo, hi) in ranges:
        lo_t, hi_t = zi(lo) if not is_z3(lo) else lo, zi(hi) if not is_z3(hi) else hi
        cr.append((z3.simplify(z3.substitute(lo_t, *sub)), z3.simplify(z3.substitute(hi_t, *sub))))
    fv = {}
    free_consts(cbody, fv)
    for lo_t, hi_t in cr:
        free_consts(lo_t, fv)
        free_consts(hi_t, fv)
    for c in canon:
        fv.pop(str(c), None)
    names = sorted(fv)
    key = cbody.sexpr() + "|" + "|".join(a.sexpr() + ":" + b.sexpr() for a, b in cr)
    h = hashlib.sha256(key.encode()).hexdigest()[:12]
    fname = "Sum_%s" % h
    args = [fv[n] for n in names]
    if args:
        F = z3.Function(fname, *([a.sort() for a in args] + [z3.RealSort()]))
        term = F(*args)
    else:
        term = z3.Real(fname)
    if not hasattr(it.ctx, "sums"):
        it.ctx.sums = {}
    if fname not in it.ctx.sums:
        it.ctx.sums[fname] = SumTerm(fname, [(c, lo_t, hi_t) for c, (lo_t, hi_t) in zip(canon, cr)], cbody, term)
        it.ctx.sums[fname].params = args
        it.ctx.sums[fname].depth = depth
    if syntactically_nonneg(cbody):
        # Sigma rule (monotonicity): a sum of terms that are squares / products of squares is non-negative
        it.ctx._axiom("sum-nonneg", term >= 0)
    return term


def syntactically_nonneg(e):
    if z3.is_int_value(e):
        return e.as_long() >= 0
    if z3.is_rational_value(e):
        return e.numerator_as_long() >= 0
    if not z3.is_app(e):
        return False
    k = e.decl().kind()
    ch = e.children()
    if k == z3.Z3_OP_MUL:
        # pair up identical factors; remaining factors must be non-negative themselves
        rest = []
        for c in ch:
            hit = None
            for q, r in enumerate(rest):
                if r.eq(c):
                    hit = q
                    break
            if hit is None:
                rest.append(c)
            else:
                rest.pop(hit)
        return all(syntactically_nonneg(c) for c in rest)
    if k == z3.Z3_OP_ADD:
        return all(syntactically_nonneg(c) for c in ch)
    if k == z3.Z3_OP_ITE:
        return syntactically_nonneg(ch[1]) and syntactically_nonneg(ch[2])
    if k == z3.Z3_OP_POWER and z3.is_int_value(ch[1]) and ch[1].as_long() % 2 == 0:
        return True
    if k == z3.Z3_OP_TO_REAL:
        return syntactically_nonneg(ch[0])
    if k == z3.Z3_OP_UNINTERPRETED and e.decl().name() in ("sqrt", "exp"):
        return True
    return False


def arr_sum(it, a, axis=None):
    snap = a.snapshot()
    if axis is None:
        return sigma(it, [(0, d) for d in a.shape], snap, "sum")
    if isinstance(axis, (tuple, list)):
        axes = sorted(norm_axis(x, a.ndim) for x in axis)
    else:
        axes = [norm_axis(axis, a.ndim)]
    keep = [k for k in range(a.ndim) if k not in axes]
    shape = [a.shape[k] for k in keep]

    def f(idx):
        def body(sub):
            full = [None] * a.ndim
            for k, v in zip(keep, idx):
                full[k] = v
            for k, v in zip(axes, sub):
                full[k] = v
            return snap(full)
        return sigma(it, [(0, a.shape[k]) for k in axes], body, "sum")
    if not shape:
        return f([])
    return memo_arr(shape, f, a.dtype if a.dtype != "bool" else "int")


def memo_arr(shape, f, dtype):
    """array whose elements are expensive / create fresh symbols: memoise on the index terms"""
    cache = {}

    def g(idx):
        key = tuple(i.sexpr() if is_z3(i) else str(i) for i in idx)
        if key not in cache:
            cache[key] = f(idx)
        return cache[key]
    return Arr(shape, g, dtype)


class ExtremeTerm:
    def __init__(self, name, kind, shape, snap, const):
        self.name, self.kind, self.shape, self.snap, self.const = name, kind, shape, snap, const


def arr_extreme(it, a, kind, axis=None):
    """max / min of an array: an opaque real with the defining bounds instantiated on demand"""
    if axis is not None:
        ax = norm_axis(axis, a.ndim)
        keep = [k for k in range(a.ndim) if k != ax]
        shape = [a.shape[k] for k in keep]
        snap = a.snapshot()

        def f(idx):
            def sub(j):
                full = list(idx[:ax]) + [j[0]] + list(idx[ax:])
                return snap(full)
            return _extreme(it, [a.shape[ax]], sub, kind)
        if not shape:
            return f([])
        return memo_arr(shape, f, a.dtype)
    return _extreme(it, list(a.shape), a.snapshot(), kind)


def _extreme(it, shape, snap, kind):
    conc = all(is_conc(d) for d in shape)
    if conc:
        import itertools
        total = 1
        for d in shape:
            total *= int(d)
        if 0 < total <= EXPAND_LIMIT:
            vals = [snap(list(idx)) for idx in itertools.product(*[range(int(d)) for d in shape])]
            r = vals[0]
            for v in vals[1:]:
                r = ite(cmp(">=" if kind == "max" else "<=", r, v), r, v)
            return r
    c = it.ctx.fresh_real(kind)
    if not hasattr(it.ctx, "extremes"):
        it.ctx.extremes = {}
    et = ExtremeTerm(str(c), kind, shape, snap, c)
    it.ctx.extremes[c.sexpr()] = et
    for d in shape:
        it.ctx.definedness(cmp(">", d, 0), "%s of a non-empty array" % kind)
    # attainment: the extreme is the value at some (Skolem) index inside the array
    w = [it.ctx.fresh_int("arg" + kind) for _ in shape]
    et.witness = w
    it.ctx.assumptions.append(z3.And(*[z3.And(wi >= 0, wi < zi(d)) for wi, d in zip(w, shape)]))
    it.ctx.assumptions.append(c == zr(snap(list(w))))
    return c


def extreme_bound(it, term, idx):
    """defining inequality of a max / min term instantiated at idx:  idx in bounds => max >= a[idx] (min <= a[idx])"""
    et = it.ctx.extremes[term.sexpr()]
    inb = z3.And(*[z3.And(zi(i) >= 0, zi(i) < zi(d)) for i, d in zip(idx, et.shape)])
    v = zr(et.snap(list(idx)))
    return z3.Implies(inb, et.const >= v if et.kind == "max" else et.const <= v)


def find_extremes(it, e):
    out, seen, stack = [], set(), [e]
    reg = getattr(it.ctx, "extremes", {})
    while stack:
        t = stack.pop()
        if not is_z3(t) or t.get_id() in seen:
            continue
        seen.add(t.get_id())
        if t.sexpr() in reg:
            out.append(t)
            continue
        stack.extend(t.children())
    return out


def extreme_cross_instances(it, terms, extra_idx=()):
    """bounds of every extreme term at the witnesses of all the others (and at extra indices) of matching rank"""
    out = []
    ets = [it.ctx.extremes[t.sexpr()] for t in terms]
    for t, et in zip(terms, ets):
        for other in ets:
            if len(other.witness) == len(et.shape):
                out.append(extreme_bound(it, t, other.witness))
        for idx in extra_idx:
            if len(idx) == len(et.shape):
                out.append(extreme_bound(it, t, idx))
    return out


# ----------------------------------------------------------------------------- array attributes / methods

def arr_attr(it, a, name):
    if name == "shape":
        return tuple(a.shape)
    if name == "ndim":
        return a.ndim
    if name == "size":
        return a.size()
    if name == "dtype":
        return DType(getattr(a.rootarr(), "np_dtype", None) or {"float": "float64", "int": "int64", "complex": "complex128", "bool": "bool"}[a.dtype])
    if name == "T":
        return transpose(it, a)
    if name == "real":
        if a.dtype != "complex":
            return a
        return a.view(list(a.shape), lambda idx: idx, lambda idx: (True, idx), dtype="float") if False else map1(it, a, s_real, "float")
    if name == "imag":
        return map1(it, a, s_imag, "float")
    return BoundMethod(a, name)


def transpose(it, a):
    n = a.ndim
    return a.view(list(reversed(a.shape)), lambda idx: list(reversed(idx)), lambda sidx: (True, list(reversed(sidx))))


def reshape(it, a, newshape):
    newshape = [as_dim(x) for x in newshape]
    # supported: adding / removing unit axes, flattening / unflattening with row-major index arithmetic
    old = list(a.shape)
    if -1 in [x for x in newshape if is_conc(x)]:
        known = 1
        for x in newshape:
            if not (is_conc(x) and x == -1):
                known = r_mul(known, x)
        newshape = [it.floordiv(a.size(), known) if (is_conc(x) and x == -1) else x for x in newshape]
    it.ctx.definedness(cmp("==", _prod(newshape), a.size()), "reshape keeps the number of elements")

    def strides(shape):
        st = []
        acc = 1
        for d in reversed(shape):
            st.append(acc)
            acc = r_mul(acc, d)
        return list(reversed(st))
    so, sn = strides(old), strides(newshape)
    core_old = [d for d in old if not (is_conc(d) and _num(d) == 1)]
    core_new = [d for d in newshape if not (is_conc(d) and _num(d) == 1)]
    if len(core_old) == len(core_new) and all(dim_eq(p, q) is True for p, q in zip(core_old, core_new)):
        pos_old = [k for k, d in enumerate(old) if not (is_conc(d) and _num(d) == 1)]
        pos_new = [k for k, d in enumerate(newshape) if not (is_conc(d) and _num(d) == 1)]

        def tob(idx):
            out = [0] * len(old)
            for po, pn in zip(pos_old, pos_new):
                out[po] = idx[pn]
            return out

        def fromb(sidx):
            out = [0] * len(newshape)
            for po, pn in zip(pos_old, pos_new):
                out[pn] = sidx[po]
            return True, out
        return a.view(newshape, tob, fromb)

    def lin(idx, st):
        acc = 0
        for i, s in zip(idx, st):
            acc = r_add(acc, r_mul(i, s))
        return acc

    def unlin(L, shape, st):
        out = []
        for d, s in zip(shape, st):
            q = it.floordiv(L, s) if not (is_conc(s) and _num(s) == 1) else L
            out.append(it.mod(q, d) if len(out) > 0 else q)
        return out
    # leading axes that are kept as they are (a stack reshaped per item: (B, H, W) -> (B, H*W)) are passed through, so that an item of the
    # reshaped stack has the same index term as the item reshaped alone; row-major order makes this the same map for indices in bounds
    p = 0
    while p < min(len(old), len(newshape)) - 0 and p < len(old) and p < len(newshape) and dim_eq(old[p], newshape[p]) is True:
        p += 1
    if p == len(old) or p == len(newshape):
        p = max(0, min(len(old), len(newshape)) - 1) if p > 0 else 0
    if p > 0:
        so_t, sn_t = strides(old[p:]), strides(newshape[p:])
        return a.view(newshape, lambda idx: list(idx[:p]) + unlin(lin(idx[p:], sn_t), old[p:], so_t),
                      lambda sidx: (True, list(sidx[:p]) + unlin(lin(sidx[p:], so_t), newshape[p:], sn_t)))
    return a.view(newshape, lambda idx: unlin(lin(idx, sn), old, so), lambda sidx: (True, unlin(lin(sidx, so), newshape, sn)))


def _prod(xs):
    p = 1
    for x in xs:
        p = r_mul(p, x)
    return p


def call_method(it, recv, name, args, kwargs):
    if hasattr(recv, "__aovc_method__"):
        r = recv.__aovc_method__(it, name, args, kwargs)
        if r is not NotImplemented:
            return r
    if isinstance(recv, Arr):
        return arr_method(it, recv, name, args, kwargs)
    if isinstance(recv, Masked):
        if name == "sum" and not args and not kwargs:
            f, ms = recv.f, recv.ms
            return sigma(it, [(0, d) for d in recv.shape_src], lambda idx: ite(ms(idx), f(idx), 0), "msum")
        raise Unsupported("method %s on a boolean-mask selection" % name)
    if isinstance(recv, list):
        if name == "append" and getattr(it.ctx, "generic", None) is not None:
            from . import loopsum
            scope = it.ctx.generic
            top = scope
            while top.parent is not None:
                top = top.parent
            if id(recv) in getattr(top, "outer_lists", ()):
                kv = [sp.k for sp in scope.vars()]
                val = args[0]
                if any(l is recv for (l, _, _) in getattr(top, "appends", [])):
                    raise Unsupported("several appends to one list inside a loop summary")
                if not hasattr(top, "appends"):
                    top.appends = []
                if scope is not top:
                    top.append_spaces = scope.vars()
                top.appends.append((recv, (lambda K, val=val, kv=kv: loopsum.subst_value(val, kv, K)), scope.guard()))
                top.append_scope = scope
                return None
        if name == "append":
            recv.append(args[0])
            return None
        if name == "extend":
            recv.extend(list(args[0]))
            return None
        if name == "copy":
            return list(recv)
    if isinstance(recv, dict):
        if name == "get":
            return recv.get(args[0], args[1] if len(args) > 1 else None)
        if name == "keys":
            return list(recv.keys())
    if isinstance(recv, str):
        if name == "format":
            return "<str>"
        if name in ("upper", "lower") and not args:
            return getattr(recv, name)()
    if is_scalar(recv):
        if name == "mean" and not args:
            return recv
        if name == "sum" and not args:
            return recv
        if name == "conjugate" or name == "conj":
            return s_conj(recv)
        if name == "item":
            return recv
    raise Unsupported("method %s on %s" % (name, type(recv).__name__))


def arr_method(it, a, name, args, kwargs):
    if name == "sum":
        axis = args[0] if args else kwargs.get("axis")
        if axis is None and getattr(a, "sum_override", None) is not None:
            return a.sum_override         # contract-level abstraction: the sum of a 0/1 mask is its number of ones (an integer symbol)
        return arr_sum(it, a, axis)
    if name == "mean":
        axis = args[0] if args else kwargs.get("axis")
        s = arr_sum(it, a, axis)
        if axis is None:
            n = a.size()
        else:
            axes = axis if isinstance(axis, (tuple, list)) else [axis]
            n = _prod([a.shape[norm_axis(x, a.ndim)] for x in axes])
        return it.binop("Div", s, n)
    if name in ("max", "min"):
        axis = args[0] if args else kwargs.get("axis")
        if isinstance(axis, (tuple, list)):
            cur = a
            for ax in sorted([norm_axis(x, a.ndim) for x in axis], reverse=True):
                cur = arr_extreme(it, cur, name, ax)
                if not isinstance(cur, Arr):
                    return cur
            return cur
        return arr_extreme(it, a, name, axis)
    if name == "copy":
        return a.frozen()
    if name == "astype":
        return astype(it, a, args[0] if args else kwargs["dtype"])
    if name == "flatten":
        return reshape(it, a, [a.size()]).frozen()
    if name == "ravel":
        return reshape(it, a, [a.size()])
    if name == "reshape":
        shp = args[0] if len(args) == 1 and isinstance(args[0], (tuple, list)) else list(args)
        return reshape(it, a, list(shp))
    if name == "transpose" and not args:
        return transpose(it, a)
    if name == "dot":
        return dot(it, a, args[0])
    if name == "conj" or name == "conjugate":
        return map1(it, a, s_conj)
    if name == "clip":
        lo, hi = args[0], args[1]
        out = kwargs.get("out")
        res = map1(it, a, lambda x: ite(cmp("<", x, lo), lo, ite(cmp(">", x, hi), hi, x)))
        if out is not None:
            snap = res.snapshot()
            out.write(lambda idx: True, snap, it.ctx, "clip(out=)")
            return out
        return res
    if name == "all":
        raise Unsupported("ndarray.all on a symbolic array")
    if name == "var" or name == "std":
        axis = args[0] if args else kwargs.get("axis")
        if kwargs.get("ddof", 0) != 0:
            raise Unsupported("var/std with ddof")
        m = arr_method(it, a, "mean", [axis] if axis is not None else [], {})
        if axis is None:
            dev = map1(it, a, lambda x: s_abs2(s_sub(x, m)), "float")
        else:
            ax = norm_axis(axis, a.ndim)
            ms = m.snapshot() if isinstance(m, Arr) else None
            snap = a.snapshot()
            dev = Arr(list(a.shape), lambda idx: s_abs2(s_sub(snap(idx), ms(list(idx[:ax]) + list(idx[ax + 1:])) if ms is not None else m)), "float")
        v = arr_method(it, dev, "mean", [axis] if axis is not None else [], {})
        if name == "var":
            return v
        return map1(it, v, lambda x: r_sqrt(x, it.ctx), "float") if isinstance(v, Arr) else r_sqrt(v, it.ctx)
    if name == "view":
        return BitView(a, args[0])
    if name == "fill":
        v = args[0]
        a.write(lambda idx: True, lambda idx: v, it.ctx, "fill")
        return None
    if name == "item" and a.ndim == 0:
        return a.get([])
    raise Unsupported("ndarray.%s" % name)


class BitView:
    """array.view(<other dtype>): only the float32<->int32 round trip used by mirror_covariance_matrix"""
    def __init__(self, a, dt):
        self.a = a
        self.dt = dt

    def __aovc_attr__(self, it, name):
        if name == "T":
            return BitView(transpose(it, self.a), self.dt)
        return BoundMethod(self, name)

    def __aovc_method__(self, it, name, args, kwargs):
        if name == "view":
            return self.a
        return NotImplemented


def dot(it, a, b):
    from . import matalg
    if isinstance(a, matalg.Mat) or isinstance(b, matalg.Mat) or getattr(a, "mat", None) is not None or getattr(b, "mat", None) is not None:
        return matalg.dot(it, a, b)
    A, B = as_arr(it, a), as_arr(it, b)
    sa, sb = A.snapshot(), B.snapshot()
    if A.ndim == 2 and B.ndim == 1:
        it.ctx.definedness(cmp("==", A.shape[1], B.shape[0]), "dot: inner dimensions agree")
        return memo_arr([A.shape[0]], lambda idx: sigma(it, [(0, A.shape[1])], lambda k: s_mul(sa([idx[0], k[0]]), sb([k[0]])), "dot"), "float")
    if A.ndim == 2 and B.ndim == 2:
        it.ctx.definedness(cmp("==", A.shape[1], B.shape[0]), "dot: inner dimensions agree")
        return memo_arr([A.shape[0], B.shape[1]], lambda idx: sigma(it, [(0, A.shape[1])], lambda k: s_mul(sa([idx[0], k[0]]), sb([k[0], idx[1]])), "dot"), "float")
    if A.ndim == 1 and B.ndim == 1:
        it.ctx.definedness(cmp("==", A.shape[0], B.shape[0]), "dot: lengths agree")
        return sigma(it, [(0, A.shape[0])], lambda k: s_mul(sa([k[0]]), sb([k[0]])), "dot")
    raise Unsupported("dot of ranks %d, %d" % (A.ndim, B.ndim))


# ----------------------------------------------------------------------------- builtins

def call_builtin(it, name, args, kwargs):
    if name == "range":
        a = [as_intval(x) for x in args]
        if all(is_conc(x) for x in a):
            return range(*[int(x) for x in a])
        if len(a) == 1:
            return SymRange(0, a[0], 1)
        if len(a) == 2:
            return SymRange(a[0], a[1], 1)
        return SymRange(a[0], a[1], a[2])
    if name == "len":
        x = args[0]
        if isinstance(x, (list, tuple, dict, str, range)):
            return len(x)
        if isinstance(x, Arr):
            if x.ndim == 0:
                raise PyException("TypeError", "len() of unsized object")
            return x.shape[0]
        if hasattr(x, "__aovc_len__"):
            return x.__aovc_len__(it)
        if is_scalar(x):
            raise PyException("TypeError", "object of type 'int' has no len()")
        raise Unsupported("len of %s" % type(x).__name__)
    if name == "int":
        x = args[0]
        if isinstance(x, Arr) and x.ndim == 0:
            x = x.get([])
        if isinstance(x, (Cx, Polar)):
            raise PyException("TypeError", "int() of complex")
        return r_trunc(x)
    if name == "float":
        x = args[0]
        if isinstance(x, Arr):
            if x.ndim == 0:
                return x.get([])
            raise PyException("TypeError", "only 0-dimensional arrays can be converted to Python scalars")
        if isinstance(x, (Cx, Polar)):
            raise PyException("TypeError", "float() of complex")
        if isinstance(x, str):
            raise Unsupported("float(str)")
        return x if not isinstance(x, bool) else int(x)
    if name == "complex":
        return to_cx(args[0])
    if name == "abs":
        x = args[0]
        if isinstance(x, Arr):
            return map1(it, x, lambda v: s_abs(v, it.ctx), "float")
        if hasattr(x, "__aovc_abs__"):
            return x.__aovc_abs__(it)
        if is_z3(x) and z3.is_arith(x):
            # scalar abs: split the path on the sign (keeps the terms polynomial for the solver)
            return x if it.ctx.branch(x >= 0) else -x
        return s_abs(x, it.ctx)
    if name == "round":
        if len(args) == 1:
            return r_round_half_even(args[0])
        raise Unsupported("round with ndigits")
    if name == "enumerate":
        return Enumerate(args[0])
    if name == "slice":
        if len(args) == 1:
            return slice(None, args[0], None)
        if len(args) in (2, 3):
            return slice(*args)
        raise PyException("TypeError", "slice expected at most 3 arguments")
    if name == "zip":
        return Zip(args)
    if name in ("min", "max"):
        xs = list(args[0]) if len(args) == 1 and isinstance(args[0], (list, tuple)) else list(args)
        r = xs[0]
        for v in xs[1:]:
            r = ite(cmp("<=" if name == "min" else ">=", r, v), r, v)
        return r
    if name == "sum":
        xs = args[0]
        if isinstance(xs, (list, tuple)):
            acc = args[1] if len(args) > 1 else 0
            for v in xs:
                acc = it.binop("Add", acc, v)
            return acc
        raise Unsupported("sum over %s" % type(xs).__name__)
    if name == "str":
        return "<str>"
    if name == "bool":
        return it.truth(args[0])
    if name == "list":
        if not args:
            return []
        return list(it.concrete_iter(args[0]))
    if name == "tuple":
        return tuple(it.concrete_iter(args[0]))
    if name == "isinstance":
        raise Unsupported("isinstance")
    if name == "print":
        return None
    raise Unsupported("builtin %s" % name)


def as_intval(x):
    if is_conc(x):
        f = Fraction(_num(x))
        if f.denominator != 1:
            raise PyException("TypeError", "'float' object cannot be interpreted as an integer")
        return int(f)
    if is_z3(x):
        if z3.is_int(x):
            return x
        raise PyException("TypeError", "'float' object cannot be interpreted as an integer")
    if isinstance(x, Arr) and x.ndim == 0:
        return as_intval(x.get([]))
    raise Unsupported("integer argument %r" % (x,))


class Enumerate:
    def __init__(self, inner):
        self.inner = inner


class Zip:
    def __init__(self, inners):
        self.inners = inners


# ----------------------------------------------------------------------------- numpy / scipy calls

def call_ext(it, dotted, args, kwargs):
    fn = EXT.get(dotted)
    if fn is None:
        raise Unsupported("library call %s" % dotted)
    it.ctx.trusted_calls.add(dotted)
    return fn(it, *args, **kwargs)


EXT = {}


def ext(*names):
    def deco(f):
        for n in names:
            EXT[n] = f
        return f
    return deco


@ext("numpy.zeros", "numpy.ones", "numpy.empty")
def _zeros(it, shape, dtype=None, **kw):
    raise RuntimeError("replaced below")


def _mk_filled(kind):
    def f(it, shape, dtype=None, **kw):
        shp = shape_arg(it, shape)
        for d in shp:
            it.ctx.definedness(cmp(">=", d, 0), "non-negative dimension")
        dt = dtype_name(dtype) or "float"
        if kind == "empty":
            # uninitialised memory: unconstrained elements
            n = len(shp)
            if n == 0:
                return Arr([], lambda idx: 0, dt)
            name = fresh_name("uninit")
            return sym_arr(name, shp, dt if dt != "bool" else "float")
        v = 0 if kind == "zeros" else 1
        if dt == "complex":
            v = Cx(v, 0)
        return const_arr(shp, v, dt)
    return f


EXT["numpy.zeros"] = _mk_filled("zeros")
EXT["numpy.ones"] = _mk_filled("ones")
EXT["numpy.empty"] = _mk_filled("empty")


@ext("numpy.array")
def _array(it, x, dtype=None, **kw):
    return array(it, x, dtype)


@ext("numpy.asarray", "numpy.asanyarray")
def _asarray(it, x, dtype=None, **kw):
    dt = dtype_name(dtype) if dtype is not None else None
    if hasattr(x, "__aovc_asarray__"):
        return x.__aovc_asarray__(it, dt)
    if isinstance(x, Arr) and (dt is None or dt == x.dtype):
        return x                      # no copy: the same array object
    return array(it, x, dtype)


@ext("numpy.isclose")
def _isclose(it, a, b, rtol=Fraction(1, 10**5), atol=Fraction(1, 10**8), **kw):
    return map2(it, a, b, lambda x, y: cmp("<=", r_abs(r_sub(x, y)), r_add(atol, r_mul(rtol, r_abs(y)))), "bool") if (isinstance(a, Arr) or isinstance(b, Arr)) \
        else cmp("<=", r_abs(r_sub(a, b)), r_add(atol, r_mul(rtol, r_abs(b))))


@ext("numpy.arange")
def _arange(it, *a, dtype=None):
    a = [x.get([]) if isinstance(x, Arr) and x.ndim == 0 else x for x in a]
    if len(a) == 1:
        start, stop, step = 0, a[0], 1
    elif len(a) == 2:
        start, stop, step = a[0], a[1], 1
    else:
        start, stop, step = a
    intlike = all(is_int_valued(x) for x in (start, stop, step))
    if is_conc(step) and _num(step) == 0:
        raise PyException("ZeroDivisionError", "arange step 0")
    if intlike:
        diff = r_sub(stop, start)
        if is_conc(step) and _num(step) == 1:
            n = diff
        else:
            it.ctx.definedness(cmp(">", step, 0), "arange: positive step (modelled case)")
            n = it.floordiv(r_add(diff, r_sub(step, 1)), step)
        d = it.ctx.decide(cmp(">=", n, 0))
        if d is not True:
            n = ite(cmp(">=", n, 0), n, 0)
        return Arr([n], lambda idx: r_add(start, r_mul(idx[0], step)), "int")
    # real arguments: length ceil((stop-start)/step) in exact arithmetic (A-REAL; float length site recorded)
    it.ctx.notes.append("float-arange length at line %d computed in real arithmetic" % it.ctx.lineno)
    q = r_div(r_sub(stop, start), step, it.ctx)
    if is_conc(q):
        fq = Fraction(q)
        n = max(0, -((-fq.numerator) // fq.denominator))
    else:
        fl = z3.ToInt(zr(q))
        n = z3.If(z3.ToReal(fl) == zr(q), fl, fl + 1)
        n = z3.If(n >= 0, n, 0)
        n = simp(n)
    return Arr([n], lambda idx: r_add(start, r_mul(idx[0], step)), "float")


@ext("numpy.linspace")
def _linspace(it, start, stop, num=50, endpoint=True, dtype=None, **kw):
    num = as_intval(num)
    it.ctx.definedness(cmp(">=", num, 0), "linspace: non-negative count")
    if endpoint is True:
        one = it.ctx.branch(cmp("==", num, 1)) if not is_conc(num) else (num == 1)
        if one:
            f = lambda idx: start
        else:
            den = r_sub(num, 1)
            f = lambda idx: r_add(start, r_div(r_mul(idx[0], r_sub(stop, start)), den, None))
    else:
        f = lambda idx: r_add(start, r_div(r_mul(idx[0], r_sub(stop, start)), num, None))
    dt = dtype_name(dtype) or "float"
    if dt == "int":
        g = f
        f = lambda idx: r_trunc(g(idx))
    return Arr([num], f, dt)


@ext("numpy.meshgrid")
def _meshgrid(it, x, y, **kw):
    if kw.get("indexing", "xy") != "xy":
        raise Unsupported("meshgrid indexing")
    X, Y = as_arr(it, x), as_arr(it, y)
    if X.ndim != 1 or Y.ndim != 1:
        raise Unsupported("meshgrid of non-1d")
    sx, sy = X.snapshot(), Y.snapshot()
    shape = [Y.shape[0], X.shape[0]]
    return (Arr(shape, lambda idx: sx([idx[1]]), X.dtype), Arr(list(shape), lambda idx: sy([idx[0]]), Y.dtype))


@ext("numpy.indices")
def _indices(it, dims, **kw):
    shp = shape_arg(it, dims)
    n = len(shp)

    def f(idx):
        k = idx[0]
        if is_conc(k):
            return idx[1 + int(k)]
        r = idx[n]
        for j in range(n - 2, -1, -1):
            r = ite(cmp("==", k, j), idx[1 + j], r)
        return r
    return Arr([n] + shp, f, "int")


def _elementwise(name, fn, dtype=None):
    def f(it, x, *rest, **kw):
        if kw.get("out") is not None or rest:
            raise Unsupported("%s with out= / extra args" % name)
        if isinstance(x, (list, tuple)):
            x = array(it, x)
        if hasattr(x, "__aovc_ufunc__"):
            return x.__aovc_ufunc__(it, name)
        if isinstance(x, Arr):
            return map1(it, x, lambda v: fn(it, v), dtype)
        return fn(it, x)
    return f


def uf1(name):
    return lambda it, v: _uf_real(it, name, v)


def _uf_real(it, name, v):
    from .logmono import LogVal
    if isinstance(v, LogVal):
        if name == "log10":
            return v.L
        raise Unsupported("%s of a log-monomial" % name)
    if isinstance(v, (Cx, Polar)):
        raise Unsupported("%s of complex" % name)
    return UF(name)(zr(v))


EXT["numpy.sqrt"] = _elementwise("sqrt", lambda it, v: r_sqrt(v, it.ctx) if not isinstance(v, (Cx, Polar)) else s_pow(v, Fraction(1, 2), it.ctx), "float")
EXT["numpy.exp"] = _elementwise("exp", lambda it, v: s_exp(v, it.ctx))
EXT["numpy.abs"] = _elementwise("abs", lambda it, v: s_abs(v, it.ctx), "float")
EXT["numpy.absolute"] = EXT["numpy.abs"]
EXT["numpy.cos"] = _elementwise("cos", uf1("cos"), "float")
EXT["numpy.sin"] = _elementwise("sin", uf1("sin"), "float")
EXT["numpy.log10"] = _elementwise("log10", uf1("log10"), "float")
EXT["numpy.log"] = _elementwise("log", uf1("log"), "float")
EXT["numpy.conjugate"] = _elementwise("conj", lambda it, v: s_conj(v))
EXT["numpy.conj"] = EXT["numpy.conjugate"]
EXT["numpy.real"] = _elementwise("real", lambda it, v: s_real(v), "float")
EXT["numpy.imag"] = _elementwise("imag", lambda it, v: s_imag(v), "float")
EXT["numpy.square"] = _elementwise("square", lambda it, v: s_mul(v, v))
EXT["scipy.special.gamma"] = _elementwise("gamma", uf1("gamma"), "float")
EXT["numpy.float32"] = _elementwise("float32", lambda it, v: v if not isinstance(v, (Cx, Polar)) else (_ for _ in ()).throw(PyException("TypeError", "float32 of complex")), "float")
EXT["numpy.float64"] = EXT["numpy.float32"]
EXT["numpy.float"] = EXT["numpy.float32"]
EXT["numpy.int32"] = _elementwise("int32", lambda it, v: r_trunc(v), "int")
EXT["numpy.int64"] = EXT["numpy.int32"]


@ext("numpy.round", "numpy.around", "numpy.rint")
def _round(it, x, decimals=0):
    if not (is_conc(decimals) and decimals == 0):
        raise Unsupported("round with decimals")
    if isinstance(x, Arr):
        return map1(it, x, lambda v: r_round_half_even(v), "float")
    return r_round_half_even(x)


@ext("scipy.special.kv")
def _kv(it, nu, x):
    f = UF("kv", 2)
    if isinstance(x, Arr):
        return map1(it, x, lambda v: f(zr(nu), zr(v)), "float")
    return f(zr(nu), zr(x))


@ext("numpy.arctan2")
def _arctan2(it, y, x):
    f = UF("arctan2", 2)
    return map2(it, y, x, lambda a, b: f(zr(a), zr(b)), "float")


@ext("numpy.less_equal")
def _le(it, a, b):
    return map2(it, a, b, lambda x, y: cmp("<=", x, y), "bool")


@ext("numpy.fmod")
def _fmod(it, a, b):
    if is_conc(a) and is_conc(b):
        import math
        fa, fb = Fraction(_num(a)), Fraction(_num(b))
        q = abs(fa) // abs(fb)
        r = abs(fa) - q * abs(fb)
        return r if fa >= 0 else -r
    raise Unsupported("fmod of symbolic values")


@ext("numpy.where")
def _where(it, c, *rest):
    if len(rest) == 2:
        x, y = rest
        C = as_arr(it, c)
        X, Y = (as_arr(it, x) if not is_scalar(x) else x), (as_arr(it, y) if not is_scalar(y) else y)
        t = map2(it, C, X, lambda cc, xx: (cc, xx), "float")
        # three-way broadcast
        shape1, m1, m2 = broadcast_shapes(it.ctx, C.shape, as_arr(it, X).shape)
        tmp = const_arr(shape1, 0)
        shape, ma, mb = broadcast_shapes(it.ctx, shape1, as_arr(it, Y).shape)
        cs, xs, ys = C.snapshot(), as_arr(it, X).snapshot(), as_arr(it, Y).snapshot()
        dt = join_dtype(as_arr(it, X).dtype, as_arr(it, Y).dtype)
        return Arr(shape, lambda idx: ite(it.truth(cs(m1(ma(idx)))), xs(m2(ma(idx))), ys(mb(idx))), dt)
    if rest:
        raise PyException("ValueError", "either both or neither of x and y should be given")
    return WhereResult(it, as_arr(it, c))


class WhereResult:
    """numpy.where(cond): the coordinates of the true cells in row-major order (count unknown).
    rank(idx) = number of true cells strictly before idx in row-major order (ghost)."""

    def __init__(self, it, cond):
        import hashlib
        self.cond = cond.frozen()
        nd = cond.ndim
        # the enumeration is a function of the condition array's content: equal conditions give the same enumeration symbols
        cidx = [z3.Int("wh!%d" % k) for k in range(nd)]
        ce = self.cond.get(cidx)
        ctxt = (z3.simplify(ce).sexpr() if is_z3(ce) else repr(ce)) + "|" + "|".join(z3.simplify(zi(d)).sexpr() if is_z3(d) else str(d) for d in cond.shape)
        h = hashlib.sha256(ctxt.encode()).hexdigest()[:10]
        self.key = h
        self.n = z3.Int("nnz_%s" % h)
        it.ctx.assume(self.n >= 0)
        self.coord = [z3.Function("where_%s_ax%d" % (h, k), z3.IntSort(), z3.IntSort()) for k in range(nd)]
        self.rank = z3.Function("where_%s_rank" % h, *([z3.IntSort()] * nd + [z3.IntSort()]))
        if not hasattr(it.ctx, "wheres"):
            it.ctx.wheres = []
        it.ctx.wheres.append(self)

    def axis(self, k):
        return WhereAxis(self, k)

    def __aovc_getitem__(self, it, key):
        if is_conc(key):
            return self.axis(int(key) % len(self.coord))
        raise Unsupported("where() result subscript")

    def __aovc_len__(self, it):
        return len(self.coord)

    def __aovc_array__(self, it, dt):
        nd = len(self.coord)
        coord = self.coord

        def f(idx):
            k = idx[0]
            if is_conc(k):
                return coord[int(k)](zi(idx[1]))
            r = coord[nd - 1](zi(idx[1]))
            for j in range(nd - 2, -1, -1):
                r = ite(cmp("==", k, j), coord[j](zi(idx[1])), r)
            return r
        a = Arr([nd, self.n], f, "int")
        a.where_src = self
        return a

    def axioms_for(self, p):
        """instances of the enumeration contract for the enumeration position p (an Int term)"""
        cs = self.cond.snapshot()
        idx = [c(p) for c in self.coord]
        inb = self.cond.in_bounds(idx)
        return z3.Implies(z3.And(p >= 0, p < self.n), z3.And(z(inb), z(cs(idx)), self.rank(*idx) == p))

    def axioms_cell(self, idx):
        """instances for a cell idx (list of Int terms): a true cell is enumerated at its rank"""
        cs = self.cond.snapshot()
        r = self.rank(*[zi(i) for i in idx])
        inb = self.cond.in_bounds(idx)
        conds = [z3.Implies(z(inb), z3.And(r >= 0, r <= self.n))]
        conds.append(z3.Implies(z3.And(z(inb), z(cs(idx))), z3.And(r < self.n, *[c(r) == zi(i) for c, i in zip(self.coord, idx)])))
        return z3.And(*conds)


class WhereAxis:
    def __init__(self, w, k):
        self.w = w
        self.k = k

    def __aovc_where_axis__(self):
        return (self.w, self.k)

    def __aovc_index__(self, it):
        c = self.w.coord[self.k]
        return Arr([self.w.n], lambda idx: c(zi(idx[0])), "int")


@ext("numpy.sum")
def _npsum(it, a, axis=None, **kw):
    if hasattr(a, "__aovc_method__"):
        return a.__aovc_method__(it, "sum", [axis] if axis is not None else [], {})
    if is_scalar(a):
        return a
    return arr_sum(it, as_arr(it, a), axis)


@ext("numpy.mean")
def _npmean(it, a, axis=None, **kw):
    return arr_method(it, as_arr(it, a), "mean", [axis] if axis is not None else [], {})


@ext("numpy.max", "numpy.amax")
def _npmax(it, a, axis=None, **kw):
    if isinstance(a, (tuple, list)) and all(is_scalar(x) for x in a):
        return call_builtin(it, "max", [list(a)], {})
    return arr_method(it, as_arr(it, a), "max", [axis] if axis is not None else [], {})


@ext("numpy.min", "numpy.amin")
def _npmin(it, a, axis=None, **kw):
    if isinstance(a, (tuple, list)) and all(is_scalar(x) for x in a):
        return call_builtin(it, "min", [list(a)], {})
    return arr_method(it, as_arr(it, a), "min", [axis] if axis is not None else [], {})


@ext("numpy.maximum")
def _maximum(it, a, b):
    if isinstance(b, SymList):
        b = b.items[0] if len(b.items) == 1 else (_ for _ in ()).throw(Unsupported("symbolic list"))
    return map2(it, a, b, lambda x, y: ite(cmp(">=", x, y), x, y))


@ext("numpy.minimum")
def _minimum(it, a, b):
    return map2(it, a, b, lambda x, y: ite(cmp("<=", x, y), x, y))


@ext("numpy.append")
def _append(it, a, b, axis=None):
    A, B = as_arr(it, a), as_arr(it, b)
    if axis is None:
        A = reshape(it, A, [A.size()]) if A.ndim != 1 else A
        B = reshape(it, B, [B.size()]) if B.ndim != 1 else B
        ax = 0
    else:
        ax = norm_axis(axis, A.ndim)
        if A.ndim != B.ndim:
            raise PyException("ValueError", "all the input arrays must have same number of dimensions")
        for k in range(A.ndim):
            if k != ax and dim_eq(A.shape[k], B.shape[k]) is not True:
                it.ctx.definedness(cmp("==", A.shape[k], B.shape[k]), "append: dimensions agree off the axis")
    sa, sb = A.snapshot(), B.snapshot()
    na = A.shape[ax]
    shape = list(A.shape)
    shape[ax] = r_add(na, B.shape[ax])

    def f(idx):
        i = idx[ax]
        j = list(idx)
        j[ax] = r_sub(i, na)
        if is_conc(i) and is_conc(na):
            return sa(idx) if int(i) < int(na) else sb(j)
        return ite(cmp("<", i, na), sa(idx), sb(j))
    return Arr(shape, f, join_dtype(A.dtype, B.dtype))


@ext("numpy.flipud")
def _flipud(it, a):
    A = as_arr(it, a)
    n = A.shape[0]
    return A.view(list(A.shape), lambda idx: [r_sub(r_sub(n, 1), idx[0])] + list(idx[1:]),
                  lambda s: (True, [r_sub(r_sub(n, 1), s[0])] + list(s[1:])))


@ext("numpy.fliplr")
def _fliplr(it, a):
    A = as_arr(it, a)
    if A.ndim < 2:
        raise PyException("ValueError", "Input must be >= 2-d.")
    n = A.shape[1]
    return A.view(list(A.shape), lambda idx: [idx[0], r_sub(r_sub(n, 1), idx[1])] + list(idx[2:]),
                  lambda s: (True, [s[0], r_sub(r_sub(n, 1), s[1])] + list(s[2:])))


@ext("numpy.identity", "numpy.eye")
def _identity(it, n, **kw):
    n = as_dim(n)
    a = Arr([n, n], lambda idx: ite(cmp("==", idx[0], idx[1]), 1, 0), "float")
    a.is_identity = True
    return a


@ext("numpy.fill_diagonal")
def _fill_diagonal(it, a, v):
    from . import matalg
    if isinstance(v, matalg.SvdValues):
        if not v.root:
            raise Unsupported("singular values placed on a diagonal without sqrt")
        if not (isinstance(a, Arr) and a.root is None and a.writes == 0 and is_conc(a.get([z3.Int("fd!i"), z3.Int("fd!j")])) and _num(a.get([z3.Int("fd!i"), z3.Int("fd!j")])) == 0):
            raise Unsupported("fill_diagonal with singular values into a non-zero array")
        it.ctx.on_array_write(a.rootarr(), "fill_diagonal")
        a.mat = matalg.Mat(it, {((v.lname, False),): 1}, list(a.shape))
        return None
    V = as_arr(it, v) if not is_scalar(v) else None
    if V is None:
        a.write(lambda idx: cmp("==", idx[0], idx[1]), lambda idx: v, it.ctx, "fill_diagonal")
    else:
        vs = V.snapshot()
        a.write(lambda idx: cmp("==", idx[0], idx[1]), lambda idx: vs([idx[0]]), it.ctx, "fill_diagonal")
    return None


@ext("numpy.dot")
def _npdot(it, a, b):
    return dot(it, a, b)


@ext("numpy.bitwise_or")
def _bitwise_or(it, a, b):
    if isinstance(a, BitView) and isinstance(b, BitView):
        # float32 bit patterns: x|x = x, x|(+0.0) = x ; anything else is unspecified (fresh)
        A, B = a.a, b.a
        sa, sb = A.snapshot(), B.snapshot()
        junk = z3.Function("float32_bitwise_or", z3.RealSort(), z3.RealSort(), z3.RealSort())    # a deterministic function of the two bit patterns

        def f(idx):
            x, y = sa(idx), sb(idx)
            return ite(cmp("==", y, 0), x, ite(cmp("==", x, 0), y, ite(cmp("==", x, y), x, junk(zr(x), zr(y)))))
        return BitView(Arr(list(A.shape), f, "float"), a.dt)
    raise Unsupported("bitwise_or")


@ext("numpy.hstack")
def _hstack(it, xs):
    xs = list(xs)
    r = as_arr(it, xs[0])
    for x in xs[1:]:
        r = _append(it, r, x, axis=0 if r.ndim == 1 else 1)
    return r


EXT["numpy.floor"] = _elementwise("floor", lambda it, v: r_floor(v), "float")
EXT["numpy.ceil"] = _elementwise("ceil", lambda it, v: r_neg(r_floor(r_neg(v))), "float")
EXT["numpy.trunc"] = _elementwise("trunc", lambda it, v: r_trunc(v), "float")


# ----------------------------------------------------------------------------- numpy.fft
def _fft_shift(sign):
    def f(it, x, axes=None):
        from . import opword
        if isinstance(x, opword.Lin):
            return opword.shift(it, x, axes, sign)
        A = as_arr(it, x)
        axs = opword._axes(axes, A.ndim, list(range(A.ndim)))
        cur = A
        for ax in axs:
            n = cur.shape[ax]
            h = it.floordiv(n, 2)
            s = h if sign > 0 else r_neg(h)
            snap = cur.snapshot()

            def g(idx, snap=snap, ax=ax, n=n, s=s):
                j = list(idx)
                j[ax] = it.mod(r_sub(idx[ax], s), n)
                return snap(j)
            cur = Arr(list(cur.shape), g, cur.dtype)
        return cur
    return f


EXT["numpy.fft.fftshift"] = _fft_shift(+1)
EXT["numpy.fft.ifftshift"] = _fft_shift(-1)


def _fft_call(kind, default_axes):
    def f(it, x, *args, **kw):
        from . import opword
        n = kw.get("n", args[0] if (args and kind in ("fft", "ifft")) else None)
        s = kw.get("s", args[0] if (args and kind not in ("fft", "ifft")) else None)
        if kind in ("fft", "ifft"):
            axis = kw.get("axis", args[1] if len(args) > 1 else -1)
            axes = [axis]
        else:
            axes = kw.get("axes", args[1] if len(args) > 1 else default_axes)
        base = "fft" if kind in ("fft", "fft2") else "ifft"
        if isinstance(x, opword.Lin):
            return opword.transform(it, x, base, opword._axes(axes, x.ndim, default_axes), n, s)
        A = as_arr(it, x)
        return abstract_fft(it, A, base, opword._axes(axes, A.ndim, default_axes), n, s)
    return f


def abstract_fft(it, A, base, axes, n, s):
    """DFT of a functional array: an opaque array determined by (input, transformed axes, lengths): equal inputs, axes and
    lengths give the same uninterpreted elements (congruence); no other law is assumed here"""
    lens = []
    shape = list(A.shape)
    if n is not None:
        lens = [as_dim(n)]
    elif s is not None:
        lens = [as_dim(v) for v in s]
    for k, ax in enumerate(axes):
        if lens:
            shape[ax] = lens[k]
    tag = "%s_ax%s" % (base, "_".join(str(a) for a in axes))
    src = A.label if A.root is None and A.writes == 0 else fresh_name(A.label)
    nd = len(shape)
    extra = [zi(v) for v in lens]
    fr = z3.Function("%s.re[%s]" % (tag, src), *([z3.IntSort()] * (nd + len(extra)) + [z3.RealSort()]))
    fi = z3.Function("%s.im[%s]" % (tag, src), *([z3.IntSort()] * (nd + len(extra)) + [z3.RealSort()]))
    res = Arr(shape, lambda idx: Cx(fr(*([zi(i) for i in idx] + extra)), fi(*([zi(i) for i in idx] + extra))), "complex")
    res.fft_of = (A, base, axes, lens)
    return res


EXT["numpy.fft.fft"] = _fft_call("fft", [-1])
EXT["numpy.fft.ifft"] = _fft_call("ifft", [-1])
EXT["numpy.fft.fft2"] = _fft_call("fft2", [-2, -1])
EXT["numpy.fft.ifft2"] = _fft_call("ifft2", [-2, -1])


@ext("numpy.fft.fftfreq")
def _fftfreq(it, n, d=1):
    n = as_dim(n)
    it.ctx.definedness(cmp(">", n, 0), "fftfreq: n > 0")
    half = it.floordiv(r_sub(n, 1), 2)

    def f(idx):
        k = idx[0]
        return ite(cmp("<=", k, half), r_div(k, r_mul(n, d), it.ctx), r_div(r_sub(k, n), r_mul(n, d), it.ctx))
    return Arr([n], f, "float")


@ext("math.factorial")
def _factorial(it, x):
    if is_conc(x):
        import math
        f = Fraction(_num(x))
        if f.denominator != 1 or f < 0:
            raise PyException("ValueError", "factorial() only accepts integral non-negative values")
        return math.factorial(int(f))
    if not (is_z3(x) and z3.is_int(x)):
        raise PyException("TypeError", "'float' object cannot be interpreted as an integer")
    it.ctx.definedness(x >= 0, "factorial of a non-negative integer")
    return z3.Function("fact", z3.IntSort(), z3.IntSort())(x)


# ----------------------------------------------------------------------------- scipy.interpolate.RectBivariateSpline
class SplineObj:
    """RectBivariateSpline(x, y, z, kx, ky, s=0): the interpolating tensor-product spline of degrees (kx, ky) through z on the grid x * y.
    Library contract (A-NP): S(x[i], y[j]) = z[i, j] at every node; polynomials of degree <= k are reproduced (not used as a rule here:
    it is a property of the operator S itself).  S is an uninterpreted function keyed by (nodes, data, degrees)."""

    def __init__(self, it, x, y, zarr, kx, ky):
        import hashlib
        self.x, self.y = as_arr(it, x), as_arr(it, y)
        Z = as_arr(it, zarr)
        if Z.dtype == "complex":
            it.ctx.notes.append("RectBivariateSpline given complex data: NumPy casts to float and discards the imaginary part (ComplexWarning)")
            Z = map1(it, Z, s_real, "float")
        self.z = Z.frozen()
        self.kx, self.ky = kx, ky
        if not (is_conc(kx) and is_conc(ky)):
            raise Unsupported("symbolic spline degree")
        it.ctx.definedness(b_and(cmp("==", self.x.shape[0], self.z.shape[0]), cmp("==", self.y.shape[0], self.z.shape[1])), "RectBivariateSpline: x, y lengths match z.shape")
        ci, cj = z3.Int("sp!i"), z3.Int("sp!j")
        key = "|".join([str(kx), str(ky), z3.simplify(zr(self.x.get([ci]))).sexpr(), z3.simplify(zr(self.y.get([cj]))).sexpr(), z3.simplify(zr(self.z.get([ci, cj]))).sexpr(),
                        str(self.z.shape)])
        self.key = hashlib.sha256(key.encode()).hexdigest()[:10]
        self.S = z3.Function("spline_%s_k%s%s" % (self.key, kx, ky), z3.RealSort(), z3.RealSort(), z3.RealSort())

    def __aovc_call__(self, it, args, kwargs):
        xq, yq = as_arr(it, args[0]), as_arr(it, args[1])
        if kwargs.get("grid", True) is not True:
            raise Unsupported("spline evaluation with grid=False")
        sx, sy = xq.snapshot(), yq.snapshot()
        S = self.S
        return Arr([xq.shape[0], yq.shape[0]], lambda idx: S(zr(sx([idx[0]])), zr(sy([idx[1]]))), "float")

    def node_axiom(self, i, j):
        return z3.Implies(z3.And(i >= 0, zi(i) < zi(self.z.shape[0]), j >= 0, zi(j) < zi(self.z.shape[1])), self.S(zr(self.x.get([i])), zr(self.y.get([j]))) == zr(self.z.get([i, j])))


@ext("scipy.interpolate.RectBivariateSpline")
def _rbs(it, x, y, z_, kx=3, ky=3, s=0, **kw):
    if not (is_conc(s) and s == 0):
        raise Unsupported("smoothing spline")
    if kw:
        raise Unsupported("RectBivariateSpline options %s" % list(kw))
    return SplineObj(it, x, y, z_, kx, ky)


def extreme_chain_instances(it, terms):
    """for nested / joint max-min terms: instantiate the defining bounds of every term along the attaining index path of every other term
    (path of X = its witness, then the witness of the inner extreme found there, ...); this is what relates max_y max_x, max_(y,x) and scaled copies"""
    reg = getattr(it.ctx, "extremes", {})
    out = []

    def path_of(t):
        path, cur = [], t
        while is_z3(cur) and cur.sexpr() in reg:
            et = reg[cur.sexpr()]
            path += list(et.witness)
            cur = et.snap(list(et.witness))
            cur = cur if is_z3(cur) else None
        return path
    paths = [path_of(t) for t in terms]
    for t in terms:
        for path in paths:
            cur, pos = t, 0
            while is_z3(cur) and cur.sexpr() in reg:
                et = reg[cur.sexpr()]
                r = len(et.shape)
                if pos + r > len(path):
                    break
                idx = path[pos:pos + r]
                out.append(extreme_bound(it, cur, idx))
                cur = et.snap(list(idx))
                pos += r
    return out


# ----------------------------------------------------------------------------- linear algebra (matrix-algebra encoding, aovc/matalg.py)
@ext("numpy.linalg.pinv")
def _pinv(it, a, rcond=None, **kw):
    from . import matalg
    return matalg.pinv(it, a, rcond)


@ext("scipy.linalg.cho_factor")
def _cho_factor(it, a, **kw):
    from . import matalg
    return matalg.cho_factor(it, a)


@ext("scipy.linalg.cho_solve")
def _cho_solve(it, cf, b, **kw):
    from . import matalg
    return matalg.cho_solve(it, cf, b)


@ext("numpy.linalg.svd")
def _svd(it, a, **kw):
    from . import matalg
    if kw:
        raise Unsupported("svd options")
    return matalg.svd(it, a)


# ----------------------------------------------------------------------------- numpy.random.Generator
class GenObj:
    """numpy.random.Generator: a stream of draws that is a deterministic function of its seed; normal() advances only this object"""
    _count = [0]

    def __init__(self, seed_desc):
        GenObj._count[0] += 1
        self.id = GenObj._count[0]
        if is_z3(seed_desc) or is_conc(seed_desc):
            # an integer seed determines the stream: two generators built from the same seed produce the same draws
            self.id = "seed:" + (seed_desc.sexpr() if is_z3(seed_desc) else str(seed_desc))
        self.seed_desc = seed_desc
        self.draws = 0

    def __aovc_attr__(self, it, name):
        return BoundMethod(self, name)

    def __aovc_method__(self, it, name, args, kwargs):
        if name in ("normal", "standard_normal"):
            size = kwargs.get("size", args[2] if len(args) > 2 else (args[0] if name == "standard_normal" and args else None))
            loc = args[0] if (name == "normal" and len(args) > 0) else kwargs.get("loc", 0)
            scale = args[1] if (name == "normal" and len(args) > 1) else kwargs.get("scale", 1)
            if size is None:
                raise Unsupported("scalar draw")
            self.draws += 1
            shp = shape_arg(it, size)
            a = sym_arr("draw!g%d!%d" % (self.id, self.draws), shp)
            a.is_draw = (self.id, self.draws)
            if not (is_conc(loc) and _num(loc) == 0 and is_conc(scale) and _num(scale) == 1):
                snap = a.snapshot()
                a2 = Arr(shp, lambda idx: r_add(loc, r_mul(scale, snap(idx))), "float")
                a2.is_draw = a.is_draw
                return a2
            return a
        return NotImplemented


@ext("numpy.random.default_rng")
def _default_rng(it, seed=None):
    if isinstance(seed, GenObj):
        return seed
    return GenObj(seed)


@ext("numba.prange")
def _prange(it, *a):
    it.ctx.notes.append("numba.prange treated as range (A-JIT); the loop summary proves the writes of different iterations disjoint")
    return call_builtin(it, "range", list(a), {})


# ----------------------------------------------------------------------------- multiprocessing.Pool
class PoolObj:
    """multiprocessing.Pool: map(f, xs) returns [f(x) for x in xs] in input order whatever the schedule; results are pickled copies"""
    def __init__(self, n):
        self.n = n

    def __aovc_attr__(self, it, name):
        return BoundMethod(self, name)

    def __aovc_method__(self, it, name, args, kwargs):
        if name == "map":
            f, xs = args[0], args[1]
            it.ctx.trusted_calls.add("multiprocessing.Pool.map (results in input order, independent of the schedule)")
            return [it.call(f, [x], {}) for x in list(xs)]
        if name in ("imap_unordered", "imap", "map_async", "apply_async"):
            raise Unsupported("Pool.%s: results are not consumed in a schedule-independent order" % name)
        if name in ("close", "join", "terminate"):
            return None
        return NotImplemented


@ext("multiprocessing.Pool")
def _pool(it, n=None, **kw):
    return PoolObj(n)


# ----------------------------------------------------------------------------- numpy.digitize
class DigitizeInfo:
    def __init__(self, f, x, bins):
        self.f, self.x, self.bins = f, x, bins

    def contract(self, k, j):
        """instance at element k and edge j:  (digitize(x)[k] > j)  <=>  x[k] >= bins[j]   for 0 <= j < len(bins)  (increasing bins, right=False)"""
        n = zi(self.bins.shape[0])
        return z3.Implies(z3.And(zi(j) >= 0, zi(j) < n), (self.f(zi(k)) > zi(j)) == (zr(self.x.get([k])) >= zr(self.bins.get([j]))))

    def range(self, k):
        return z3.And(self.f(zi(k)) >= 0, self.f(zi(k)) <= zi(self.bins.shape[0]))


@ext("numpy.digitize")
def _digitize(it, x, bins, right=False):
    if right is not False:
        raise Unsupported("digitize(right=True)")
    X, Bn = as_arr(it, x), as_arr(it, bins)
    if X.ndim != 1 or Bn.ndim != 1:
        raise Unsupported("digitize of non-1d arrays")
    f = z3.Function(fresh_name("digitize"), z3.IntSort(), z3.IntSort())
    res = Arr([X.shape[0]], lambda idx: f(zi(idx[0])), "int")
    res.digitize = DigitizeInfo(f, X.frozen(), Bn.frozen())
    if not hasattr(it.ctx, "digitizes"):
        it.ctx.digitizes = []
    it.ctx.digitizes.append(res.digitize)
    it.ctx.notes.append("numpy.digitize: bins must be increasing (here: numpy.linspace with positive step when hmax > hmin)")
    return res


@ext("numpy.finfo")
def _finfo(it, dt=None):
    o = Obj(None, {"eps": Fraction(1, 2 ** 52), "tiny": Fraction(1, 2 ** 1022), "max": Fraction(2 ** 1023) * (2 - Fraction(1, 2 ** 52)), "resolution": Fraction(1, 10 ** 15)})
    return o


@ext("numpy.reshape")
def _np_reshape(it, a, newshape, **kw):
    return reshape(it, as_arr(it, a), list(newshape) if isinstance(newshape, (tuple, list)) else [newshape])


@ext("numpy.transpose")
def _np_transpose(it, a, axes=None):
    if axes is not None:
        raise Unsupported("transpose with axes")
    return transpose(it, as_arr(it, a))


@ext("numpy.shape")
def _np_shape(it, a):
    return tuple(as_arr(it, a).shape)


@ext("numpy.clip")
def _np_clip(it, a, lo, hi, **kw):
    if kw.get("out") is not None:
        raise Unsupported("numpy.clip(out=)")
    return arr_method(it, as_arr(it, a), "clip", [lo, hi], {})


@ext("numpy.squeeze")
def _np_squeeze(it, a, **kw):
    A = as_arr(it, a)
    keep = [k for k, d in enumerate(A.shape) if not (is_conc(d) and _num(d) == 1)]
    return reshape(it, A, [A.shape[k] for k in keep])


# ----------------------------------------------------------------------------- more NumPy / math functions (value-preserving rewrites of
# the same computations: function forms of operators, *_like constructors, axis permutations, tiling, cumulative sums, math.*)

def _np_binary(opname, label):
    def f(it, a, b, *rest, **kw):
        if rest or kw.get("out") is not None or kw.get("where") is not None:
            raise Unsupported("numpy.%s with out= / where= / extra arguments" % label)
        if isinstance(a, (list, tuple)):
            a = array(it, a)
        if isinstance(b, (list, tuple)):
            b = array(it, b)
        return it.binop(opname, a, b)
    return f


for _n, _op in (("add", "Add"), ("subtract", "Sub"), ("multiply", "Mult"), ("divide", "Div"), ("true_divide", "Div"), ("power", "Pow"), ("float_power", "Pow")):
    EXT["numpy." + _n] = _np_binary(_op, _n)
EXT["numpy.negative"] = _elementwise("negative", lambda it, v: s_neg(v))


def _like(kind):
    def f(it, a, dtype=None, **kw):
        A = as_arr(it, a)
        dt = dtype_name(dtype) or A.dtype
        shp = list(A.shape)
        if kind == "empty":
            return sym_arr(fresh_name("uninit"), shp, dt if dt != "bool" else "float") if shp else Arr([], lambda idx: 0, dt)
        v = 0 if kind == "zeros" else 1
        if dt == "complex":
            v = Cx(v, 0)
        return const_arr(shp, v, dt)
    return f


EXT["numpy.zeros_like"] = _like("zeros")
EXT["numpy.ones_like"] = _like("ones")
EXT["numpy.empty_like"] = _like("empty")


@ext("numpy.full")
def _np_full(it, shape, fill_value, dtype=None, **kw):
    shp = shape_arg(it, shape)
    for d in shp:
        it.ctx.definedness(cmp(">=", d, 0), "non-negative dimension")
    if not is_scalar(fill_value):
        raise Unsupported("numpy.full with a non-scalar fill value")
    return const_arr(shp, fill_value, dtype_name(dtype) or elem_dtype(fill_value))


@ext("numpy.full_like")
def _np_full_like(it, a, fill_value, dtype=None, **kw):
    A = as_arr(it, a)
    if not is_scalar(fill_value):
        raise Unsupported("numpy.full_like with a non-scalar fill value")
    return const_arr(list(A.shape), fill_value, dtype_name(dtype) or A.dtype)


@ext("numpy.copy")
def _np_copy(it, a, **kw):
    return as_arr(it, a).frozen()


@ext("numpy.ascontiguousarray")
def _np_ascontig(it, a, dtype=None, **kw):
    return EXT["numpy.asarray"](it, a, dtype)


@ext("numpy.ndim")
def _np_ndim(it, a):
    return as_arr(it, a).ndim


@ext("numpy.size")
def _np_size(it, a, axis=None):
    A = as_arr(it, a)
    return A.size() if axis is None else A.shape[int(axis)]


@ext("numpy.var", "numpy.std")
def _np_var(it, a, *args, **kw):
    raise RuntimeError("replaced below")


def _np_sort(it, a, *args, **kw):
    """numpy.sort along the last axis as an uninterpreted ORDER-STATISTIC functional of the row's contents:
    sort(a)[lead, k] = OrdStat_<hash of the row's element term>(free symbols of the row, row length, k).
    Two rows with the same element term (a frame inside a stack and the same frame alone) get the same term, which is all the
    contracts use; no ordering axioms are stated (value clauses about the level itself stay bounded)."""
    a = as_arr(it, a)
    axis = kw.get("axis", args[0] if args else -1)
    if not (is_conc(axis) and int(axis) in (-1, a.ndim - 1)) or a.ndim < 1:
        raise Unsupported("numpy.sort along an axis other than the last")
    if any(k not in ("axis",) for k in kw):
        raise Unsupported("numpy.sort keyword %s" % sorted(kw))
    if a.dtype not in ("float", "int"):
        raise Unsupported("numpy.sort of %s data" % a.dtype)
    snap = a.snapshot()
    M = a.shape[-1]
    nlead = a.ndim - 1
    it.ctx.trusted_calls.add("numpy.sort (a deterministic function of each row's contents; order statistics uninterpreted)")

    def elem(idx):
        lead, k = list(idx[:nlead]), idx[nlead]
        j = z3.Int("ordstat!j")
        body = z3.simplify(zr(snap(lead + [j])))
        fv = {}
        free_consts(body, fv)
        free_consts(zi(M) if not is_conc(M) else z3.IntVal(int(M)), fv)
        fv.pop(str(j), None)
        names = sorted(fv)
        hsh = hashlib.sha256((body.sexpr() + "|" + str(M)).encode()).hexdigest()[:12]
        args_ = [fv[n] for n in names] + [zi(k) if not is_conc(k) else z3.IntVal(int(k))]
        rng = z3.IntSort() if a.dtype == "int" else z3.RealSort()
        F = z3.Function("OrdStat%s_%s" % ("I" if a.dtype == "int" else "", hsh), *([x.sort() for x in args_] + [rng]))
        return F(*args_)
    return Arr(list(a.shape), elem, a.dtype)


EXT["numpy.sort"] = _np_sort
EXT["numpy.var"] = lambda it, a, *args, **kw: arr_method(it, as_arr(it, a), "var", list(args), dict(kw))
EXT["numpy.std"] = lambda it, a, *args, **kw: arr_method(it, as_arr(it, a), "std", list(args), dict(kw))


def permute_axes(it, A, perm):
    """result axis k is input axis perm[k] (a view, like numpy.transpose(A, perm))"""
    n = A.ndim
    perm = [int(p) % n for p in perm]
    if sorted(perm) != list(range(n)):
        raise PyException("ValueError", "axes don't match array")
    inv = [perm.index(j) for j in range(n)]
    return A.view([A.shape[p] for p in perm], lambda idx: [idx[inv[j]] for j in range(n)], lambda bidx: (True, [bidx[p] for p in perm]))


def _axis_int(x, n, what):
    if not (is_conc(x) and Fraction(_num(x)).denominator == 1):
        raise Unsupported("%s: symbolic axis" % what)
    x = int(_num(x))
    if not -n <= x < n:
        raise PyException("AxisError", "%s: axis %d is out of bounds for array of dimension %d" % (what, x, n))
    return x % n


@ext("numpy.moveaxis")
def _np_moveaxis(it, a, source, destination):
    A = as_arr(it, a)
    n = A.ndim
    src = [_axis_int(s, n, "moveaxis") for s in (source if isinstance(source, (list, tuple)) else [source])]
    dst = [_axis_int(d, n, "moveaxis") for d in (destination if isinstance(destination, (list, tuple)) else [destination])]
    if len(src) != len(dst):
        raise PyException("ValueError", "moveaxis: source and destination must have the same number of elements")
    order = [k for k in range(n) if k not in src]
    for d, s in sorted(zip(dst, src)):
        order.insert(d, s)
    return permute_axes(it, A, order)


@ext("numpy.swapaxes")
def _np_swapaxes(it, a, ax1, ax2):
    A = as_arr(it, a)
    n = A.ndim
    i, j = _axis_int(ax1, n, "swapaxes"), _axis_int(ax2, n, "swapaxes")
    perm = list(range(n))
    perm[i], perm[j] = perm[j], perm[i]
    return permute_axes(it, A, perm)


def _np_transpose2(it, a, axes=None):
    A = as_arr(it, a)
    if axes is None:
        return transpose(it, A)
    return permute_axes(it, A, [_axis_int(x, A.ndim, "transpose") for x in axes])


EXT["numpy.transpose"] = _np_transpose2


@ext("numpy.flip")
def _np_flip(it, a, axis=None):
    A = as_arr(it, a)
    axes = list(range(A.ndim)) if axis is None else [_axis_int(x, A.ndim, "flip") for x in (axis if isinstance(axis, (list, tuple)) else [axis])]
    shp = list(A.shape)

    def m(idx):
        return [r_sub(r_sub(shp[k], 1), i) if k in axes else i for k, i in enumerate(idx)]
    return A.view(shp, m, lambda bidx: (True, m(bidx)))


@ext("numpy.tile")
def _np_tile(it, a, reps):
    A = as_arr(it, a)
    reps = list(reps) if isinstance(reps, (list, tuple)) else [reps]
    for r_ in reps:
        if not is_conc(r_) and not is_z3(r_):
            raise Unsupported("numpy.tile repetitions")
    n = max(A.ndim, len(reps))
    shp_in = [1] * (n - A.ndim) + list(A.shape)
    reps = [1] * (n - len(reps)) + reps
    for r_ in reps:
        it.ctx.definedness(cmp(">=", r_, 0), "non-negative repetition count")
    src = A.snapshot()
    lead = n - A.ndim

    def f(idx):
        inner = []
        for k in range(lead, n):
            d = shp_in[k]
            inner.append(idx[k] if (is_conc(reps[k]) and _num(reps[k]) == 1) else it.mod(idx[k], d))
        return src(inner)
    return Arr([r_mul(d, r_) for d, r_ in zip(shp_in, reps)], f, A.dtype)


@ext("numpy.outer")
def _np_outer(it, a, b, **kw):
    A, B = as_arr(it, a), as_arr(it, b)
    if A.ndim != 1 or B.ndim != 1:
        A, B = reshape(it, A, [A.size()]), reshape(it, B, [B.size()])
    fa, fb = A.snapshot(), B.snapshot()
    return Arr([A.shape[0], B.shape[0]], lambda idx: s_mul(fa([idx[0]]), fb([idx[1]])), "complex" if "complex" in (A.dtype, B.dtype) else ("float" if "float" in (A.dtype, B.dtype) else A.dtype))


@ext("numpy.cumsum")
def _np_cumsum(it, a, axis=None, **kw):
    A = as_arr(it, a)
    if A.ndim != 1 or (axis is not None and _axis_int(axis, 1, "cumsum") != 0):
        raise Unsupported("numpy.cumsum on an array of rank %d" % A.ndim)
    src = A.snapshot()
    return Arr([A.shape[0]], lambda idx: sigma(it, [(0, r_add(idx[0], 1))], lambda k: src([k[0]]), "cumsum"), A.dtype)


def _math1(name, fn):
    def f(it, x):
        if isinstance(x, Arr):
            raise PyException("TypeError", "math.%s of an array" % name)
        return fn(it, x)
    return f


EXT["math.sqrt"] = _math1("sqrt", lambda it, v: r_sqrt(v, it.ctx))
EXT["math.exp"] = _math1("exp", lambda it, v: s_exp(v, it.ctx))
EXT["math.cos"] = _math1("cos", uf1("cos"))
EXT["math.sin"] = _math1("sin", uf1("sin"))
EXT["math.log10"] = _math1("log10", uf1("log10"))
EXT["math.log"] = _math1("log", uf1("log"))
EXT["math.fabs"] = _math1("fabs", lambda it, v: s_abs(v, it.ctx))
EXT["math.floor"] = _math1("floor", lambda it, v: EXT["numpy.floor"](it, v))
EXT["math.ceil"] = _math1("ceil", lambda it, v: EXT["numpy.ceil"](it, v))
EXT["math.gamma"] = _math1("gamma", uf1("gamma"))
EXT["math.hypot"] = lambda it, x, y: r_sqrt(s_add(s_mul(x, x), s_mul(y, y)), it.ctx)
EXT["numpy.hypot"] = lambda it, x, y, **kw: map2(it, x, y, lambda u, v: r_sqrt(s_add(s_mul(u, u), s_mul(v, v)), it.ctx), "float") if (isinstance(x, Arr) or isinstance(y, Arr)) else r_sqrt(s_add(s_mul(x, x), s_mul(y, y)), it.ctx)


@ext("numpy.result_type", "numpy.promote_types")
def _result_type(it, *args, **kw):
    """the promoted dtype, at the granularity of the value model (bool < int < float < complex); widths are below A-REAL / A-INT"""
    order = ["bool", "int", "float", "complex"]
    best = "bool"
    for a in args:
        if isinstance(a, Arr):
            n = a.dtype
        elif isinstance(a, (DType, Builtin, ExtRef, str)):
            n = dtype_name(a)
        elif is_scalar(a):
            n = elem_dtype(a)
        else:
            raise Unsupported("result_type of %s" % type(a).__name__)
        if n not in order:
            raise Unsupported("result_type of dtype %r" % (n,))
        if order.index(n) > order.index(best):
            best = n
    return DType({"float": "float64", "int": "int64", "complex": "complex128", "bool": "bool"}[best])


@ext("scipy.special.eval_jacobi")
def _eval_jacobi(it, n, alpha, beta, x, **kw):
    """the Jacobi polynomial P_n^(alpha,beta)(x), elementwise in x: an uninterpreted function of its four arguments (library contract)"""
    f = UF("eval_jacobi", 4)
    if isinstance(n, Arr) or isinstance(alpha, Arr) or isinstance(beta, Arr):
        raise Unsupported("eval_jacobi with array-valued degree / parameters")
    if isinstance(x, Arr):
        return map1(it, x, lambda v: f(zr(n), zr(alpha), zr(beta), zr(v)), "float")
    return f(zr(n), zr(alpha), zr(beta), zr(x))


def _tri(lower):
    def f(it, m, k=0):
        m = as_arr(it, m)
        if m.ndim != 2:
            raise Unsupported("tril / triu of a rank-%d array" % m.ndim)
        snap = m.snapshot()
        kk = k

        def elem(idx):
            keep = cmp("<=", idx[1], r_add(idx[0], kk)) if lower else cmp(">=", idx[1], r_add(idx[0], kk))
            return ite(keep, snap(idx), 0)
        return Arr(list(m.shape), elem, m.dtype)         # a new array (numpy.tril / triu copy)
    return f


EXT["numpy.tril"] = _tri(True)
EXT["numpy.triu"] = _tri(False)
