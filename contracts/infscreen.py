"""Contracts for aotools/turbulence/infinitephasescreen.py (properties C04, C05)."""
import z3
from aovc.check import num
from aovc.contract import verify
from aovc.values import zr, zi, UF, Unsupported
from aovc.arrays import sym_arr, Arr
from aovc.symex import Obj, RepoClass
from aovc import matalg, frontend, npmodel

IPS = "aotools/turbulence/infinitephasescreen.py"
TURB = "aotools/turbulence/turb.py"
PS = "aotools/turbulence/phasescreen.py"
SL, NX, RQ, NST, NCOL, SLF = z3.Ints("stencil_length nx_size requested n_stencils n_columns stencil_length_factor")
PIX, R0, L0 = z3.Reals("pixel_scale r0 L0")
COV = UF("phase_covariance", 3)


def phase_covariance_summary(it, args, kwargs):
    """callee contract of turb.phase_covariance: elementwise a function C(r; r0, L0) of the separation (its closed form is C08's subject)"""
    r, r0, l0 = args
    if isinstance(r, Arr):
        return npmodel.map1(it, r, lambda v: COV(zr(v), zr(r0), zr(l0)), "float")
    return COV(zr(r), zr(r0), zr(l0))


def ft_phase_screen_summary(it, args, kwargs):
    """callee contract of ft_phase_screen used by make_initial_screen: an N x N real array (values: C07)"""
    N = args[1]
    a = sym_arr("ft_phase_screen.result", [zi(N), zi(N)])
    a.from_seed = kwargs.get("seed", args[6] if len(args) > 6 else None)
    return a


def screen_obj(it, cls, kolmogorov=False):
    mod = frontend.load(IPS)
    o = Obj(RepoClass(mod, cls))
    it.ctx.assume(z3.And(NX >= 1, SL >= NX, RQ >= 1, RQ <= NX, RQ <= SL, NST >= 1))
    o.attrs.update(stencil_length=SL, nx_size=NX, requested_nx_size=RQ, n_stencils=NST, pixel_scale=PIX, r0=R0, L0=L0)
    return o


# =============================================================================== C05
def c05_obligations(chk):
    r, c = z3.Ints("r c")
    for cls in ("PhaseScreenVonKarman", "PhaseScreenKolmogorov"):
        holder = {}

        def new_row_summary(it, args, kwargs, holder=holder):
            row = sym_arr("new_row", [1, NX])
            holder["row"] = row
            cur = holder["o"].attrs.get("_scrn")
            holder["at_call"] = cur.frozen() if isinstance(cur, Arr) else None      # the screen the new row is computed from
            return row

        def run(it, cls=cls, holder=holder):
            o = screen_obj(it, cls)
            scr = sym_arr("_scrn", [SL, NX])
            o.attrs["_scrn"] = scr
            holder.update(o=o, scr=scr)
            before = dict(o.attrs)
            out = it.call_repo(IPS, "PhaseScreen.add_row", [], {}, self_obj=o)
            holder["before"] = before
            return it, out

        def post(pr, cls=cls, holder=holder):
            it, out = pr.value
            o, scr, row, before = holder["o"], holder["scr"], holder.get("row"), holder["before"]
            new = o.attrs["_scrn"]
            goals = [("get_new_row called once", z3.BoolVal(row is not None)), ("internal screen is an array", z3.BoolVal(isinstance(new, Arr) and new.ndim == 2))]
            if row is None or not (isinstance(new, Arr) and new.ndim == 2):
                return goals
            goals.append(("invariant: _scrn.shape=(stencil_length, nx_size)", z3.And(zi(new.shape[0]) == SL, zi(new.shape[1]) == NX)))
            inb = z3.And(r >= 0, r < SL, c >= 0, c < NX)
            at_call = holder.get("at_call")
            ok_call = isinstance(at_call, Arr) and at_call.ndim == 2
            goals.append(("the new row is computed from the screen BEFORE the shift (same shape)", z3.BoolVal(bool(ok_call)) if not ok_call else z3.And(zi(at_call.shape[0]) == SL, zi(at_call.shape[1]) == NX)))
            if ok_call:
                goals.append(("the new row is computed from the screen BEFORE the shift (same contents)", z3.Implies(inb, zr(at_call.get([r, c])) == zr(scr.get([r, c])))))
            goals.append(("_scrn'[0,:]=new row", z3.Implies(z3.And(inb, r == 0), zr(new.get([r, c])) == zr(row.get([0, c])))))
            goals.append(("_scrn'[r,:]=_scrn[r-1,:] (shifted down by exactly one row)", z3.Implies(z3.And(inb, r >= 1), zr(new.get([r, c])) == zr(scr.get([r - 1, c])))))
            ok = isinstance(out, Arr) and out.ndim == 2
            goals.append(("returns the exposed screen", z3.BoolVal(ok)))
            if ok:
                goals.append(("exposed shape=(requested, requested)", z3.And(zi(out.shape[0]) == RQ, zi(out.shape[1]) == RQ)))
                inq = z3.And(r >= 0, r < RQ, c >= 0, c < RQ)
                goals.append(("exposed[0,:]=new row[:requested]", z3.Implies(z3.And(inq, r == 0), zr(out.get([r, c])) == zr(row.get([0, c])))))
                goals.append(("exposed[r,:]=previous exposed[r-1,:]", z3.Implies(z3.And(inq, r >= 1), zr(out.get([r, c])) == zr(scr.get([r - 1, c])))))
            written = sorted(set(nm for nm, _ in o.attr_writes))
            goals.append(("frame: only self._scrn is assigned %s" % written, z3.BoolVal(written == ["_scrn"])))
            goals.append(("frame: the previous screen array is not written (a new array is built)", z3.BoolVal(scr.writes == 0 and new.rootarr() is not scr)))
            for k_, v_ in before.items():
                if k_ != "_scrn":
                    goals.append(("frame: self.%s unchanged" % k_, z3.BoolVal(o.attrs.get(k_) is v_)))
            return goals
        verify(chk, "add_row[%s]" % cls, IPS + ":PhaseScreen.add_row", run, post, clause="add_row", summaries={(IPS, "PhaseScreen.get_new_row"): new_row_summary, (IPS, "PhaseScreenKolmogorov.get_new_row"): new_row_summary},
               replay=lambda m: {}, encoding="pointwise (append / crop as index maps) + frame of object state")

    # reading / printing never alters the screen or the random stream
    for meth in ("PhaseScreen.scrn", "PhaseScreenKolmogorov.__repr__"):
        holder = {}

        def run_read(it, meth=meth, holder=holder):
            o = screen_obj(it, "PhaseScreenKolmogorov")
            scr = sym_arr("_scrn", [SL, NX])
            gen = npmodel.GenObj("seed")
            o.attrs.update(_scrn=scr, _R=gen)
            holder.update(o=o, scr=scr, gen=gen)
            return it.call_repo(IPS, meth, [], {}, self_obj=o)

        def post_read(pr, meth=meth, holder=holder):
            o, scr, gen = holder["o"], holder["scr"], holder["gen"]
            goals = [("no attribute is assigned", z3.BoolVal(o.attr_writes == [])), ("the screen array is not written", z3.BoolVal(scr.writes == 0)),
                     ("no draw from the per-instance generator", z3.BoolVal(gen.draws == 0))]
            if meth.endswith("scrn"):
                v = pr.value
                ok = isinstance(v, Arr) and v.ndim == 2
                goals.append(("exposed view is _scrn[:requested, :requested]", z3.BoolVal(ok)))
                if ok:
                    goals.append(("exposed shape", z3.And(zi(v.shape[0]) == RQ, zi(v.shape[1]) == RQ)))
                    goals.append(("exposed content", z3.Implies(z3.And(r >= 0, r < RQ, c >= 0, c < RQ), zr(v.get([r, c])) == zr(scr.get([r, c])))))
            return goals
        verify(chk, "read[%s]" % meth, IPS + ":" + meth, run_read, post_read, clause="read", replay=lambda m: {}, encoding="frame of object state")

    # the constructors establish the invariant: requested <= nx_size <= stencil_length, _scrn.shape = (stencil_length, nx_size)
    nx, ncols, slf = z3.Ints("nx ncols slf")
    noop = lambda it, args, kwargs: None
    heavy = {(IPS, q): noop for q in ("PhaseScreen.set_X_coords", "PhaseScreen.set_stencil_coords", "PhaseScreenVonKarman.set_stencil_coords", "PhaseScreen.calc_seperations",
                                     "PhaseScreen.make_covmats", "PhaseScreen.makeAMatrix", "PhaseScreen.makeBMatrix")}
    heavy[(PS, "ft_phase_screen")] = ft_phase_screen_summary
    for cls in ("PhaseScreenVonKarman", "PhaseScreenKolmogorov"):
        holder = {}

        def run_init(it, cls=cls, holder=holder):
            it.ctx.assume(z3.And(nx >= 1, ncols >= 1, slf >= 1))
            mod = frontend.load(IPS)
            o = Obj(RepoClass(mod, cls))
            holder["o"] = o
            if cls == "PhaseScreenVonKarman":
                it.call_repo(IPS, cls + ".__init__", [nx, PIX, R0, L0], {"random_seed": z3.Int("seed"), "n_columns": ncols}, self_obj=o)
            else:
                it.call_repo(IPS, cls + ".__init__", [nx, PIX, R0, L0], {"random_seed": z3.Int("seed"), "stencil_length_factor": slf}, self_obj=o)
            return it

        def post_init(pr, cls=cls, holder=holder):
            o = holder["o"]
            a = o.attrs
            need = ("requested_nx_size", "nx_size", "stencil_length", "_scrn", "_R", "random_seed")
            goals = [("attributes set: %s" % (need,), z3.BoolVal(all(k in a for k in need)))]
            if not all(k in a for k in need):
                return goals
            rq, nxs, sl, scr = zi(a["requested_nx_size"]), zi(a["nx_size"]), zi(a["stencil_length"]), a["_scrn"]
            goals += [("pixel_scale, r0, L0 stored as given", z3.And(zr(a.get("pixel_scale", 0)) == PIX, zr(a.get("r0", 0)) == R0, zr(a.get("L0", 0)) == L0)),
                      ("requested = the size asked for", rq == nx), ("requested <= nx_size", rq <= nxs), ("nx_size <= stencil_length", nxs <= sl),
                      ("_scrn.shape=(stencil_length, nx_size)", z3.And(zi(scr.shape[0]) == sl, zi(scr.shape[1]) == nxs) if isinstance(scr, Arr) and scr.ndim == 2 else z3.BoolVal(False)),
                      ("per-instance generator created from the seed", z3.BoolVal(isinstance(a["_R"], npmodel.GenObj) and a["_R"].seed_desc is a["random_seed"])),
                      ("initial screen drawn from the per-instance generator", z3.BoolVal(getattr(scr.rootarr(), "from_seed", None) is a["_R"]))]
            return goals
        verify(chk, "__init__[%s]" % cls, IPS + ":" + cls + ".__init__", run_init, post_init, clause="init", summaries=heavy, replay=lambda m: {"nx": num(m.eval(nx, model_completion=True))},
               encoding="symbolic execution of the constructor with callee contracts; while loop of find_allowed_size by its exit condition")


def row_frame_obligations(chk):
    """get_new_row (both variants) changes nothing but the state of the per-instance generator"""
    for cls in ("PhaseScreenVonKarman", "PhaseScreenKolmogorov"):
        hr = {}

        def run(it, cls=cls, hr=hr):
            o = screen_obj(it, cls)
            alg = matalg.algebra(it)
            alg.sym("A", [NX, NST]); alg.sym("B", [NX, NX])
            coords = sym_arr("stencil_coords", [NST, 2], dtype="int")
            gen = npmodel.GenObj("seed")
            scr = sym_arr("_scrn", [SL, NX])
            k_ = z3.Int("m!0")
            it.ctx.assume(z3.And(zi(coords.get([k_, 0])) >= 0, zi(coords.get([k_, 0])) < SL, zi(coords.get([k_, 1])) >= 0, zi(coords.get([k_, 1])) < NX, SL >= 2, NX >= 2))
            o.attrs.update(A_mat=matalg.Mat(it, {(("A", False),): 1}, [NX, NST]), B_mat=matalg.Mat(it, {(("B", False),): 1}, [NX, NX]), stencil_coords=coords, _R=gen, _scrn=scr, reference_coord=(1, 1))
            hr.update(o=o, scr=scr, coords=coords)
            before = dict(o.attrs)
            hr["before"] = before
            it.call_repo(IPS, ("PhaseScreen" if cls == "PhaseScreenVonKarman" else cls) + ".get_new_row", [], {}, self_obj=o)
            return it

        def post(pr, cls=cls, hr=hr):
            o, scr, coords = hr["o"], hr["scr"], hr["coords"]
            goals = [("no attribute of the screen object is assigned %s" % sorted(set(n for n, _ in o.attr_writes)), z3.BoolVal(o.attr_writes == [])),
                     ("the internal screen array is not written", z3.BoolVal(scr.writes == 0 and o.attrs["_scrn"] is scr)),
                     ("the stencil coordinates are not written", z3.BoolVal(coords.writes == 0))]
            for k_, v_ in hr["before"].items():
                goals.append(("self.%s is the same object" % k_, z3.BoolVal(o.attrs.get(k_) is v_)))
            return goals
        verify(chk, "get_new_row.frame[%s]" % cls, IPS + ":" + ("PhaseScreen" if cls == "PhaseScreenVonKarman" else cls) + ".get_new_row", run, post, clause="add_row", replay=lambda m: {},
               encoding="frame of object state")


# =============================================================================== C04
def c04_obligations(chk):
    p, q = z3.Ints("p q")
    # (1) X coordinates: row -1, column k, in metres
    holder = {}

    def run_x(it):
        o = screen_obj(it, "PhaseScreenVonKarman")
        holder["o"] = o
        it.call_repo(IPS, "PhaseScreen.set_X_coords", [], {}, self_obj=o)
        return it

    def post_x(pr):
        o = holder["o"]
        X = o.attrs.get("X_positions")
        ok = isinstance(X, Arr) and X.ndim == 2
        goals = [("X_positions is (nx_size, 2)", z3.BoolVal(ok))]
        if ok:
            goals.append(("shape", z3.And(zi(X.shape[0]) == NX, zi(X.shape[1]) == 2)))
            inb = z3.And(p >= 0, p < NX)
            goals.append(("new row sits at row -1: X_positions[k] = (-1, k) * pixel_scale", z3.Implies(inb, z3.And(zr(X.get([p, 0])) == -PIX, zr(X.get([p, 1])) == zr(p) * PIX))))
        return goals
    verify(chk, "set_X_coords", IPS + ":PhaseScreen.set_X_coords", run_x, post_x, clause="geometry", replay=lambda m: {}, encoding="pointwise")

    # (2) separations: Euclidean distances between all stencil and new-row positions (numba kernel, parallel outer loop)
    NP = z3.Int("n_positions")
    hs = {}

    def run_sep(it):
        it.ctx.assume(NP >= 1)
        pos = sym_arr("positions", [NP, 2], prov={"positions"})
        sep = npmodel.const_arr([NP, NP], 0)
        sep.label = "seperations"
        hs.update(pos=pos, sep=sep)
        it.call_repo(IPS, "calc_seperations_fast", [pos, sep])
        return it

    def post_sep(pr):
        pos, sep = hs["pos"], hs["sep"]
        inb = z3.And(p >= 0, p < NP, q >= 0, q < NP)
        dx = zr(pos.get([q, 0])) - zr(pos.get([p, 0]))
        dy = zr(pos.get([q, 1])) - zr(pos.get([p, 1]))
        return [("seperations[p,q]=sqrt(dx^2+dy^2)", z3.Implies(inb, zr(sep.get([p, q])) == UF("sqrt")(dx * dx + dy * dy))),
                ("seperations symmetric", z3.Implies(inb, zr(sep.get([p, q])) == zr(sep.get([q, p]))))]
    verify(chk, "calc_seperations_fast", IPS + ":calc_seperations_fast", run_sep, post_sep, clause="geometry", replay=lambda m: {}, frame=False,
           encoding="loop-summary S2 (nested, outer prange: writes of different i are disjoint by the injectivity obligation)")

    # (1b) von Karman stencil: the first n_columns rows of the screen, enumerated row-major; positions in metres
    hv = {}

    def run_st(it):
        o = screen_obj(it, "PhaseScreenVonKarman")
        it.ctx.assume(z3.And(NCOL >= 1, NCOL <= SL))
        o.attrs["n_columns"] = NCOL
        hv["o"] = o
        it.call_repo(IPS, "PhaseScreenVonKarman.set_stencil_coords", [], {}, self_obj=o)
        return it

    def post_st(pr):
        it = pr.value
        o = hv["o"]
        st, co, po = o.attrs.get("stencil"), o.attrs.get("stencil_coords"), o.attrs.get("stencil_positions")
        ok = isinstance(st, Arr) and isinstance(co, Arr) and isinstance(po, Arr) and co.ndim == 2 and po.ndim == 2 and len(getattr(it.ctx, "wheres", [])) == 1
        goals = [("stencil / coordinates / positions built from one numpy.where", z3.BoolVal(bool(ok)))]
        if not ok:
            return goals
        w = it.ctx.wheres[0]
        inb = z3.And(p >= 0, p < SL, q >= 0, q < NX)
        goals.append(("stencil cell is used iff its row < n_columns", z3.Implies(inb, (zr(st.get([p, q])) == 1) == (p < NCOL))))
        goals.append(("where() enumerates the cells with stencil == 1", z3.Implies(inb, z3.simplify(w.cond.get([p, q]) if not isinstance(w.cond.get([p, q]), bool) else z3.BoolVal(w.cond.get([p, q]))) == (zr(st.get([p, q])) == 1))))
        k = z3.Int("k")
        ink = z3.And(k >= 0, k < w.n)
        goals.append(("n_stencils = number of enumerated cells", zi(o.attrs["n_stencils"]) == w.n))
        goals.append(("stencil_coords[k] = k-th enumerated cell (row, column)", z3.Implies(ink, z3.And(zi(co.get([k, 0])) == w.coord[0](k), zi(co.get([k, 1])) == w.coord[1](k)))))
        goals.append(("every stencil coordinate lies inside the first n_columns rows of the screen", z3.Implies(ink, z3.And(zi(co.get([k, 0])) >= 0, zi(co.get([k, 0])) < NCOL, zi(co.get([k, 1])) >= 0, zi(co.get([k, 1])) < NX)),
                      {"hyps": [w.axioms_for(k)]}))
        goals.append(("stencil_positions = stencil_coords * pixel_scale", z3.Implies(ink, z3.And(zr(po.get([k, 0])) == zr(co.get([k, 0])) * PIX, zr(po.get([k, 1])) == zr(co.get([k, 1])) * PIX))))
        return goals
    verify(chk, "set_stencil_coords[vonKarman]", IPS + ":PhaseScreenVonKarman.set_stencil_coords", run_st, post_st, clause="geometry", replay=lambda m: {},
           encoding="pointwise + enumeration contract of numpy.where")

    # (2b) calc_seperations: positions = stencil positions followed by the new-row positions
    hq = {}

    def run_cs(it):
        o = screen_obj(it, "PhaseScreenVonKarman")
        sp_, xp_ = sym_arr("stencil_positions", [NST, 2]), sym_arr("X_positions", [NX, 2])
        o.attrs.update(stencil_positions=sp_, X_positions=xp_)
        hq.update(o=o, sp=sp_, xp=xp_)
        it.call_repo(IPS, "PhaseScreen.calc_seperations", [], {}, self_obj=o)
        return it

    def post_cs(pr):
        o, sp_, xp_ = hq["o"], hq["sp"], hq["xp"]
        sep = o.attrs.get("seperations")
        ok = isinstance(sep, Arr) and sep.ndim == 2
        goals = [("seperations is a matrix", z3.BoolVal(ok))]
        if not ok:
            return goals
        tot = NST + NX
        goals.append(("shape=(n_stencils+nx_size)^2", z3.And(zi(sep.shape[0]) == tot, zi(sep.shape[1]) == tot)))
        pos = lambda k, ax: z3.If(k < NST, zr(sp_.get([k, ax])), zr(xp_.get([k - NST, ax])))
        dx, dy = pos(q, 0) - pos(p, 0), pos(q, 1) - pos(p, 1)
        inb = z3.And(p >= 0, p < tot, q >= 0, q < tot)
        goals.append(("seperations[p,q] = distance between point p and point q of (stencil points ++ new-row points)", z3.Implies(inb, zr(sep.get([p, q])) == UF("sqrt")(dx * dx + dy * dy))))
        return goals
    verify(chk, "calc_seperations", IPS + ":PhaseScreen.calc_seperations", run_cs, post_cs, clause="geometry", replay=lambda m: {}, encoding="loop-summary S2 through the numba kernel")

    # (3) covariance blocks
    hc = {}

    def run_cov(it):
        o = screen_obj(it, "PhaseScreenVonKarman")
        sep = sym_arr("seperations", [NST + NX, NST + NX])
        i_, j_ = z3.Int("sy!i"), z3.Int("sy!j")
        o.attrs["seperations"] = sep
        hc.update(o=o, sep=sep)
        it.call_repo(IPS, "PhaseScreen.make_covmats", [], {}, self_obj=o)
        return it

    def post_cov(pr):
        o, sep = hc["o"], hc["sep"]
        a = o.attrs
        goals = []
        Cf = lambda i, j: COV(zr(sep.get([i, j])), R0, L0)
        spec = {"cov_mat_zz": (NST, NST, lambda i, j: Cf(i, j)), "cov_mat_xx": (NX, NX, lambda i, j: Cf(NST + i, NST + j)),
                "cov_mat_zx": (NST, NX, lambda i, j: Cf(i, NST + j)), "cov_mat_xz": (NX, NST, lambda i, j: Cf(NST + i, j))}
        for nm, (d0, d1, f) in spec.items():
            M = a.get(nm)
            ok = isinstance(M, Arr) and M.ndim == 2
            goals.append(("%s is a matrix" % nm, z3.BoolVal(ok)))
            if ok:
                goals.append(("%s.shape" % nm, z3.And(zi(M.shape[0]) == d0, zi(M.shape[1]) == d1)))
                goals.append(("%s = theoretical covariance at the separations of its two point sets" % nm, z3.Implies(z3.And(p >= 0, p < d0, q >= 0, q < d1), zr(M.get([p, q])) == f(p, q))))
        return goals
    verify(chk, "make_covmats", IPS + ":PhaseScreen.make_covmats", run_cov, post_cov, clause="covmats", summaries={(TURB, "phase_covariance"): phase_covariance_summary},
           replay=lambda m: {}, encoding="pointwise block slicing, callee contract phase_covariance")

    # (4) A and B: A Czz = Cxz and A Czz A^T + B B^T = Cxx
    ha = {}

    def run_ab(it):
        o = screen_obj(it, "PhaseScreenVonKarman")
        sep = sym_arr("seperations", [NST + NX, NST + NX])
        i_, j_ = z3.Ints("any!i any!j")
        hc2 = {}
        # separations are symmetric (established by calc_seperations_fast): instantiated at the canonical indices used by the pointwise symmetry / transpose checks
        for (a_, b_) in ((z3.Int("sy!i"), z3.Int("sy!j")), (z3.Int("tr!i"), z3.Int("tr!j"))):
            for (oa, ob) in ((0, 0), (NST, NST), (0, NST), (NST, 0)):
                it.ctx.assume(zr(sep.get([oa + a_, ob + b_])) == zr(sep.get([ob + b_, oa + a_])))
        cov = npmodel.map1(it, sep, lambda v: COV(zr(v), R0, L0), "float")
        zz = npmodel.getitem(it, cov, (slice(None, NST), slice(None, NST))); zz.mat_name = "Czz"
        xx = npmodel.getitem(it, cov, (slice(NST, None), slice(NST, None))); xx.mat_name = "Cxx"
        zx = npmodel.getitem(it, cov, (slice(None, NST), slice(NST, None))); zx.mat_name = "Czx"
        xz = npmodel.getitem(it, cov, (slice(NST, None), slice(None, NST))); xz.mat_name = "Cxz"
        o.attrs.update(cov_mat_zz=zz, cov_mat_xx=xx, cov_mat_zx=zx, cov_mat_xz=xz)
        ha["o"] = o
        # transposition facts between the blocks (pointwise symmetry of the separations) are needed before A is built from Czx and B from A and Czx
        for nm in ("cov_mat_zz", "cov_mat_xx", "cov_mat_zx", "cov_mat_xz"):
            matalg.to_mat(it, o.attrs[nm])
        matalg.link_transposes(it)
        it.call_repo(IPS, "PhaseScreen.makeAMatrix", [], {}, self_obj=o)
        it.call_repo(IPS, "PhaseScreen.makeBMatrix", [], {}, self_obj=o)
        return it, o

    def post_ab(pr):
        it, o = pr.value          # (per-path object: the contract is explored on two paths, Cholesky succeeding / refusing)
        A, B = o.attrs.get("A_mat"), o.attrs.get("B_mat")
        ok = isinstance(A, matalg.Mat) and isinstance(B, matalg.Mat)
        goals = [("A_mat and B_mat are matrix products", z3.BoolVal(ok))]
        if not ok:
            return goals
        alg = matalg.algebra(it)
        M = lambda nm: matalg.to_mat(it, o.attrs[nm])
        goals.append(("Cov_zz symmetric (pointwise)", z3.BoolVal(alg.syms["Czz"].symmetric)))
        goals.append(("Cov_xx symmetric (pointwise)", z3.BoolVal(alg.syms["Cxx"].symmetric)))
        goals.append(("Cov_xz^T = Cov_zx (pointwise)", z3.BoolVal(alg.syms["Cxz"].transpose_of == "Czx")))
        goals.append(("A_mat.shape=(nx_size, n_stencils)", z3.And(zi(A.shape[0]) == NX, zi(A.shape[1]) == NST)))
        goals.append(("B_mat.shape=(nx_size, nx_size)", z3.And(zi(B.shape[0]) == NX, zi(B.shape[1]) == NX)))
        checks = [("A.Cov_zz = Cov_xz", matalg.dot(it, A, M("cov_mat_zz")), M("cov_mat_xz")),
                  ("A.Cov_zz.A^T + B.B^T = Cov_xx", matalg.dot(it, matalg.dot(it, A, M("cov_mat_zz")), A.T()).__aovc_binop__(it, "Add", matalg.dot(it, B, B.T()), False), M("cov_mat_xx"))]
        for nm, lhs, rhs in checks:
            okk, resid = matalg.equal(it, lhs, rhs)
            if okk:
                goals.append((nm, z3.BoolVal(True)))
            else:
                verdict, _ = matalg.refute_2x2(it, lhs, rhs)
                goals.append((nm + " [residual %s; 2x2 interpretation: %s]" % (matalg.show(resid)[:160], verdict), z3.BoolVal(False)))
        return goals
    verify(chk, "makeAMatrix+makeBMatrix", IPS + ":PhaseScreen.makeAMatrix,PhaseScreen.makeBMatrix", run_ab, post_ab, clause="AB-identities", replay=lambda m: {},
           allow_raise=lambda pr: pr.raised is not None and "LinAlgError" in pr.raised.what,      # construction may refuse (the statement quantifies over successful constructions)
           encoding="matrix-algebra rewriting with cho_solve / svd contracts; pointwise symmetry of the covariance blocks")

    # (5) row synthesis: new_row = A.Z + B.b ; Fried variant: A.(Z - ref) + B.b + ref, so a constant added to the screen is added to the new row
    for cls in ("PhaseScreenVonKarman", "PhaseScreenKolmogorov"):
        hr = {}

        def run_row(it, cls=cls, hr=hr):
            o = screen_obj(it, cls)
            alg = matalg.algebra(it)
            alg.sym("A", [NX, NST]); alg.sym("B", [NX, NX])
            A = matalg.Mat(it, {(("A", False),): 1}, [NX, NST])
            Bm = matalg.Mat(it, {(("B", False),): 1}, [NX, NX])
            coords = sym_arr("stencil_coords", [NST, 2], dtype="int")
            gen = npmodel.GenObj("seed")
            scr = sym_arr("_scrn", [SL, NX])
            k_ = z3.Int("m!0")
            it.ctx.assume(z3.And(zi(coords.get([k_, 0])) >= 0, zi(coords.get([k_, 0])) < SL, zi(coords.get([k_, 1])) >= 0, zi(coords.get([k_, 1])) < NX))
            it.ctx.assume(z3.And(SL >= 2, NX >= 2))
            o.attrs.update(A_mat=A, B_mat=Bm, stencil_coords=coords, _R=gen, _scrn=scr, reference_coord=(1, 1))
            hr.update(o=o, gen=gen, scr=scr, coords=coords)
            meth = "PhaseScreen.get_new_row" if cls == "PhaseScreenVonKarman" else "PhaseScreenKolmogorov.get_new_row"
            row = it.call_repo(IPS, meth, [], {}, self_obj=o)
            hr["row"] = row
            if cls == "PhaseScreenKolmogorov":
                # the same step on the screen shifted by a constant c, with the same innovation vector
                cst = z3.Real("cshift")
                gen2 = npmodel.GenObj("seed"); gen2.id = gen.id
                o2 = Obj(o.cls, dict(o.attrs))
                scr2 = Arr([SL, NX], lambda idx: zr(scr.get(idx)) + cst, "float")
                o2.attrs.update(_scrn=scr2, _R=gen2)
                hr["row2"] = it.call_repo(IPS, meth, [], {}, self_obj=o2)
                hr["c"] = cst
            return it

        def post_row(pr, cls=cls, hr=hr):
            it = pr.value
            row, gen, scr, coords = hr["row"], hr["gen"], hr["scr"], hr["coords"]
            ok = isinstance(row, matalg.Mat)
            goals = [("new row is an affine image of the stencil data and the innovation", z3.BoolVal(ok))]
            if not ok:
                return goals
            alg = matalg.algebra(it)
            goals.append(("shape=(1, nx_size)", z3.And(zi(row.shape[0]) == 1, zi(row.shape[1]) == NX) if len(row.shape) == 2 else z3.BoolVal(False)))
            goals.append(("exactly one innovation vector drawn from the per-instance generator", z3.BoolVal(gen.draws == 1)))
            words = list(row.poly.items())
            aw = [w for w, c_ in words if w and w[0] == ("A", False)]
            bw = [w for w, c_ in words if w and w[0] == ("B", False)]
            goals.append(("row = A.Z + B.b%s" % (" + ref" if cls == "PhaseScreenKolmogorov" else ""), z3.BoolVal(len(aw) == 1 and len(bw) == 1 and len(aw[0]) == 2 and len(bw[0]) == 2 and
                                                                                                                len(words) == (3 if cls == "PhaseScreenKolmogorov" else 2))))
            if not (len(aw) == 1 and len(bw) == 1 and len(aw[0]) == 2 and len(bw[0]) == 2):
                return goals
            Z = alg.syms[aw[0][1][0]].arr
            b_ = alg.syms[bw[0][1][0]].arr
            k = z3.Int("k")
            inb = z3.And(k >= 0, k < NST)
            zval = zr(scr.get([zi(coords.get([k, 0])), zi(coords.get([k, 1]))]))
            if cls == "PhaseScreenKolmogorov":
                zval = zval - zr(scr.get([1, 1]))
            goals.append(("Z[k] = screen value at stencil coordinate k%s" % (" minus the reference pixel" if cls == "PhaseScreenKolmogorov" else ""), z3.Implies(inb, zr(Z.get([k])) == zval)))
            goals.append(("Z has one entry per stencil point", zi(Z.shape[0]) == NST))
            bsrc = getattr(alg.syms[bw[0][1][0]], "src", None)
            goals.append(("b is the fresh unit-normal draw of length nx_size", z3.BoolVal(bsrc is not None and getattr(bsrc.rootarr(), "is_draw", None) == (gen.id, 1))))
            goals.append(("b.shape", zi(b_.shape[0]) == NX))
            if cls == "PhaseScreenKolmogorov":
                row2, cst = hr["row2"], hr["c"]
                okk, resid = matalg.equal(it, row2.__aovc_binop__(it, "Sub", row, False), matalg.Mat(it, {}, row.shape).__aovc_binop__(it, "Add", cst, False))
                goals.append(("adding a constant to the whole screen adds exactly that constant to the new row [residual %s]" % matalg.show(resid)[:120], z3.BoolVal(okk)))
            return goals
        verify(chk, "get_new_row[%s]" % cls, IPS + ":" + ("PhaseScreen" if cls == "PhaseScreenVonKarman" else cls) + ".get_new_row", run_row, post_row, clause="row", replay=lambda m: {},
               encoding="matrix-algebra (affine form) + pointwise stencil gather")
