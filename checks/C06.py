"""C06 Seeded screens are reproducible and instances are isolated."""
import sys, os
sys.path.insert(0, os.path.dirname(os.path.dirname(os.path.abspath(__file__))))
import z3
from aovc.check import run_check
from aovc import effects, seedflow, frontend

PS = "aotools/turbulence/phasescreen.py"
IPS = "aotools/turbulence/infinitephasescreen.py"
FUNCS = [(PS, "ft_phase_screen"), (PS, "ft_sh_phase_screen"), (PS, "ift2"),
         (IPS, "PhaseScreen.make_initial_screen"), (IPS, "PhaseScreen.get_new_row"), (IPS, "PhaseScreen.add_row"), (IPS, "PhaseScreen.scrn"),
         (IPS, "PhaseScreen.set_X_coords"), (IPS, "PhaseScreen.set_stencil_coords"), (IPS, "PhaseScreen.calc_seperations"), (IPS, "PhaseScreen.make_covmats"),
         (IPS, "PhaseScreen.makeAMatrix"), (IPS, "PhaseScreen.makeBMatrix"),
         (IPS, "PhaseScreenVonKarman.__init__"), (IPS, "PhaseScreenVonKarman.set_stencil_coords"),
         (IPS, "PhaseScreenKolmogorov.__init__"), (IPS, "PhaseScreenKolmogorov.get_new_row"), (IPS, "PhaseScreenKolmogorov.__repr__"),
         (IPS, "find_allowed_size"), (IPS, "calc_seperations_fast"), ("aotools/turbulence/turb.py", "phase_covariance")]


def build(chk):
    an = effects.Analyzer()
    # every method of the screen classes is in scope (a new helper method added later is analysed too)
    funcs = list(FUNCS)
    mod = frontend.load(IPS)
    for q in mod.funcs:
        if (IPS, q) not in funcs:
            funcs.append((IPS, q))
    pmod = frontend.load(PS)
    for q in pmod.funcs:
        if (PS, q) not in funcs:
            funcs.append((PS, q))
    flows = {}
    for rel, q in funcs:
        m = frontend.load(rel)
        if q not in m.funcs:
            chk.add("%s.exists" % q, [], z3.BoolVal(False), rel + ":" + q, "static", "reproducible")
            continue
        fname = "%s:%s" % (rel, q)
        chk.functions[fname] = {"sha256": m.sha256, "dropped": frontend.dropped(m.funcs[q])}
        s = an.summary(m, q)
        # reads/writes only arguments, self.* and fresh objects: no module-level state, no global RNG, no clock, no memoisation
        chk.add("%s.no-hidden-state%s" % (q, ("[" + "; ".join(h.what for h in s.hidden)[:140] + "]") if s.hidden else ""), [], z3.BoolVal(not s.hidden), fname,
                "effects-analysis", "reproducible", kind="frame")
        for k, site in enumerate(s.sites):
            glob = [r for r in site.roots if r[0] in ("G", "C")]
            chk.add("%s.no-module-state-write.%d[line %d: %s]" % (q, k, site.lineno, site.what[:60]), [], z3.BoolVal(not glob), fname, "effects-analysis", "isolation", kind="frame")
        for u in s.undecided:
            chk.unsupported.append((fname, "effects analysis undecided at line %d: %s" % (u.lineno, u.what)))
        # module-level mutable objects read by the function (shared between instances / calls)
        import ast
        mut = an.mutables(m)
        reads = sorted({n.id for n in ast.walk(m.funcs[q]) if isinstance(n, ast.Name) and n.id in mut})
        chk.add("%s.reads-no-module-level-mutable%s" % (q, reads or ""), [], z3.BoolVal(not reads), fname, "effects-analysis", "isolation", kind="frame")
        fl = seedflow.SeedFlow(m, q)
        for k, site in enumerate(fl.run()):
            chk.add("%s.seed-flow.%d[line %d: %s]" % (q, k, site.lineno, site.what[:110]), [], z3.BoolVal(bool(site.ok)), fname, "seed-flow analysis", "reproducible", kind="frame")
        flows.setdefault(rel, {})[q] = fl
    for rel, fls in flows.items():
        for k, site in enumerate(seedflow.call_site_obligations(fls)):
            chk.add("call-site.seed-flow.%d[%s line %d: %s]" % (k, site.func.split(":")[-1], site.lineno, site.what[:110]), [], z3.BoolVal(bool(site.ok)), site.func, "seed-flow analysis (call sites)", "reproducible", kind="frame")
    chk.assumptions_used.update(["A-NP"])
    chk.notes.append("library contract: numpy.random.default_rng(int) is a deterministic function of the int, default_rng(Generator) returns the same object, Generator.normal mutates only its receiver; FFT and numba kernels are deterministic")
    chk.notes.append("with these frame clauses the returned screen and every later row are terms over (arguments, seed) only, so nothing another call or instance can touch occurs in them")
    chk.not_decided.append("different seeds give different screens and unseeded calls differ (probabilistic / entropy statement)")
    if True:       # bounded native stand-in (interleaved histories of several instances), every tier; longer histories in the thorough tier
        fam = chk.native("family", None, None)
        chk.native_evals += int(fam.get("evaluations", 0) or 0)
        chk.bounded.append({"name": "native reproducibility histories", "bound": "see native/C06.py", "evaluations": fam.get("evaluations"), "result": fam.get("status"), "detail": fam.get("message")})
        if fam.get("status") == "fail":
            path = chk.write_replay(None, fam.get("inputs"), fam, True)
            chk.violations.append(("native", path, True))
            print("FAILED native reproducibility: %s" % fam.get("message"))
            print("VIOLATION property=C06 replay=%s" % os.path.relpath(path, os.path.dirname(os.path.dirname(os.path.abspath(__file__)))))


if __name__ == "__main__":
    sys.exit(run_check("C06", "Seeded screens are reproducible and instances are isolated", build))
