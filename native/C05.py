import sys, os
sys.path.insert(0, os.path.dirname(os.path.abspath(__file__)))
import numpy
from _harness import main
import aotools


def bad(msg, obs=None, exp=None):
    return {"message": msg, "observed": obs, "expected": exp}


def chk_history(inp):
    steps = int((inp or {}).get("steps", 120))
    cases = [(aotools.PhaseScreenVonKarman, 8, {"n_columns": 2}), (aotools.PhaseScreenVonKarman, 13, {"n_columns": 3}), (aotools.PhaseScreenKolmogorov, 8, {"stencil_length_factor": 2}),
             (aotools.PhaseScreenKolmogorov, 12, {"stencil_length_factor": 2}), (aotools.PhaseScreenKolmogorov, 6, {"stencil_length_factor": 3})]
    # (class, size, keywords[, (pixel_scale, r0, L0)]): the last entries are fine-sampling / large-outer-scale screens whose innovation
    # covariance is numerically indefinite / whose covariance matrix is badly conditioned but which must build and run
    cases += [(aotools.PhaseScreenKolmogorov, 16, {}, (0.05, 0.2, 1000.)), (aotools.PhaseScreenKolmogorov, 8, {}, (0.002, 0.2, 50.)), (aotools.PhaseScreenKolmogorov, 16, {}, (0.05, 0.1, 1000.)),
              (aotools.PhaseScreenVonKarman, 8, {"n_columns": 2}, (0.5, 0.2, 1e5)), (aotools.PhaseScreenVonKarman, 8, {"n_columns": 2}, (0.5, 0.2, 1e6)), (aotools.PhaseScreenVonKarman, 8, {"n_columns": 2}, (0.5, 0.2, 1e8))]
    for case in cases:
        cls, n, kw = case[:3]
        pix, r0_, L0_ = case[3] if len(case) > 3 else (0.1, 0.2, 20.)
        try:
            a = cls(n, pix, r0_, L0_, random_seed=11, **kw)
            twin = cls(n, pix, r0_, L0_, random_seed=11, **kw)         # never read / printed: same stream must give the same rows
        except (numpy.linalg.LinAlgError, ValueError) as ex:
            return bad("%s(%d, pixel_scale=%g, r0=%g, L0=%g) cannot be built: %s" % (cls.__name__, n, pix, r0_, L0_, str(ex)[:80]), type(ex).__name__, "a screen")
        if len(case) > 3:
            steps_here = min(steps, 60)
        else:
            steps_here = steps
        if a.scrn.shape != (n, n):
            return bad("%s(%d): exposed screen shape" % (cls.__name__, n), list(a.scrn.shape), [n, n])
        for k in range(1, steps_here + 1):
            prev_full = a._scrn.copy()
            prev = a.scrn.copy()
            repr(a); _ = a.scrn
            new = a.add_row()
            tw = twin.add_row()
            if new.shape != (n, n) or a._scrn.shape != prev_full.shape:
                return bad("%s(%d) step %d: shape changed" % (cls.__name__, n, k), list(new.shape), [n, n])
            if not numpy.all(numpy.isfinite(new)):
                return bad("%s(%d) step %d: non-finite values" % (cls.__name__, n, k))
            if not numpy.array_equal(new[1:], prev[:-1]) or not numpy.array_equal(a._scrn[1:], prev_full[:-1]):
                return bad("%s(%d) step %d: the screen is not the previous screen shifted down by exactly one row (something else changed)" % (cls.__name__, n, k),
                           float(abs(a._scrn[1:] - prev_full[:-1]).max()), 0.0)
            if not numpy.array_equal(new, tw):
                return bad("%s(%d) step %d: reading / printing the screen altered it or the random stream" % (cls.__name__, n, k))


def chk_stable(inp):
    """badly conditioned but constructible screens: the row recursion must not amplify (spectral radius <= 1): values stay of the order of the
    screen's own excursions over thousands of rows"""
    for cls, args, kw in ((aotools.PhaseScreenVonKarman, (16, 0.01, 0.2, 1e7), {"n_columns": 2}), (aotools.PhaseScreenKolmogorov, (17, 0.1, 0.2, 1e8), {"stencil_length_factor": 2})):
        s = cls(*args, random_seed=1, **kw)
        start = max(abs(s.scrn).max(), 1.0)
        for k in range(1500):
            s.add_row()
        if not numpy.all(numpy.isfinite(s.scrn)) or abs(s.scrn).max() > 1e3 * start:
            return bad("%s%r: after 1500 rows the screen has grown from %.3g to %.3g (unstable row recursion)" % (cls.__name__, args, start, float(abs(s.scrn).max())), float(abs(s.scrn).max()), "< %g" % (1e3 * start))


def chk_multi(inp):
    """several screens in one process with the same geometry but different r0 / L0: each keeps its own statistics (row variance scale)"""
    for cls, kw in ((aotools.PhaseScreenVonKarman, {"n_columns": 2}),):
        outs = []
        for r0 in (0.25, 0.08, 0.15):
            s = cls(16, 0.1, r0, 20., random_seed=3, **kw)
            fresh = cls(16, 0.1, r0, 20., random_seed=3, **kw)
            if not (numpy.array_equal(s.A_mat, fresh.A_mat) and numpy.array_equal(s.B_mat, fresh.B_mat)):
                return bad("matrices of a screen depend on screens built earlier")
            outs.append(numpy.abs(s.B_mat).max())
        ratio = outs[1] / outs[0]
        want = (0.08 / 0.25) ** (-5. / 6)
        if abs(ratio / want - 1) > 1e-6:
            return bad("innovation matrix B does not scale as r0^(-5/6) between screens of the same geometry built in one process", float(ratio), float(want))


CLAUSES = {"add_row": (chk_history, lambda t, s: [{"steps": 120 if t == "quick" else 600}]), "read": (chk_history, lambda t, s: [{"steps": 40}]), "init": (chk_history, lambda t, s: [{"steps": 3}]),
           "multi": (chk_multi, lambda t, s: [{}]), "stable": (chk_stable, lambda t, s: [{}])}
if __name__ == "__main__":
    main(CLAUSES)
