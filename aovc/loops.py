"""Loops.

* literal / concrete trip counts are unrolled completely (complete, not bounded);
* `for` loops over a symbolic range are replaced by a *summary* (schemas S1..S5 of DESIGN.md 4.1):
  the body is executed ONCE for a generic iteration k (lo <= k < hi, on the range's grid) from a
  state in which every loop-carried location is replaced by its per-iteration abstraction, and the
  effect of all iterations is assembled from that generic effect.  The applicability conditions
  (independence of iterations, injectivity of store indices) are emitted as obligations;
* `while` loops with a symbolic condition need an annotation (explicit invariant) or are unsupported.
Termination is not verified.
"""
import ast
import z3

from .values import *      # noqa
from .values import _num
from .arrays import Arr, const_arr, dim_eq
from .symex import (SymRange, BreakEx, ContinueEx, ReturnEx, Frame, Obj, Unsupported as _U, MAX_UNROLL)
from . import npmodel


def iterate_concrete(it, iterable):
    """python list of items for an iterable with a concrete trip count, or None"""
    if isinstance(iterable, (list, tuple, range)):
        return list(iterable)
    if isinstance(iterable, npmodel.Enumerate):
        inner = iterate_concrete(it, iterable.inner)
        if inner is None:
            return None
        return [(k, v) for k, v in enumerate(inner)]
    if isinstance(iterable, npmodel.Zip):
        inners = [iterate_concrete(it, x) for x in iterable.inners]
        if any(x is None for x in inners):
            return None
        return [tuple(t) for t in zip(*inners)]
    if isinstance(iterable, Arr):
        if iterable.ndim == 0:
            raise npmodel.PyException("TypeError", "iteration over a 0-d array")
        d0 = iterable.shape[0]
        if is_conc(d0):
            return [npmodel.getitem(it, iterable, (k,)) for k in range(int(d0))]
        return None
    if isinstance(iterable, SymRange):
        return None
    if isinstance(iterable, dict):
        return list(iterable.keys())
    raise Unsupported("iteration over %s" % type(iterable).__name__)


def exec_for(it, s, fr):
    iterable = it.eval(s.iter, fr)
    items = iterate_concrete(it, iterable)
    if items is not None:
        if len(items) > MAX_UNROLL:
            raise Unsupported("loop with %d iterations" % len(items))
        broke = False
        for x in items:
            it.assign(s.target, x, fr)
            try:
                it.exec_block(s.body, fr)
            except BreakEx:
                broke = True
                break
            except ContinueEx:
                continue
        if not broke and s.orelse:
            it.exec_block(s.orelse, fr)
        return
    from . import loopsum
    return loopsum.summarise_for(it, s, fr, iterable)


def exec_while(it, s, fr):
    # concrete unrolling while the condition is decided by the path condition
    n = 0
    while True:
        c = it.truth(it.eval(s.test, fr))
        d = c if isinstance(c, bool) else it.ctx.decide(c)
        if d is None:
            return havoc_while(it, s, fr, c)
        if not d:
            break
        n += 1
        if n > MAX_UNROLL:
            raise Unsupported("while loop exceeded %d iterations" % MAX_UNROLL)
        try:
            it.exec_block(s.body, fr)
        except BreakEx:
            return
        except ContinueEx:
            continue
    if s.orelse:
        it.exec_block(s.orelse, fr)


def havoc_while(it, s, fr, cond_now):
    """`while` with a symbolic condition: partial-correctness rule with the trivial invariant.  Allowed only when the body assigns
    scalar local names and nothing else (no stores into arrays / attributes, no calls other than pure scalar arithmetic); the assigned
    names become unconstrained (havoc) and the negated loop condition is assumed at the exit.  Termination is not verified."""
    assigned = set()
    for n in ast.walk(ast.Module(body=s.body, type_ignores=[])):
        if isinstance(n, (ast.Assign, ast.AugAssign, ast.AnnAssign)):
            targets = n.targets if isinstance(n, ast.Assign) else [n.target]
            for t in targets:
                if isinstance(t, ast.Name):
                    assigned.add(t.id)
                else:
                    raise Unsupported("while loop (symbolic condition) storing into %s" % type(t).__name__)
        elif isinstance(n, (ast.Call, ast.For, ast.While, ast.Return, ast.Raise, ast.Try, ast.With, ast.Delete)):
            if isinstance(n, ast.Call) and isinstance(n.func, ast.Name) and n.func.id in ("int", "float", "abs", "round"):
                continue
            raise Unsupported("while loop (symbolic condition) containing %s" % type(n).__name__)
        elif isinstance(n, ast.Break):
            raise Unsupported("break inside a while loop with a symbolic condition")
    if s.orelse:
        raise Unsupported("while/else with a symbolic condition")
    # monotone counters: a name only ever updated by `name += positive literal` keeps  name >= its value at loop entry
    incr_only = set(assigned)
    for n in ast.walk(ast.Module(body=s.body, type_ignores=[])):
        if isinstance(n, ast.Assign) or isinstance(n, ast.AnnAssign):
            for t in (n.targets if isinstance(n, ast.Assign) else [n.target]):
                if isinstance(t, ast.Name):
                    incr_only.discard(t.id)
        elif isinstance(n, ast.AugAssign) and isinstance(n.target, ast.Name):
            if not (isinstance(n.op, ast.Add) and isinstance(n.value, ast.Constant) and isinstance(n.value.value, (int, float)) and n.value.value > 0):
                incr_only.discard(n.target.id)
    for name in assigned:
        cur = fr.env.get(name)
        if cur is None or not is_scalar(cur):
            raise Unsupported("while loop assigns non-scalar %s" % name)
        new = it.ctx.fresh_int("havoc_" + name) if is_int_valued(cur) else it.ctx.fresh_real("havoc_" + name)
        if name in incr_only:
            it.ctx.assume(cmp(">=", new, cur))
        fr.env[name] = new
    c = it.truth(it.eval(s.test, fr))
    it.ctx.assume(b_not(c))
    it.ctx.notes.append("while loop at line %d summarised by its exit condition (variables %s havoc; termination not verified)" % (s.lineno, sorted(assigned)))
