"""Seed-flow analysis for property C06: every random draw of the screen generators must come from a generator that is a
deterministic function of the caller's seed (or of the per-instance generator), in a way that does not depend on anything else.

Abstract values: "SEED" (the seed parameter / self.random_seed, possibly None by the caller's choice), "GEN" (a Generator built from SEED,
or the per-instance generator self._R), "NONE" (literal None), "DERIVED" (a deterministic function of draws of a GEN), "OTHER".
Obligations (one per site):
  * every numpy.random.default_rng(x) call has x in {SEED, GEN};  a value that may be NONE where a seed was given (e.g. guarded by
    the truthiness of the seed, which is False for seed=0) fails;
  * every draw (.normal / .standard_normal / .random / .uniform / .integers / .choice ...) has a GEN receiver;
  * `seed=` arguments passed to repository screen functions are SEED or GEN;
  * self._R is assigned only from default_rng(self.random_seed) and self.random_seed only from the constructor parameter.
Path sensitivity: only tests of the form `x is None` / `x is not None` refine None-ness; any other test (truthiness) does not."""
import ast

DRAWS = {"normal", "standard_normal", "random", "uniform", "integers", "choice", "permutation", "shuffle", "bytes", "exponential", "poisson"}


class SeedSite:
    def __init__(self, func, lineno, what, ok):
        self.func, self.lineno, self.what, self.ok = func, lineno, what, ok


class SeedFlow:
    def __init__(self, mod, qualname, seed_params=("seed", "random_seed")):
        self.mod, self.qualname = mod, qualname
        self.fn = mod.funcs[qualname]
        self.fname = "%s:%s" % (mod.relpath, qualname)
        self.sites = []
        self.seed_params = seed_params
        self.requires = set()      # "PARAM:x" (x must be a seeded generator at every call site) / "PARAM_R:x" (x must be an instance whose _R is seeded)
        self.edges = []            # calls of repository functions of the same module: (callee qualname, [abstract values], {kw: abstract values}, lineno)

    def run(self):
        env = {}
        for a in self.fn.args.args:
            if a.arg in self.seed_params:
                env[a.arg] = {"SEED"}
            elif a.arg == "self":
                env[a.arg] = {"SELF"}
            else:
                env[a.arg] = {"PARAM:" + a.arg}      # a helper may be handed the generator (or the screen object) by its caller
        self.block(self.fn.body, env)
        return self.sites

    def block(self, stmts, env):
        for st in stmts:
            self.stmt(st, env)

    def stmt(self, st, env):
        if isinstance(st, ast.Assign):
            v = self.expr(st.value, env)
            for t in st.targets:
                self.bind(t, v, env, st)
        elif isinstance(st, ast.AugAssign):
            self.expr(st.value, env)
        elif isinstance(st, ast.Expr):
            self.expr(st.value, env)
        elif isinstance(st, ast.Return):
            if st.value is not None:
                self.expr(st.value, env)
        elif isinstance(st, ast.If):
            self.expr(st.test, env)
            e1, e2 = {k: set(v) for k, v in env.items()}, {k: set(v) for k, v in env.items()}
            self.refine(st.test, e1, e2)
            self.block(st.body, e1)
            self.block(st.orelse, e2)
            for k in set(e1) | set(e2):
                env[k] = set(e1.get(k, set())) | set(e2.get(k, set()))
        elif isinstance(st, (ast.For, ast.While)):
            if isinstance(st, ast.For):
                self.expr(st.iter, env)
                self.bind(st.target, {"OTHER"}, env, st)
            else:
                self.expr(st.test, env)
            for _ in range(2):
                self.block(st.body, env)
            self.block(st.orelse, env)
        elif isinstance(st, ast.Try):
            self.block(st.body, env)
            for h in st.handlers:
                self.block(h.body, env)
            self.block(st.orelse, env)
            self.block(st.finalbody, env)
        elif isinstance(st, ast.With):
            for item in st.items:
                self.expr(item.context_expr, env)
            self.block(st.body, env)

    def refine(self, test, e_true, e_false):
        if isinstance(test, ast.Compare) and len(test.ops) == 1 and isinstance(test.comparators[0], ast.Constant) and test.comparators[0].value is None \
                and isinstance(test.left, ast.Name) and isinstance(test.ops[0], (ast.Is, ast.IsNot)):
            n = test.left.id
            none_env, some_env = (e_true, e_false) if isinstance(test.ops[0], ast.Is) else (e_false, e_true)
            if n in none_env:
                none_env[n] = {"NONE-BY-CALLER"} if "SEED" in none_env[n] else {"NONE"}
            if n in some_env:
                some_env[n] = {x for x in some_env[n] if x != "NONE"} or {"OTHER"}

    def bind(self, t, v, env, st):
        if isinstance(t, ast.Name):
            env[t.id] = set(v)
        elif isinstance(t, (ast.Tuple, ast.List)):
            for e in t.elts:
                self.bind(e, {"OTHER"}, env, st)
        elif isinstance(t, ast.Attribute) and isinstance(t.value, ast.Name) and t.value.id == "self":
            if t.attr == "_R":
                ok = v <= {"GEN"} and isinstance(st.value, ast.Call) and ast.unparse(st.value.func).endswith("default_rng") and \
                    len(st.value.args) == 1 and ast.unparse(st.value.args[0]) == "self.random_seed"
                self.sites.append(SeedSite(self.fname, st.lineno, "self._R assigned from default_rng(self.random_seed) only [got %s]" % ast.unparse(st.value)[:50], ok))
            if t.attr == "random_seed":
                ok = v <= {"SEED"}
                self.sites.append(SeedSite(self.fname, st.lineno, "self.random_seed assigned from the constructor's seed parameter only", ok))
            env["self." + t.attr] = set(v)

    def expr(self, e, env):
        if e is None:
            return {"OTHER"}
        if isinstance(e, ast.Constant):
            return {"NONE"} if e.value is None else {"OTHER"}
        if isinstance(e, ast.Name):
            return set(env.get(e.id, {"OTHER"}))
        if isinstance(e, ast.Attribute):
            if isinstance(e.value, ast.Name) and e.value.id == "self":
                if e.attr == "_R":
                    return {"GEN"}
                if e.attr == "random_seed":
                    return {"SEED"}
                return set(env.get("self." + e.attr, {"OTHER"}))
            base = self.expr(e.value, env)
            if e.attr == "_R" and base and all(b == "SELF" or b.startswith("PARAM:") for b in base):
                return {"GEN" if b == "SELF" else "PARAM_R:" + b[6:] for b in base}
            return {"OTHER"}
        if isinstance(e, ast.IfExp):
            self.expr(e.test, env)
            e1, e2 = {k: set(v) for k, v in env.items()}, {k: set(v) for k, v in env.items()}
            self.refine(e.test, e1, e2)
            return self.expr(e.body, e1) | self.expr(e.orelse, e2)
        if isinstance(e, ast.BoolOp):
            out = set()
            for v in e.values:
                out |= self.expr(v, env)
            return out
        if isinstance(e, ast.Call):
            return self.call(e, env)
        for c in ast.iter_child_nodes(e):
            if isinstance(c, ast.expr):
                self.expr(c, env)
        return {"OTHER"}

    def call(self, e, env):
        args = [self.expr(a, env) for a in e.args]
        kw = {k.arg: self.expr(k.value, env) for k in e.keywords}
        ftxt = ast.unparse(e.func)
        if ftxt.endswith("default_rng"):
            x = args[0] if args else kw.get("seed", {"NONE"})
            ok = x <= {"SEED", "GEN", "NONE-BY-CALLER"}
            self.sites.append(SeedSite(self.fname, e.lineno, "default_rng(%s) is seeded by the caller's seed / generator [abstract value %s]" % (ast.unparse(e.args[0]) if e.args else "", sorted(x)), ok))
            return {"GEN"}
        if isinstance(e.func, ast.Attribute):
            recv = self.expr(e.func.value, env)
            if e.func.attr in DRAWS:
                base = ast.unparse(e.func.value)
                if base.startswith("numpy.random") or base in ("random", "np.random"):
                    self.sites.append(SeedSite(self.fname, e.lineno, "draw %s.%s uses a global generator" % (base, e.func.attr), False))
                    return {"OTHER"}
                handed = {r for r in recv if r.startswith("PARAM:") or r.startswith("PARAM_R:")}
                ok = bool(recv) and (recv - handed) <= {"GEN"}
                self.requires |= handed          # discharged at the call sites (seedflow.call_site_obligations)
                self.sites.append(SeedSite(self.fname, e.lineno, "draw .%s() comes from the seeded generator%s [receiver %s : %s]" % (
                    e.func.attr, " (handed in by the caller: checked at the call sites)" if handed else "", base, sorted(recv)), ok))
                return {"DERIVED"}
        callee = None
        if isinstance(e.func, ast.Name) and e.func.id in self.mod.funcs:
            callee = e.func.id
        elif isinstance(e.func, ast.Attribute) and isinstance(e.func.value, ast.Name) and e.func.value.id == "self" and "." in self.qualname:
            for q in self.mod.funcs:
                if q.endswith("." + e.func.attr):
                    callee = q
                    args = [{"SELF"}] + args
                    break
        if callee is not None:
            self.edges.append((callee, args, kw, e.lineno))
        # a repository function that takes a seed must be GIVEN one by a seeded caller: omitting it lets the callee seed itself from OS entropy
        target = None
        if callee is not None:
            target = self.mod.funcs.get(callee)
        elif isinstance(e.func, ast.Attribute) and isinstance(e.func.value, ast.Name):
            try:
                from . import frontend
                r = frontend.resolve_name(self.mod, e.func.value.id)
                if r is not None and r[0] == "module" and e.func.attr in r[1].funcs:
                    target = r[1].funcs[e.func.attr]
            except Exception:
                target = None
        if target is not None:
            params = [a.arg for a in target.args.args]
            if params and params[0] == "self" and callee is not None and "." in callee:
                pass
            for sp in self.seed_params:
                if sp in params:
                    pos = params.index(sp) - (1 if (params and params[0] == "self" and not (callee is not None and args and args[0] == {"SELF"})) else 0)
                    given = sp in kw or (0 <= pos < len(e.args) + (1 if (callee is not None and args and args[0] == {"SELF"} and len(args) > len(e.args)) else 0))
                    if not given:
                        self.sites.append(SeedSite(self.fname, e.lineno, "call of %s omits its %s argument (the callee would seed itself from OS entropy)" % (ftxt[:40], sp), False))
        if "seed" in kw:
            x = kw["seed"]
            ok = x <= {"SEED", "GEN", "NONE-BY-CALLER"}
            self.sites.append(SeedSite(self.fname, e.lineno, "seed= passed to %s is the caller's seed / generator [abstract value %s]" % (ftxt[:40], sorted(x)), ok))
        if ftxt in ("int", "float") and args and args[0] & {"DERIVED"}:
            return {"DERIVED"}
        return {"OTHER"}



def call_site_obligations(flows):
    """flows: {qualname: SeedFlow (already run)} of one module.  A helper that draws from a generator (or from the _R of an
    instance) it receives as a parameter is fine iff every call site inside the module passes a seeded generator (resp. self or
    an instance handed down the same way).  Requirements of helpers are propagated to their callers' parameters until a fixed
    point; a function nobody in the module calls keeps the requirement as a precondition on ITS caller (the caller's generator,
    like seed=Generator).  Returns a list of SeedSite."""
    sites = []
    changed = True
    seen = set()
    while changed:
        changed = False
        for q, fl in flows.items():
            for req in sorted(fl.requires):
                kind, pname = req.split(":", 1)
                params = [a.arg for a in fl.fn.args.args]
                if pname not in params:
                    continue
                pos = params.index(pname)
                for cq, cf in flows.items():
                    for (callee, args, kw, lineno) in cf.edges:
                        if callee != q:
                            continue
                        v = kw.get(pname, args[pos] if pos < len(args) else None)
                        key = (cq, q, req, lineno)
                        if key in seen:
                            continue
                        seen.add(key)
                        if v is None:
                            sites.append(SeedSite(cf.fname, lineno, "call of %s does not pass %s" % (q, pname), False))
                            continue
                        good = {"GEN"} if kind == "PARAM" else {"SELF"}
                        handed = {x for x in v if x.startswith("PARAM:")}
                        ok = bool(v) and (v - handed) <= good
                        for h in handed:       # the caller was itself handed the object: its callers must satisfy the same requirement
                            new = ("PARAM:" if kind == "PARAM" else "PARAM_R:") + h[6:]
                            if new not in cf.requires:
                                cf.requires.add(new)
                                changed = True
                        sites.append(SeedSite(cf.fname, lineno, "call of %s passes %s for %s [abstract value %s]" % (
                            q, "a seeded generator" if kind == "PARAM" else "an instance whose generator is seeded (self)", pname, sorted(v)), ok))
    return sites
