"""C05 Infinite screen evolves by exactly one row per step, for any history."""
import sys, os
sys.path.insert(0, os.path.dirname(os.path.dirname(os.path.abspath(__file__))))
from aovc.check import run_check
from contracts import infscreen


def build(chk):
    chk.assumptions_used.update(["A-REAL", "A-NP"])
    infscreen.c05_obligations(chk)
    infscreen.row_frame_obligations(chk)
    chk.bounded_native("histories of add_row / read / print on both variants (internal size larger than requested)", "add_row", "5 constructions, 120 steps (quick) / 600 (thorough)", "aotools/turbulence/infinitephasescreen.py:PhaseScreen.add_row")
    chk.bounded_native("badly conditioned but constructible screens (outer scale 1e7 / 1e8 m): 1500 rows stay finite and of the size of the initial screen (stable recursion)", "stable", "2 constructions x 1500 rows", "aotools/turbulence/infinitephasescreen.py:PhaseScreen.makeAMatrix")
    chk.bounded_native("several screens of one geometry and different r0 in one process keep their own matrices", "multi", "3 screens", "aotools/turbulence/infinitephasescreen.py:PhaseScreen.makeBMatrix")
    # the recursion clause (stationary covariance = the von Karman covariance) rests on the A / B identities: C04's contract is re-checked here
    with chk.borrow("C04"):
        chk.assumptions_used.update(["A-MATH", "A-JIT"])
        infscreen.c04_obligations(chk)
        chk.bounded_native("ill-conditioned parameters are refused (or still satisfy the identities): no screen with an unstable recursion can be constructed", "refuse", "2 constructions", "aotools/turbulence/infinitephasescreen.py:PhaseScreen.makeAMatrix")
    chk.notes.append("representation invariant I: _scrn.shape = (stencil_length, nx_size), requested <= nx_size <= stencil_length; established by both constructors, preserved by add_row, so the step "
                     "postcondition holds after ANY finite sequence of add_row / read operations (induction over the history, not enumeration)")
    chk.not_decided.append("only finite values (floating point)")
    chk.not_decided.append("stability of the row recursion / unique stationary covariance for the von Karman variant (spectral radius of numerically built matrices)")


if __name__ == "__main__":
    sys.exit(run_check("C05", "Infinite screen evolves by exactly one row per step, for any history", build))
