"""C14 Pupil masks and sub-aperture selection are exact geometric indicators."""
import sys, os
sys.path.insert(0, os.path.dirname(os.path.dirname(os.path.abspath(__file__))))
import z3
from aovc.check import run_check, num
from aovc.contract import verify
from aovc.values import zr, zi, cmp, b_and
from contracts import pupil as cpupil, wfslib as cwfs

PUPIL = "aotools/functions/pupil.py"


def build(chk):
    cpupil.obligations(chk)
    cwfs.obligations(chk)
    chk.not_decided.append("mask area tends to pi r^2 (lattice-point asymptotics; not a per-call contract)")


if __name__ == "__main__":
    sys.exit(run_check("C14", "Pupil masks and sub-aperture selection are exact geometric indicators", build))
