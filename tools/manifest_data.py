"""Per-property manifest text (kept next to the checks; tools/gen_manifest.py writes MANIFEST.json)."""
NOTES = ("Contract-based deductive verification of the real AOtools source. Exit codes of every check: 0 all obligations discharged, "
         "1 violation (VIOLATION line), 2 undecided, 3 checker crash / code outside the verifier's reach. AOVC_REPO selects the tree (default /repo). "
         "Fix commits made in /repo are listed in known_findings.json (status fixed).")
BASE = "A-ENGINE (the VC generator aovc is trusted code), A-PY (Python semantics as encoded), A-REAL (floats as reals), A-INT, A-NP (NumPy/SciPy contracts of aovc/npmodel.py); "
CLAIMED = {
 "C14": {
  "text": "Unbounded proof, for all sizes, radii >= 0, centres and both origins, that the real circle() body returns exactly the indicator array of the statement (shape, values in {0,1}, <= comparison at half-integer pixel centres), plus the nesting / symmetry / integer-translation lemmas proved over that contract. Sub-aperture clauses: see level_note.",
  "note": BASE + "area -> pi r^2 is not decided (asymptotic).",
  "technique": "symbolic execution of the real function body + SMT (z3/cvc5) discharge of postcondition, definedness and frame obligations; counter-models replayed natively",
 },
}
NOT_APPLICABLE = {}
