import sys, os, itertools
sys.path.insert(0, os.path.dirname(os.path.abspath(__file__)))
import numpy
from _harness import main
import aotools
from aotools.functions import pupil


def spec_circle(radius, size, c0, c1, origin):
    from fractions import Fraction as F
    o = F(size) / 2 if origin == "middle" else F(0)
    out = numpy.zeros((size, size))
    R, C0, C1 = F(radius), F(c0), F(c1)
    for i in range(size):
        for j in range(size):
            dx = F(j) + F(1, 2) - o - C0
            dy = F(i) + F(1, 2) - o - C1
            out[i, j] = 1.0 if dx * dx + dy * dy <= R * R else 0.0
    return out


def chk_indicator(inp):
    size = int(inp["size"])
    if size < 0 or size > 400:
        return None
    got = pupil.circle(inp["radius"], size, (inp["c0"], inp["c1"]), inp["origin"])
    want = spec_circle(inp["radius"], size, inp["c0"], inp["c1"], inp["origin"])
    if got.shape != want.shape:
        return {"message": "shape", "observed": list(got.shape), "expected": list(want.shape)}
    if not numpy.array_equal(got, want):
        bad = numpy.argwhere(got != want)[0].tolist()
        return {"message": "circle differs from the indicator at pixel %s" % bad, "observed": got.tolist(), "expected": want.tolist()}
    if inp["origin"] == "middle" and inp["c0"] == 0 and inp["c1"] == 0:
        got2 = pupil.circle(inp["radius"], size)
        if not numpy.array_equal(got2, want):
            return {"message": "default arguments differ from centred middle-origin indicator", "observed": got2.tolist(), "expected": want.tolist()}
    return None


def fam_indicator(tier, seed):
    sizes = range(0, 8) if tier == "quick" else range(0, 13)
    radii = [0, 0.5, 0.75, 1, 1.5, 2, 2.5, 3, 4.25, 6]
    centres = [(0, 0), (0.5, 0.5), (-2, 0), (1, -1.5), (0.25, 3), (-0.5, -3)]
    for size, r, c, origin in itertools.product(sizes, radii, centres, ("middle", "corner")):
        yield {"radius": r, "size": size, "c0": c[0], "c1": c[1], "origin": origin}


def chk_nested(inp):
    a = pupil.circle(inp["radius"], inp["size"], (inp["c0"], inp["c1"]), inp["origin"])
    b = pupil.circle(inp["radius2"], inp["size"], (inp["c0"], inp["c1"]), inp["origin"])
    if (a > b).any():
        return {"message": "circle(r) not contained in circle(r2), r<=r2", "observed": a.tolist(), "expected": b.tolist()}


def fam_nested(tier, seed):
    for inp in fam_indicator(tier, seed):
        for dr in (0, 0.5, 1.25):
            d = dict(inp); d["radius2"] = inp["radius"] + dr
            yield d


def chk_translate(inp):
    k, l = int(inp.get("k", 1)), int(inp.get("l", -1))
    n = inp["size"]
    a = pupil.circle(inp["radius"], n, (inp["c0"], inp["c1"]), inp["origin"])
    b = pupil.circle(inp["radius"], n, (inp["c0"] + k, inp["c1"] + l), inp["origin"])
    for i in range(n):
        for j in range(n):
            if 0 <= i - l < n and 0 <= j - k < n and b[i, j] != a[i - l, j - k]:
                return {"message": "translation by integer (k,l)=(%d,%d) does not shift the mask at %s" % (k, l, (i, j)), "observed": b.tolist(), "expected": a.tolist()}


def fam_translate(tier, seed):
    for inp in fam_indicator(tier, seed):
        for (k, l) in ((1, 0), (-2, 1)):
            d = dict(inp); d["k"] = k; d["l"] = l
            yield d


def chk_symmetric(inp):
    a = pupil.circle(inp["radius"], inp["size"])
    for name, b in (("transpose", a.T), ("flipud", a[::-1]), ("fliplr", a[:, ::-1])):
        if not numpy.array_equal(a, b):
            return {"message": "centred mask not symmetric under " + name, "observed": a.tolist(), "expected": b.tolist()}


def fam_symmetric(tier, seed):
    for size in range(0, 10):
        for r in (0, 0.5, 1, 1.5, 2.5, 3.2, 5):
            yield {"radius": r, "size": size}


from aotools.wfs import wfslib as W


def py_round(x):
    return int(round(x))


def chk_selection(inp):
    rng = numpy.random.default_rng(7)
    soft = numpy.round(rng.random((12, 12)) * 4) / 4.          # grey (non 0/1) masks: soft-edged pupils, half-transparent vanes
    half = pupil.circle(4, 8) * 0.5
    masks = [pupil.circle(5, 12, (1.5, -2)), (rng.random((9, 12)) > 0.4).astype(float), pupil.circle(4, 8), numpy.triu(numpy.ones((10, 10))), soft, half]
    # the mask may be stored in any dtype (boolean / integer 0-1 masks are what comparisons and file readers produce)
    masks += [pupil.circle(5, 12).astype(dt) for dt in ("int64", "uint8", "bool", "float32")] + [(rng.random((8, 8)) > 0.4)]
    for mask in masks:
        for n in (1, 2, 3, 4):
            if mask.shape[0] < n or mask.shape[1] < n:
                continue
            sx, sy = mask.shape[0] / float(n), mask.shape[1] / float(n)
            prev = None
            for thr in (0.0, 0.3, 0.5, 0.75, 1.0):
                coords, fills = W.findActiveSubaps(n, mask, thr, returnFill=True)
                only = W.findActiveSubaps(n, mask, thr)
                want, wf = [], []
                for x in range(n):
                    for y in range(n):
                        cell = mask[int(numpy.round(x * sx)):int(numpy.round((x + 1) * sx)), int(numpy.round(y * sy)):int(numpy.round((y + 1) * sy))]
                        if cell.mean() >= thr:
                            want.append([x * sx, y * sy]); wf.append(cell.mean())
                if not (numpy.array_equal(numpy.asarray(coords).reshape(-1, 2), numpy.asarray(want).reshape(-1, 2)) and numpy.allclose(fills, wf)
                        and numpy.array_equal(numpy.asarray(only).reshape(-1, 2), numpy.asarray(want).reshape(-1, 2))):
                    return {"message": "findActiveSubaps(%d, mask %s, %g) is not exactly the cells whose mean mask value is >= threshold (row-major)" % (n, mask.shape, thr),
                            "observed": numpy.asarray(coords).tolist(), "expected": want}
                cur = set(map(tuple, numpy.asarray(coords).reshape(-1, 2).tolist()))
                if prev is not None and not cur <= prev:
                    return {"message": "selected set does not shrink monotonically with the threshold"}
                prev = cur
                if mask.shape[0] % n == 0 and mask.shape[1] % n == 0 and mask.shape[0] == mask.shape[1] and len(coords):
                    ff = W.computeFillFactor(mask, numpy.asarray(coords), mask.shape[0] // n)
                    if not numpy.allclose(ff, fills):
                        return {"message": "fill factors differ from computeFillFactor on a mask whose size is a multiple of the sub-aperture count", "observed": numpy.asarray(ff).tolist(), "expected": numpy.asarray(fills).tolist()}


def chk_fill(inp):
    rng = numpy.random.default_rng(3)
    pos = numpy.array([[0., 0.], [2.5, 3.5], [7.2, 1.4], [8.0, 6.0]])
    for mask in ((rng.random((12, 10)) > 0.3).astype(float), numpy.round(rng.random((12, 10)) * 4) / 4., numpy.full((12, 10), 0.5)):
        for sp in (2, 3):
            got = W.computeFillFactor(mask, pos, sp)
            want = [mask[py_round(x):py_round(x + sp), py_round(y):py_round(y + sp)].mean() for x, y in pos]
            if not numpy.allclose(got, want, rtol=0, atol=1e-12):
                return {"message": "computeFillFactor is not the mean of mask[round(x):round(x+sp), round(y):round(y+sp)] (mask values %s)" % sorted(set(numpy.unique(mask).tolist()))[:5],
                        "observed": numpy.asarray(got).tolist(), "expected": want}
    base = rng.random((12, 10)) > 0.3
    for dt in ("bool", "int32", "int64", "uint8", "float32"):
        mask = base.astype(dt)
        for sp in (2, 3):
            got = W.computeFillFactor(mask, pos, sp)
            want = [base[py_round(x):py_round(x + sp), py_round(y):py_round(y + sp)].mean() for x, y in pos]
            if not numpy.allclose(got, want, rtol=0, atol=1e-7):
                return {"message": "computeFillFactor of a %s 0/1 mask is not the mean of the window (fraction of lit pixels)" % dt, "observed": numpy.asarray(got).tolist(), "expected": want}
    mask = (rng.random((12, 10)) > 0.3).astype(float)
    for sp in (2, 2.5, 3):
        got = W.computeFillFactor(mask, pos, sp)
        want = [mask[py_round(x):py_round(x + sp), py_round(y):py_round(y + sp)].mean() for x, y in pos]
        if not numpy.allclose(got, want):
            return {"message": "computeFillFactor is not the mean of mask[round(x):round(x+sp), round(y):round(y+sp)]", "observed": numpy.asarray(got).tolist(), "expected": want}


def chk_scatter(inp):
    rng = numpy.random.default_rng(5)
    for mask in (pupil.circle(2, 4), (rng.random((5, 5)) > 0.5).astype(float), numpy.ones((3, 3)), numpy.zeros((3, 3))):
        ns = int(mask.sum())
        data = rng.normal(size=(3, 2, ns))
        out = W.make_subaps_2d(data, mask)
        if out.shape != (3, 2) + mask.shape:
            return {"message": "make_subaps_2d shape", "observed": list(out.shape)}
        back = out[:, :, mask == 1]
        if not numpy.array_equal(back, data):
            return {"message": "scattering the slopes into the 2-d map and reading back through the mask is not the identity", "observed": back.tolist(), "expected": data.tolist()}
        if (out[:, :, mask != 1] != 0).any():
            return {"message": "masked sub-apertures are not zero"}


CLAUSES = {
    "subaps.selection": (chk_selection, lambda t, s: [{}]), "subaps.fill": (chk_fill, lambda t, s: [{}]), "subaps.scatter": (chk_scatter, lambda t, s: [{}]),
    "circle.indicator": (chk_indicator, fam_indicator),
    "circle.nested": (chk_nested, fam_nested),
    "circle.translate": (chk_translate, fam_translate),
    "circle.symmetric": (chk_symmetric, fam_symmetric),
}

if __name__ == "__main__":
    main(CLAUSES)
