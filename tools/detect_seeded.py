#!/usr/bin/env python3
"""Run the quick check of the owning property (and of any extra property ids given with --also) on every seeded change.
usage: tools/detect_seeded.py [name-filter ...] [--also C20,C06] [-j 4]
Each change is applied to a scratch copy of /repo's aotools/ outside /repo and /verif (removed afterwards); evidence is not written."""
import json, os, subprocess, sys, tempfile, shutil
from concurrent.futures import ThreadPoolExecutor
VERIF = os.path.dirname(os.path.dirname(os.path.abspath(__file__)))
args = sys.argv[1:]
also, jobs, filt, DIR = [], 4, [], "seeded"
while args:
    a = args.pop(0)
    if a == "--also": also = args.pop(0).split(",")
    elif a == "-j": jobs = int(args.pop(0))
    elif a == "--dir": DIR = args.pop(0)        # "seeded" (property-breaking: the check must exit 1) or "benign" (behaviour-preserving: it must not)
    else: filt.append(a)

def run(name):
    d = os.path.join(VERIF, DIR, name)
    tmp = tempfile.mkdtemp(prefix="aovc_det_")
    out = {}
    try:
        shutil.copytree("/repo/aotools", os.path.join(tmp, "aotools"), ignore=shutil.ignore_patterns("__pycache__", "*.pyc"))
        p = subprocess.run(["git", "apply", "--unsafe-paths", "--directory=" + tmp, os.path.join(d, "patch.diff")], cwd=tmp, capture_output=True, text=True)
        if p.returncode:
            return name, {"error": "patch does not apply: " + p.stderr[-200:]}
        for pid in [name.split("-")[0]] + also:
            env = dict(os.environ, AOVC_REPO=tmp, AOVC_NO_EVIDENCE="1", AOVC_NO_SELFTEST="1")
            q = subprocess.run(["python3-vt", os.path.join(VERIF, "checks", pid + ".py"), "--tier", "quick"], cwd=VERIF, env=env, capture_output=True, text=True, timeout=3600)
            lines = q.stdout.splitlines()
            failed = [l for l in lines if l.startswith("FAILED ")]
            unsup = [l for l in lines if l.startswith("UNSUPPORTED ")] + [l for l in lines if l.startswith("BOUNDED-ONLY ")]
            out[pid] = {"exit": q.returncode, "failed": [f[:230] for f in failed[:4]], "n_failed": len(failed), "unsupported": [u[:200] for u in unsup[:3]],
                        "last": lines[-1] if lines else q.stderr[-300:]}
    finally:
        shutil.rmtree(tmp, ignore_errors=True)
    return name, out

names = sorted(n for n in os.listdir(os.path.join(VERIF, DIR)) if os.path.exists(os.path.join(VERIF, DIR, n, "patch.diff")))
if filt: names = [n for n in names if any(f in n for f in filt)]
res = {}
with ThreadPoolExecutor(jobs) as ex:
    for name, out in ex.map(run, names):
        res[name] = out
        print("==", name)
        for pid, r in out.items():
            if pid == "error": print("  ", r); continue
            print("  %s exit %s  failed=%s" % (pid, r["exit"], r["n_failed"]))
            for f in r["failed"]: print("      ", f)
            for u in r["unsupported"]: print("      ", u)
        sys.stdout.flush()
out_path = os.path.join(VERIF, DIR, "detection.json")
try:
    old = json.load(open(out_path))
except Exception:
    old = {}
for name, out in res.items():
    rec = {}
    for pid, r in out.items():
        if not isinstance(r, dict):
            rec[pid] = r
            continue
        ded = [f for f in r["failed"] if f.startswith("FAILED obligation=")]
        nat = [f for f in r["failed"] if not f.startswith("FAILED obligation=")]
        rec[pid] = {"exit": r["exit"], "n_failed": r["n_failed"], "deductive": [f[len("FAILED obligation="):][:160] for f in ded[:2]], "native": [f[len("FAILED "):][:160] for f in nat[:2]],
                    "unsupported": [u[:160] for u in r["unsupported"][:1]]}
    old[name] = rec
json.dump(old, open(out_path, "w"), indent=1, sort_keys=True)
