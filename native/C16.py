import sys, os
sys.path.insert(0, os.path.dirname(os.path.abspath(__file__)))
import numpy
from _harness import main
import aotools
from aotools import interpolation as IP
from aotools.image_processing import psf as PSF


def bad(msg, obs=None, exp=None):
    return {"message": msg, "observed": obs, "expected": exp}


def chk_bin(inp):
    rng = numpy.random.default_rng(2)
    ns = [int(inp["n"])] if inp and "n" in inp else [1, 2, 3, 4, 5, 6, 8]
    for n in ns:
        for shape in ((2 * n, 3 * n), (4 * n, 4 * n), (3, 2 * n, 3 * n), (2, 2, 3 * n, n)):
            d = rng.random(shape)
            got = IP.binImgs(d, n)
            want = d.reshape(shape[:-2] + (shape[-2] // n, n, shape[-1] // n, n)).sum((-1, -3))
            if got.shape != want.shape or not numpy.allclose(got, want, rtol=1e-12):
                return bad("binImgs(shape %s, n=%d) is not the n x n block sums" % (shape, n), numpy.asarray(got).tolist(), want.tolist())
            if abs(got.sum() - d.sum()) > 1e-9 * d.sum():
                return bad("binning does not preserve the total flux", float(got.sum()), float(d.sum()))
        # detector frames and masks: uint8 / uint16 / int8 / bool images, block sums exact (they do not fit the image's own type)
        for dt, hi in (("uint8", 256), ("uint16", 65536), ("int8", 128), ("int16", 30000), ("bool", 2), ("float32", 1000)):
            for shape in ((2 * n, 3 * n), (3, 2 * n, 2 * n)):
                d = (rng.integers(0, hi, size=shape)).astype(dt)
                got = IP.binImgs(d, n)
                want = d.astype("int64").reshape(shape[:-2] + (shape[-2] // n, n, shape[-1] // n, n)).sum((-1, -3))
                if got.shape != want.shape or not numpy.array_equal(numpy.asarray(got, dtype=float), want.astype(float)):
                    return bad("binImgs(%s image of shape %s, n=%d) is not the n x n block sums (total flux %s -> %s)" % (dt, shape, n, int(want.sum()), float(numpy.asarray(got, dtype=float).sum())),
                               numpy.asarray(got, dtype=float).ravel()[:6].tolist(), want.ravel()[:6].tolist())


def chk_zoom(inp):
    rng = numpy.random.default_rng(3)
    for fn in (IP.zoom, IP.zoom_rbs):
        if inp and "fn" in inp and inp["fn"] != fn.__name__:
            continue
        for order in (1, 3, 5):
            for n in (6, 7, 9):
                for dtype in (float, numpy.complex128, numpy.complex64):
                    a = rng.normal(size=(n, n))
                    a = (a + 1j * rng.normal(size=(n, n))).astype(dtype) if dtype is not float else a
                    same = fn(a, (n, n), order=order)
                    if same.shape != (n, n) or not numpy.allclose(same, a, rtol=1e-5, atol=1e-6):
                        return bad("%s(order %d, %s): zoom to the same size does not return the input" % (fn.__name__, order, numpy.dtype(dtype)), float(abs(same - a).max()), 0.0)
                    q = 3
                    m = q * (n - 1) + 1
                    up = fn(a, m, order=order)
                    if up.shape != (m, m) or not numpy.allclose(up[::q, ::q], a, rtol=1e-5, atol=1e-6):
                        return bad("%s(order %d, %s): the new grid contains the old nodes but does not pass through the original samples" % (fn.__name__, order, numpy.dtype(dtype)), float(abs(up[::q, ::q] - a).max()), 0.0)
                    if not numpy.allclose(up, fn(a.real, m, order=order) + 1j * fn(a.imag, m, order=order), rtol=1e-6, atol=1e-7):
                        return bad("%s: complex data is not treated as real + i*imag" % fn.__name__)
                # polynomials up to the spline order are reproduced exactly
                # (every side the spline accepts: order+1 is the smallest)
                for n in sorted({order + 1, order + 2, 8}):
                    x = numpy.arange(n)
                    X, Y = numpy.meshgrid(x, x, indexing="ij")
                    P = lambda X, Y: 1 + 0.5 * X - 0.25 * Y + (0.1 * X * Y if order >= 1 else 0) + (0.03 * X ** 3 - 0.02 * X ** 2 * Y if order >= 3 else 0) + (1e-3 * Y ** 5 if order >= 5 else 0)
                    for m in (19, 2 * n + 1):
                        xs = numpy.linspace(0, n - 1, m)
                        XX, YY = numpy.meshgrid(xs, xs, indexing="ij")
                        got = fn(P(X, Y).astype(float), (m, m), order=order)
                        if not numpy.allclose(got, P(XX, YY), rtol=1e-8, atol=1e-8):
                            return bad("%s(order %d) does not reproduce a polynomial of degree <= order on a %dx%d array" % (fn.__name__, order, n, n), float(abs(got - P(XX, YY)).max()), 0.0)
        # arrays and targets need not be square: same size returns the input, the old nodes are passed through, polynomials are reproduced on the new grid
        for order in (1, 3):
            for (n0, n1) in ((5, 8), (9, 6)):
                a = rng.normal(size=(n0, n1))
                same = fn(a, (n0, n1), order=order)
                if same.shape != (n0, n1) or not numpy.allclose(same, a, rtol=1e-5, atol=1e-6):
                    return bad("%s(order %d): zoom of a %dx%d array to the same size does not return the input" % (fn.__name__, order, n0, n1), list(same.shape), [n0, n1])
                m0, m1 = 2 * (n0 - 1) + 1, 3 * (n1 - 1) + 1
                up = fn(a, (m0, m1), order=order)
                if up.shape != (m0, m1) or not numpy.allclose(up[::2, ::3], a, rtol=1e-5, atol=1e-6):
                    return bad("%s(order %d): %dx%d array to (%d, %d): the new grid contains the old nodes but the result does not pass through the original samples" % (fn.__name__, order, n0, n1, m0, m1),
                               list(up.shape), [m0, m1])
                X, Y = numpy.meshgrid(numpy.arange(n0), numpy.arange(n1), indexing="ij")
                P = lambda X, Y: 1 + 0.5 * X - 0.25 * Y + 0.1 * X * Y
                for tgt in ((n0 + 2, 2 * n1), (7, 7)):
                    XX, YY = numpy.meshgrid(numpy.linspace(0, n0 - 1, tgt[0]), numpy.linspace(0, n1 - 1, tgt[1]), indexing="ij")
                    got = fn(P(X, Y).astype(float), tgt, order=order)
                    if got.shape != tuple(tgt) or not numpy.allclose(got, P(XX, YY), rtol=1e-8, atol=1e-8):
                        return bad("%s(order %d) does not reproduce a bilinear polynomial when zooming a %dx%d array to %s" % (fn.__name__, order, n0, n1, tgt), list(got.shape), list(tgt))
        # integer-typed images: interpolated values are not integers (a linear ramp zoomed 8 -> 15 has half-integer samples)
        ramp = numpy.add.outer(3 * numpy.arange(8), 2 * numpy.arange(8)) + 1
        xs = numpy.linspace(0, 7, 15)
        want_r = numpy.add.outer(3 * xs, 2 * xs) + 1
        for dt in ("int64", "int32", "uint8", "float32"):
            for order in (1, 3):
                got = numpy.asarray(fn(ramp.astype(dt), 15, order=order), dtype=float)
                if got.shape != (15, 15) or not numpy.allclose(got, want_r, rtol=0, atol=1e-4):
                    return bad("%s of an integer-valued ramp (dtype %s, order %d) is not the ramp on the finer grid" % (fn.__name__, dt, order), float(abs(got - want_r).max()) if got.shape == (15, 15) else list(got.shape), 0.0)
                same = numpy.asarray(fn(ramp.astype(dt), 8, order=order), dtype=float)
                if not numpy.allclose(same, ramp, rtol=0, atol=1e-4):
                    return bad("%s at unchanged size does not return the input for dtype %s (order %d)" % (fn.__name__, dt, order), float(abs(same - ramp).max()), 0.0)
        if fn(numpy.ones((5, 5)), 7).shape != (7, 7):
            return bad("%s does not accept a scalar newSize" % fn.__name__)


def chk_azimuthal(inp):
    rng = numpy.random.default_rng(5)
    for size in ([int(inp["size"])] if inp and "size" in inp and 2 <= int(inp["size"]) <= 64 and int(inp["size"]) % 2 == 0 else [2, 4, 8, 10, 32]):
        avg = PSF.azimuthal_average(numpy.full((size, size), 3.25))
        if len(avg) != size // 2 or not numpy.allclose(avg, 3.25):
            return bad("azimuthal average of a constant image is not that constant (size %d)" % size, numpy.asarray(avg).tolist(), 3.25)
        d = rng.random((size, size)) * 5 - 1
        avg = PSF.azimuthal_average(d)
        if not (numpy.all(avg >= d.min() - 1e-12) and numpy.all(avg <= d.max() + 1e-12)):
            return bad("azimuthal average leaves the [min, max] range of the image", numpy.asarray(avg).tolist(), [float(d.min()), float(d.max())])


def crossing(x, y, frac, dia, what, data):
    """the reported diameter is where the (non-decreasing, sampled) curve crosses `frac`: the curve is <= frac one sample before it and
    >= frac one sample after it.  Requires that the energy inside the largest circle the function considers (the circle inscribed
    in the image) reaches the fraction at all; otherwise no crossing exists on the image and the clause says nothing."""
    N = data.shape[0]
    ii = numpy.indices(data.shape) + 0.5 - N / 2
    inscribed = float(data[(ii ** 2).sum(0) <= (N / 2.) ** 2].sum() / data.sum())
    if frac > inscribed - 0.02:
        return None
    k = int(numpy.argmin(abs(numpy.asarray(x) - dia)))
    if abs(x[k] - dia) > 1e-9:
        return bad("reported diameter is not a point of the returned diameter axis (%s)" % what, float(dia))
    lo, hi = y[max(k - 1, 0)], y[min(k + 1, len(y) - 1)]
    if not (lo <= frac + 1e-12 and hi >= frac - 1e-12):
        return bad("reported %g%% encircled-energy diameter %.4g is not where the curve crosses the fraction: the curve is %.4g there (%s)" % (100 * frac, dia, float(y[k]), what), float(y[k]), frac)


def chk_encircled(inp):
    rng = numpy.random.default_rng(6)
    # single-precision images whose flux lies inside the largest circle: the curve ends at 1, not above
    for seed in range(12):
        d32 = numpy.random.RandomState(seed).rand(64, 64).astype(numpy.float32)
        X, Y = numpy.meshgrid(numpy.arange(64) - 31.5, numpy.arange(64) - 31.5)
        d32[X * X + Y * Y > 256] = 0
        y32 = PSF.encircled_energy(d32, eeDiameter=False)[1]
        if y32.max() > 1 or y32.min() < 0 or numpy.any(numpy.diff(y32) < -1e-7):
            return bad("encircled-energy curve of a float32 image exceeds 1 / decreases (seed %d)" % seed, float(y32.max()), "<= 1")
    for size in (8, 16, 32, 64):
        for kind in ("random", "spot", "broad"):
            d = rng.random((size, size)) if kind == "random" else numpy.exp(-((numpy.indices((size, size)) - size / 2) ** 2).sum(0) / ((0.02 if kind == "spot" else 0.16) * size ** 2))
            x, y = PSF.encircled_energy(d, eeDiameter=False)
            if abs(y[0]) > 1e-12 or numpy.any(numpy.diff(y) < -1e-12) or y.max() > 1 + 1e-12 or y.min() < -1e-12:
                return bad("encircled-energy curve does not start at 0 / decreases / exceeds 1 (size %d, %s)" % (size, kind), numpy.asarray(y).tolist())
            # explicit centres: on a pixel corner, exactly on a pixel centre, off-grid
            for cen in ((size / 2, size / 2), (size / 2 + 0.5, size / 2 + 0.5), (size / 2 - 1.5, size / 2 + 0.5), (size / 2 + 0.3, size / 2 - 0.2)):
                xc, yc_ = PSF.encircled_energy(d, center=list(cen), eeDiameter=False)
                if abs(yc_[0]) > 1e-12 or abs(xc[0]) > 1e-12 or numpy.any(numpy.diff(yc_) < -1e-12) or yc_.max() > 1 + 1e-12 or yc_.min() < -1e-12:
                    return bad("encircled-energy curve about centre %s does not start at 0 / decreases / exceeds 1 (size %d, %s)" % (list(cen), size, kind), numpy.asarray(yc_).tolist()[:6])
                for frac in (0.02, 0.5):
                    r = crossing(xc, yc_, frac, PSF.encircled_energy(d, fraction=frac, center=list(cen)), "size %d, %s, centre %s" % (size, kind, list(cen)), d)
                    if r:
                        return r
            for frac in (0.1, 0.3, 0.5, 0.8):
                r = crossing(x, y, frac, PSF.encircled_energy(d, fraction=frac), "size %d, %s" % (size, kind), d)
                if r:
                    return r


one = lambda t, s: [{}]
CLAUSES = {"bin": (chk_bin, one), "zoom": (chk_zoom, one), "azimuthal": (chk_azimuthal, one), "encircled": (chk_encircled, one)}
if __name__ == "__main__":
    main(CLAUSES)
