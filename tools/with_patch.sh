#!/bin/sh
# tools/with_patch.sh <patch-file> <command...> : run command with AOVC_REPO pointing at a scratch worktree of /repo HEAD + patch
patch="$1"; shift
wt=$(mktemp -d /tmp/aovc_wt_XXXXXX); rmdir "$wt"
git -C /repo worktree add -q --detach "$wt" HEAD || exit 3
( cd "$wt" && git apply "$patch" ) || { git -C /repo worktree remove --force "$wt"; echo "patch does not apply"; exit 3; }
AOVC_REPO="$wt" AOVC_NO_EVIDENCE=1 "$@"; rc=$?
git -C /repo worktree remove --force "$wt"; git -C /repo worktree prune
exit $rc
