"""Per-property manifest text (kept next to the checks; tools/gen_manifest.py writes MANIFEST.json)."""
NOTES = ("Contract-based deductive verification of the real AOtools source. Exit codes of every check: 0 all obligations discharged, "
         "1 violation (VIOLATION line), 2 undecided, 3 checker crash / code outside the verifier's reach. AOVC_REPO selects the tree (default /repo). "
         "Fix commits made in /repo are listed in known_findings.json (status fixed).")
BASE = "A-ENGINE (the VC generator aovc is trusted code), A-PY (Python semantics as encoded), A-REAL (floats as reals), A-INT, A-NP (NumPy/SciPy contracts of aovc/npmodel.py); "
CLAIMED = {
 "C14": {
  "text": "Unbounded proof, for all sizes, radii >= 0, centres and both origins, that the real circle() body returns exactly the indicator array of the statement (shape, values in {0,1}, <= comparison at half-integer pixel centres), plus the nesting / symmetry / integer-translation lemmas proved over that contract. Sub-aperture clauses (loop summaries, unbounded in mask size and sub-aperture count): findActiveSubaps is the row-major filtered enumeration of exactly the cells (x, y) whose mean over mask[rnd(x s):rnd((x+1) s), rnd(y s):rnd((y+1) s)] is >= threshold, with coordinates (x s_x, y s_y) and fills equal to those means under the same condition (hence monotone in the threshold); computeFillFactor[i] is the mean over mask[rnd(x):rnd(x+sp), rnd(y):rnd(y+sp)]; make_subaps_2d puts data[..., rank(x,y)] at the cells with mask==1 (rank = running row-major count of such cells) and 0 elsewhere.",
  "note": BASE + "area -> pi r^2 is not decided (asymptotic). Non-empty in-bounds cells are a precondition of the mean clauses; float rounding of x*spacing is treated over the reals (A-REAL), bridged by the bounded native family (native/C14.py).",
  "technique": "symbolic execution of the real function body + SMT (z3/cvc5) discharge of postcondition, definedness and frame obligations; counter-models replayed natively",
 },
}
CLAIMED.update({
 "C17": {
  "text": "Unbounded proof over all positive inputs (log-monomial encoding: every formula executed from the real source becomes a linear expression in log10 of its inputs): the three converter pairs are exact inverses in both directions (explicit and default wavelength), composites equal the composition of the elementary converters, exponents lambda^(6/5), Cn2^(-3/5), lambda^(-1/5) exact, magnitude<->flux inverse for each of the 12 bands with the constants read from the real table, 5 mag = factor 100, photon counts proportional to mask sum, pixel area and exposure time, slope variance <-> r0 inverse, single-layer isoplanatic angle / coherence time = 0.314 r0/h, 0.314 r0/v with exact exponents and constants within 2e-3 (interval enclosures), and the axis argument of the profile integrals equals the per-profile call for ranks 2 and 3.",
  "note": BASE + "ndarray.sum of the mask and ndarray.var of the slope rows are abstracted to positive reals; batch ranks checked: 2 and 3 (any rank reshapes to these).",
  "technique": "symbolic execution of the real bodies in a log-monomial domain; linear real arithmetic obligations discharged by z3; constants by mpmath interval enclosures",
 },
 "C09": {
  "text": "Unbounded proof for every length N >= 1 (odd and even), one symbolic leading batch axis and every spacing > 0, in the operator-word encoding: ft/ift/ft2/ift2 executed from the real source equal the statement's centred scaled transform on the last axis/axes (origin at sample floor(N/2) on input and output: residual rolls are 0 mod N), are mutual inverses in both orders (residual rolls 0 mod N, scalars 1), satisfy Parseval (energy functional) and are linear (structural); static resolution of the star-import chain proves aotools.ft/ift/ft2/ift2/rft/... are the Fourier module's functions. Real-input variants: bounded native stand-in, listed known finding.",
  "note": BASE + "DFT identities (ifft.fft = id, Parseval, rolls) are the assumed contract of numpy.fft; rft/irft/rft2/irft2 are NOT proved (known finding C09-real-variants, bounded native check only).",
  "technique": "symbolic execution to operator words over fft/ifft/roll/phase; word normalisation; residual arithmetic obligations (rolls mod N, scalars) discharged by z3",
 },
 "C10": {
  "text": "Unbounded proof for all even N, wavelengths, spacings, magnifications and distances of either sign (z != 0, f != 0): each propagator executed from the real source is an operator word applied once to the input (hence linear), every quadratic-phase factor is exp(1j*real) (unit modulus), and the energy functional of the word times the output spacing squared equals the input spacing squared (QF_NRA identity per propagator and per path, both branches of the ZeroDivisionError handler). Frame clause: the input field is not written.",
  "note": BASE + "ft2/ift2 are used through their contract (proved in C09), numpy.fft DFT identities assumed; Python-float scalars assumed for the ZeroDivisionError branch of twoStepFresnel.",
  "technique": "symbolic execution to operator words + energy functional; nonlinear real arithmetic obligations discharged by z3",
 },
 "C11": {
  "text": "Unbounded proof (all even N, wavelengths, spacings): angularSpectrum with z=0 returns the input; at unit magnification distances add for every split and -z undoes +z (word equality: phases add pointwise, rolls cancel mod N); magnification m then 1/m with -z is the identity up to a constant phase; twoStepFresnel equals two chained oneStepFresnel through the statement's intermediate plane; oneStepFresnel (z>0), lensAgainst (f>0) and twoStepFresnel (m=1, z>0) equal the discretised Fresnel integral on the upright grid x=(k-N/2)*d_out (kernel form: orientation). Negative partial distances: listed known finding, re-confirmed natively each run.",
  "note": BASE + "rational-function identities between phases are discharged by sympy cancellation (exact) before z3; analytic Gaussian beam / Airy pattern and numerical agreement of different discretisations are not decided; orientation for negative distances is a known finding (C11-negative-distance-orientation).",
  "technique": "symbolic execution to operator words; normalisation and word equality; phase identities by exact rational-function cancellation (sympy) and z3",
 },
})
CLAIMED.update({
 "C20": {
  "text": "Frame clause `modifies nothing (parameters, module-level objects)` for every public function and method reachable from `import aotools` (108 functions): one obligation per statement that can write into an existing object (item / attribute store, augmented assignment, out=, in-place methods, mutating library calls, calls of repository functions that write a parameter), discharged by a flow-sensitive may-alias analysis of the real AST (views vs copies per NumPy call table); one no-hidden-state obligation per function (no legacy global RandomState / random / clock, no write or read of module-level mutable objects, no memoising decorator). Holds for all inputs and all call sequences because no alias of a parameter or of module state is ever written. Listed finding: optimal_grouping draws from the global RandomState.",
  "note": "A-ENGINE (aovc/effects.py is trusted code), A-NP: the view / copy / in-place classification of NumPy functions and methods in aovc/effects.py is assumed; determinism of NumPy kernels is assumed; the batch clause is decided by C09, C15, C16, C17. Thorough tier adds a bounded native before/after comparison on one recipe input per function (labelled bounded).",
  "technique": "frame-condition checking by flow-sensitive may-alias / effect analysis of the real AST (one obligation per mutating statement); native replay on recipe inputs",
 },
 "C06": {
  "text": "Frame clauses for every function of phasescreen.py and infinitephasescreen.py (and phase_covariance): no hidden state is read or written (no global RandomState, random, time, module-level mutable object, memoisation), and seed-flow obligations: every numpy.random.default_rng call is seeded by the caller's seed / generator on every path (a truthiness test of the seed does not count as a None test), every draw comes from such a generator or from the per-instance generator self._R, self._R is assigned only from default_rng(self.random_seed) and self.random_seed only from the constructor parameter. With the assumed contracts of default_rng / Generator the screen and every later row are terms over (arguments, seed) only, for every interleaving with other calls.",
  "note": "A-ENGINE, A-NP (default_rng(int) deterministic, default_rng(Generator) is the same object, Generator.normal mutates only its receiver; FFT and numba kernels deterministic). 'Different seeds / unseeded calls differ' is probabilistic and not decided. Thorough tier adds bounded native reproduction histories.",
  "technique": "frame-condition checking (effect analysis) plus seed-flow analysis of the real AST; native replay of interleaved histories",
 },
})
CLAIMED.update({
 "C19": {
  "text": "Unbounded proof for all array sizes, steps and numbers of lags (loop summary S2 of the real lag loop with a proved inverse index map; Sigma extensionality): calculate_structure_function returns int(min(nbOfPoint, cols/step - 1)) values, 0 at lag 0, and at lag j the mean over the overlapping rows and all columns of (phase[r,c] - phase[r+j*step,c])^2, for explicit arguments and for the defaults. calc_slope_temporalps returns, for every batch item and bin k < floor(n_frames/2), the mean over sub-apertures of |FFT along the frame axis|^2 and the std/sqrt(n) error; get_tps_time_axis[k] = k*frame_rate/n_frames with length floor(n_frames/2). Ramp / quadratic-in-amplitude / Parseval / sinusoid-peak clauses are consequences checked natively (bounded).",
  "note": BASE + "the DFT along the frame axis is an opaque library function (congruent in input, axis and length): Parseval and the sinusoid peak are properties of numpy.fft, not re-proved; calculate_structure_function requires every requested lag to leave at least one overlapping row.",
  "technique": "symbolic execution with loop summaries (generic iteration + inverse index map obligation) and Sigma-term extensionality; z3",
 },
})
CLAIMED.update({
 "C12": {
  "text": "Unbounded proofs from the real source: zernIndex, for every j >= 1, lands in {n>=0, |m|<=n, n-|m| even}, even j <-> m>0, is injective, ordered by n then |m|, and onto (explicit inverse J(n,m)); zernikeRadialFunc is the factorial sum of the statement for all 0<=m<=n (loop summary + Sigma extensionality); zernike_nm is Noll factor * radial * cos/sin(|m| theta + rot) inside the inscribed pupil and 0 outside for every N, n, m, rot; zernike_noll = zernike_nm o zernIndex; zernikeArray(count)[j-1] and zernikeArray(list)[i] are zernike_noll(j), zernike_noll(J[i]) (list = matching slices, unbounded count); phaseFromZernikes is sum_z c[z] * zernikeArray(len(c))[z] for all three normalisations. p2v / rms normalisation, orthonormality (Gram matrix) and the gamma matrices are bounded native stand-ins only (labelled bounded).",
  "note": BASE + "sqrt in zernIndex is exact (A-REAL) and bridged by a bounded native comparison against an integer-only specification; small nonlinear steps (squaring of the int() bracket, monotonicity of triangular numbers, mask agreement) are lemmas proved as separate obligations; cos / sin / arctan2 / pow / factorial uninterpreted (factorial >= 1).",
  "technique": "symbolic execution with callee contracts and loop summaries; QF nonlinear integer/real arithmetic with auxiliary lemmas; Sigma extensionality; z3 (parallel)",
 },
})
CLAIMED.update({
 "C16": {
  "text": "binImgs: for bin factors n in {1,2,3,4,5}, proved for ALL image sizes and stack depths (2-d and 3-d paths): out[..., r, c] is the sum of the n x n block (hence flux preserved). zoom and zoom_rbs (square input, orders 1,3,5, float64 / complex128 / complex64, tuple and scalar size): out[a,b] is the interpolating spline of that order through the (real / imaginary) samples evaluated at linspace(0, n-1, new)[a], [b]; with the node contract of the spline: same size returns the input and a new grid containing the old nodes passes through the samples; complex = real + i*imag. azimuthal_average (all even sizes, loop summary): every ring is non-empty (witness pixel), a constant image gives the constant, every value lies between the image bounds. Encircled energy, other bin factors and polynomial exactness: bounded native stand-ins (labelled bounded).",
  "note": BASE + "RectBivariateSpline(s=0) is an uninterpreted interpolation operator with its node-interpolation contract (polynomial exactness is a property of that operator, assumed); circle() used through its C14 contract; bin factor is concrete per obligation (bounded in n, unbounded in image size).",
  "technique": "symbolic execution (unrolled for concrete bin factor, loop summary for azimuthal rings) with callee contracts; Sigma rules (linearity, convexity, witness); z3",
 },
})
CLAIMED.update({
 "C15": {
  "text": "Unbounded proofs (all image sizes and stack depths) on the real centre_of_gravity and quadCell: a single bright pixel at (y,x) has centroid (x,y) on the 2-d and the stack path (Sigma delta rule); a frame inside a stack gives exactly what the frame alone gives, and multiplying the image by a positive constant changes nothing, both with threshold 0 and with thresholds (Fubini and linearity rules for the sums, witness-chain reasoning for max over the last two axes vs nested max); quad-cell x / y signals change sign under left-right / up-down mirroring and a stack item equals the single frame. brightest_pixel, shift equivariance and the correlation centroid are bounded native stand-ins (labelled bounded).",
  "note": BASE + "max is an opaque term with its defining bounds and an attainment witness; numpy.sort (brightest_pixel) and FFT correlation are outside the encoding (native bounded checks only).",
  "technique": "symbolic execution + Sigma calculus (delta, Fubini, linearity) and extreme-term witness chains; z3",
 },
})
CLAIMED.update({
 "C02": {
  "text": "For all matrix sizes 2T x 2T and all partitions 0 <= n <= T (function and method wrapper, which passes the object's current matrix and n_subaps[0]): pointwise proof that C_on,off = C[:2n, 2n:] and C_off,off = C[2n:, 2n:] (the on-axis sensor is the first 2n rows) with the right shapes, that pinv receives rcond = svd_conditioning, and, in the matrix-algebra encoding with the Moore-Penrose contract of pinv, that R = C_on,off C_off,off^+ satisfies R C_oo C_oo^+ = R and R C_oo = C_no (C_oo^+ C_oo) (normal equations on the retained subspace), R C_oo = C_no when C_oo is invertible, and for a duplicated sensor (C_no = E C_oo) R C_oo = E C_oo and R = E. Minimum variance follows by Gauss-Markov (named lemma).",
  "note": BASE + "A-MATH (Gauss-Markov); pinv is the Moore-Penrose pseudo-inverse of the (rank-truncated) matrix: library contract; rounding / conditioning not decided; the end-to-end clause is C01 composed with this contract. Refutation of algebraic identities: 2x2 real-matrix interpretation.",
  "technique": "pointwise SMT obligations for block slicing + non-commutative polynomial rewriting with library contracts as rules (finite matrix interpretation to refute)",
 },
})
CLAIMED.update({
 "C04": {
  "text": "For all sizes and parameters, from the real source: new-row positions are (-1, k)*pixel_scale; the von Karman stencil is exactly the first n_columns rows, enumerated row-major, positions = coordinates*pixel_scale; pairwise separations (numba kernel, loop summary; parallel iterations write disjoint rows) are the Euclidean distances between (stencil points ++ new-row points); the four covariance blocks are the theoretical covariance function at those separations with the right index ranges, Cov_zz, Cov_xx symmetric and Cov_xz^T = Cov_zx (pointwise); with the contracts of cho_solve (two-sided inverse, or LinAlgError: the refusing path must raise) and svd, the matrix-algebra encoding proves A Cov_zz = Cov_xz and A Cov_zz A^T + B B^T = Cov_xx from the real assignment structure; get_new_row is A.Z + B.b with Z the screen values at the stencil coordinates and b one fresh unit-normal draw of length nx_size; Fried variant: A.(Z - ref) + B.b + ref, and adding a constant to the whole screen adds exactly that constant to the new row. End-to-end black-box extraction of A, B on constructed screens: bounded native stand-in.",
  "note": BASE + "A-MATH (Schur complement of a PSD matrix is PSD), A-JIT (numba); phase_covariance is an uninterpreted function of the separation here (its closed form is C08); positive definiteness of Cov_zz / success of Cholesky, float32 truncation of the separations and the Fried stencil coordinates (while True / break loops) are not decided deductively.",
  "technique": "symbolic execution with loop summaries and callee contracts; pointwise SMT obligations; non-commutative polynomial rewriting with library contracts (2x2 interpretation to refute)",
 },
 "C05": {
  "text": "Representation invariant (_scrn.shape = (stencil_length, nx_size), requested <= nx_size <= stencil_length) is established by both constructors (find_allowed_size's while loop by its exit condition, result >= request) and preserved by add_row; add_row, for all sizes: _scrn'[0] is the new row, _scrn'[r] = _scrn[r-1], the exposed screen keeps shape requested x requested (also when the internal size is larger) and is the previous exposed screen shifted down by one row; frame: add_row assigns only self._scrn (a new array), get_new_row (both variants) assigns nothing and writes no array, the screen getter and __repr__ assign nothing, write nothing and draw nothing. By induction the step postcondition holds after any history of add_row / read operations. Histories on real objects: bounded native stand-in.",
  "note": BASE + "finiteness of values and stability / stationary covariance of the recursion are not decided (numerical linear algebra).",
  "technique": "symbolic execution of the methods on a symbolic object state (invariant + frame of attributes and arrays), callee contracts; z3",
 },
})
CLAIMED.update({
 "C08": {
  "text": "The real closed forms (structure_function_vk, structure_function_kolmogorov, phase_covariance, KL copies stf_vonKarman / stf_kolmogorov) are executed symbolically for all r, r0, L0 > 0 and compared as expressions: every form uses the same Bessel term kv(5/6, 2 pi r/L0); the KL von Karman copy equals structure_function_vk(r, 1, L0) exactly; Kolmogorov copies have exponent 5/3 exactly and constants within 1e-3; D and C are affine in the Bessel term with identical r, r0, L0 dependence (exact) and coefficients such that D(r) = 2(C(0+) - C(r)) within 1e-3 (40-digit enclosures of Gamma / pi constants); both scale as r0^(-5/3) exactly; C(0+) = 0.0863 (L0/r0)^(5/3) and the saturation of D is twice that, within 1e-3; D(0+) = 0 by exact cancellation of its constants. Value at exactly r = 0: listed known finding (nan).",
  "note": BASE + "A-MATH (x^nu K_nu(x) -> 2^(nu-1) Gamma(nu)); the 1e-40 regularisation inside phase_covariance is accounted for by stating its contract at the internal separation; Kolmogorov limit, monotonicity, Hankel-transform agreement and PSD-ness are bounded native checks only.",
  "technique": "symbolic execution of the real formulas to closed-form expressions; exact algebra (sympy) and 40-digit constant enclosures (mpmath)",
 },
})
CLAIMED.update({
 "C01": {
  "text": "Function-by-function contracts on the real builder, all masks / sub-aperture counts / geometry / atmosphere symbolic: (K) compute_covariance_xx/yy/xy return the four-point structure-function combination at each pair separation for any two widths; (S) calculate_wfs_seperations[i,j] = pos2[j] - pos1[i] (loop summary); (W) wfs_covariance composes them with its own arguments; (G) per layer and sensor the stored positions are the projected centres ((cell + 1/2) d - D/2)(1 - h/H) + theta h of the row-major enumerated valid cells and the widths are (1 - h/H) d, for every NGS/LGS mix (2 sensors x 2 layers); (A) the assembly puts lam_i lam_j/(8 pi^2 w_i w_j) * cov_xx / xy / xy / yy summed over layers into the blocks [2P_i + axis n_i + a, 2P_j + axis n_j + b] (all x then all y per sensor), leaves the upper block triangle zero and the OR-mirror completes it symmetrically (3 sensors x 2 layers); (L) lemma over these contracts: every entry is -1/2 g_i g_j [D(p+ - q+) - D(p+ - q-) - D(p- - q+) + D(p- - q-)] with g = lambda/(2 pi w), i.e. the covariance of the two finite-difference slopes (xx, yy, xy for any widths; yx for equal projected widths: listed finding otherwise); diagonal blocks are symmetric; entries scale with lam_i lam_j. End-to-end comparison with an independent oracle, PSD, additivity: bounded native stand-in.",
  "note": BASE + "A-EPS (1e-20 separation offset in its limit 0); structure_function_vk is an uninterpreted function D(|s|; r0, L0) here (closed form and r0^(-5/3) scaling: C08); sensor / layer counts concrete per obligation set (bounded: 3 x 2 and 2 x 2), everything else unbounded; float32 OR-mirror by its bit-level contract with equal reals assumed bit-equal in the diagonal blocks; PSD by A-MATH (Bochner) from the entrywise equality to a true covariance; single-precision rounding not decided.",
  "technique": "modular symbolic execution with callee contracts, loop summaries and the numpy.where enumeration contract; QF_NRA + EUF obligations (z3); lemma over the contracts; native oracle replay",
 },
 "C03": {
  "text": "On the real source with the ordering contract of Pool.map: the multi-process assembly satisfies the same block postcondition as the single-process one (3 sensors x 2 layers), and in a symbolic run of three successive builds on ONE object with threads = 1, k >= 2, 1 (2 sensors x 2 layers, all masks / geometry symbolic, wfs_covariance as a pure function of its argument values) every build issues the same tasks with the same argument values in the same order and every entry of every build is the SAME TERM as in the first single-process build (same float operations on the same operands in the same order: bit-identical under deterministic kernels) - so nothing is carried over between builds. Frame obligations: wfs_covariance_mpwrap, wfs_covariance and their callees write nothing shared and read no hidden state (a worker's result is a function of its argument tuple). Real multiprocessing runs: bounded native stand-in.",
  "note": BASE + "OS scheduling is not modelled: reduced to the contract `Pool.map returns results in input order` because results are consumed positionally; determinism of NumPy kernels and exact pickling of float64 arrays assumed.",
  "technique": "symbolic execution of build sequences on one object state with library contract for Pool.map; term-identity (EUF) and SMT equality; effect analysis for worker purity",
 },
})
CLAIMED.update({
 "C18": {
  "text": "equivalent_layers, for all profile lengths n >= 1, all L >= 1, heights only and with wind (loop summary with the early `continue`, boolean-mask sums, contracts of digitize / min / linspace): exactly L values per returned array and exactly L slab edges, the first being min(h); no layer is dropped (every input layer falls in a slab 1..L); cn2_el[i] is the sum of the strengths of slab i, non-negative for non-negative input; the total Cn2 is conserved exactly (partition rule: every layer in exactly one slab); for a slab with turbulence cn2_el[i] * h_el[i]^(5/3) equals the slab's sum of p h^(5/3) (hence the 5/3 height moment, and likewise the 5/3 wind moment, is conserved), an empty slab gets height / wind 0. optimal_grouping and GCTM: bounded native stand-ins (labelled bounded).",
  "note": BASE + "A-MATH ((x^(3/5))^(5/3) = x); float rounding of the slab edges is outside A-REAL: with linspace(endpoint=False) the edge count is exact by construction, the historical arange witness is kept in the bounded native family; optimal_grouping's dependence on the global RandomState is listed under C20.",
  "technique": "symbolic execution with loop summaries and Sigma rules (extensionality, partition, non-negativity); z3",
 },
})
CLAIMED.update({
 "C13": {
  "text": "Deductive (all ri in (0,1), nr, npp, dim): gkl_radii gives the equal-area grid r_k^2 = ri^2 + (k + 1/16)(1 - ri^2)/nr; piston_orth has the constant 1/sqrt(nr) as last column and the stated entries elsewhere, every other column summing to zero (piston filter); gkl_azimuthal rows are 1, cos((i//2+1) theta) for odd i, sin((i//2) theta) for even i on the uniform theta grid (cos/sin pairing by order); pcgeom's pupil is exactly the annulus indicator ri^2 <= x^2 + y^2 <= 1 at the pixel centres x = (q - (dim-1)/2)/(dim/2) for odd and even dim. Orthonormality, zero mean, diagonalisation of the Kolmogorov covariance, ordering of the variances and the Cartesian rendering: bounded native stand-ins (labelled bounded).",
  "note": BASE + "gkl_fcom / gkl_kernel / pol2car are not under a deductive contract (eigen-solvers, selection loops with break, map_coordinates); cos/sin/sqrt uninterpreted.",
  "technique": "symbolic execution with loop summaries; pointwise SMT obligations (with a modular-arithmetic lemma); bounded native checks for the eigen-decomposition clauses",
 },
})
NOT_APPLICABLE = {}
