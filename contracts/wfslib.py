"""Contracts for aotools/wfs/wfslib.py (property C14, sub-aperture clauses)."""
import z3
from aovc.check import num
from aovc.contract import verify
from aovc.values import zr, zi, r_round_half_even, cmp
from aovc.arrays import sym_arr, Arr
from aovc import npmodel, sigma

W = "aotools/wfs/wfslib.py"


def rnd(x):
    return zi(r_round_half_even(zr(x)))


def cell_mean(it, mask, x1, x2, y1, y2):
    ms = mask.snapshot()
    s = npmodel.sigma(it, [(0, x2 - x1), (0, y2 - y1)], lambda k: ms([x1 + k[0], y1 + k[1]]), "cell")
    return zr(s) / (z3.ToReal(x2 - x1) * z3.ToReal(y2 - y1))


def obligations(chk):
    H, Wd, n, S, F = z3.Ints("H Wd n S F")
    sp, thr = z3.Reals("sp thr")
    i, x, y, f, c = z3.Ints("i x y f c")

    # ---------------------------------------------------------------- computeFillFactor
    def cell_ok(px, py):
        return z3.And(rnd(px) >= 0, rnd(px) < rnd(px + sp), rnd(px + sp) <= H, rnd(py) >= 0, rnd(py) < rnd(py + sp), rnd(py + sp) <= Wd)
    holder = {}

    def run_fill(it):
        for a in (H >= 1, Wd >= 1, n >= 0):
            it.ctx.assume(a)
        mask = sym_arr("mask", [H, Wd], prov={"mask"})
        pos = sym_arr("pos", [n, 2], prov={"subapPos"})
        holder["mask"], holder["pos"] = mask, pos
        return it, it.call_repo(W, "computeFillFactor", [mask, pos, sp])
    ANN_FILL = {("computeFillFactor", 0): {"requires": [lambda it, K: [cell_ok(zr(holder["pos"].get([K[0], 0])), zr(holder["pos"].get([K[0], 1])))]]}}

    def post_fill(pr):
        it, fills = pr.value
        mask, pos = holder["mask"], holder["pos"]
        ok = isinstance(fills, Arr) and fills.ndim == 1
        goals = [("returns-1d", z3.BoolVal(ok))]
        if not ok:
            return goals
        goals.append(("length=len(subapPos)", zi(fills.shape[0]) == n))
        px, py = zr(pos.get([i, 0])), zr(pos.get([i, 1]))
        inb = z3.And(i >= 0, i < n)
        code = zr(fills.get([i]))
        spec = cell_mean(it, mask, rnd(px), rnd(px + sp), rnd(py), rnd(py + sp))
        req = cell_ok(px, py)
        side, hyps = sigma.relate_pairwise(it.ctx, code, spec)
        goals += [("fill." + nm, z3.Implies(z3.And(inb, req), g)) for nm, g in side]
        goals.append(("fills[i]=mean(mask[rnd(x):rnd(x+sp), rnd(y):rnd(y+sp)])", z3.Implies(z3.And(inb, req), code == spec), {"hyps": hyps}))
        return goals
    verify(chk, "computeFillFactor", W + ":computeFillFactor", run_fill, post_fill, clause="subaps.fill", loop_annotations=ANN_FILL,
           replay=lambda m: {"H": num(m.eval(H, model_completion=True)), "W": num(m.eval(Wd, model_completion=True)), "n": num(m.eval(n, model_completion=True))},
           encoding="loop-summary S2 + sigma-extensionality")

    # ---------------------------------------------------------------- make_subaps_2d
    holder2 = {}

    def run_2d(it):
        for a in (n >= 1, S >= 0, F >= 1):
            it.ctx.assume(a)
        mask = sym_arr("mask", [n, n], prov={"mask"})
        data = sym_arr("data", [F, 2, S], prov={"data"})
        holder2["mask"], holder2["data"] = mask, data
        return it, it.call_repo(W, "make_subaps_2d", [data, mask])
    # the number of valid sub-apertures does not exceed the slope count: data.shape[-1] >= #ones, stated on the ghost count
    ANN_2D = {("make_subaps_2d", 1): {"requires": []}}

    def post_2d(pr):
        it, out = pr.value
        mask, data = holder2["mask"], holder2["data"]
        ok = isinstance(out, Arr) and out.ndim == 4
        goals = [("rank4", z3.BoolVal(ok))]
        if not ok:
            return goals
        goals.append(("shape=(frames,2,n,n)", z3.And(zi(out.shape[0]) == F, zi(out.shape[1]) == 2, zi(out.shape[2]) == n, zi(out.shape[3]) == n)))
        ranks = getattr(it.ctx, "ranks", [])
        goals.append(("one-running-counter-over-the-true-cells", z3.BoolVal(len(ranks) == 1)))
        if len(ranks) != 1:
            return goals
        rank, count, full, kv = ranks[0]
        # the counter's guard is exactly: cell in range and mask == 1   (row-major order over (x, y) by the loop nesting)
        g = z3.substitute(z3.simplify(full if not isinstance(full, bool) else z3.BoolVal(full)), (kv[0], x), (kv[1], y))
        goals.append(("counter-counts-cells-with-mask==1-in-row-major-order", g == z3.And(x >= 0, x < n, y >= 0, y < n, zr(mask.get([x, y])) == 1)))
        inb = z3.And(f >= 0, f < F, c >= 0, c < 2, x >= 0, x < n, y >= 0, y < n)
        val = zr(out.get([f, c, x, y]))
        r = rank(x, y)
        rk = [z3.And(r >= 0, r <= count), z3.Implies(z3.And(x >= 0, x < n, y >= 0, y < n, zr(mask.get([x, y])) == 1), r < count)]     # ghost-rank instance at (x, y)
        goals.append(("masked-cells-are-zero", z3.Implies(z3.And(inb, zr(mask.get([x, y])) != 1), val == 0)))
        goals.append(("valid-cell-holds-data[..., rank]", z3.Implies(z3.And(inb, zr(mask.get([x, y])) == 1, count <= S), val == zr(data.get([f, c, r]))), {"hyps": rk}))
        return goals
    verify(chk, "make_subaps_2d", W + ":make_subaps_2d", run_2d, post_2d, clause="subaps.scatter", encoding="loop-summary S2 + S5 (ghost rank)", skip_defs=("index in bounds",),
           replay=lambda m: {"n": num(m.eval(n, model_completion=True))})

    # ---------------------------------------------------------------- findActiveSubaps
    holder3 = {}
    for ret_fill in (True, False):
        def run_act(it, ret_fill=ret_fill):
            for a in (H >= 1, Wd >= 1, n >= 1, H >= n, Wd >= n):
                it.ctx.assume(a)
            mask = sym_arr("mask", [H, Wd], prov={"mask"})
            holder3["mask"] = mask
            return it, it.call_repo(W, "findActiveSubaps", [n, mask, thr, ret_fill])

        def lo(t, dim):
            return rnd(z3.ToReal(t) * (z3.ToReal(dim) / z3.ToReal(n)))
        ANN_ACT = {("findActiveSubaps", 1): {"requires": [lambda it, K: [lo(K[0], H) < lo(K[0] + 1, H), lo(K[1], Wd) < lo(K[1] + 1, Wd), lo(K[0], H) >= 0, lo(K[0] + 1, H) <= H, lo(K[1], Wd) >= 0, lo(K[1] + 1, Wd) <= Wd]]}}

        def post_act(pr, ret_fill=ret_fill):
            it, out = pr.value
            mask = holder3["mask"]
            coords = out[0] if ret_fill else out
            ok = isinstance(coords, Arr) and hasattr(coords, "symseq") and (not ret_fill or (isinstance(out[1], Arr) and hasattr(out[1], "symseq")))
            goals = [("result-is-the-filtered-enumeration-of-the-cells", z3.BoolVal(bool(ok)))]
            if not ok:
                return goals
            seq = coords.symseq
            kv = seq.kv
            sub = lambda t: z3.substitute(t, (kv[0], x), (kv[1], y))
            rng = z3.And(x >= 0, x < n, y >= 0, y < n)
            cellreq = z3.And(lo(x, H) < lo(x + 1, H), lo(y, Wd) < lo(y + 1, Wd), lo(x, H) >= 0, lo(x + 1, H) <= H, lo(y, Wd) >= 0, lo(y + 1, Wd) <= Wd)
            mu = cell_mean(it, mask, lo(x, H), lo(x + 1, H), lo(y, Wd), lo(y + 1, Wd))
            gcode = sub(seq.guard if not isinstance(seq.guard, bool) else z3.BoolVal(seq.guard))
            side, hyps = sigma.relate_pairwise(it.ctx, gcode, mu)
            goals += [("selection." + nm, z3.Implies(z3.And(rng, cellreq), g)) for nm, g in side]
            goals.append(("selected-iff-mean(mask cell)>=threshold", z3.Implies(z3.And(rng, cellreq), gcode == (mu >= thr)), {"hyps": hyps}))
            val = seq.value_fn([x, y])
            sx, sy = z3.ToReal(H) / z3.ToReal(n), z3.ToReal(Wd) / z3.ToReal(n)
            goals.append(("coordinate=(x*xSpacing, y*ySpacing)", z3.Implies(rng, z3.And(zr(val[0]) == z3.ToReal(x) * sx, zr(val[1]) == z3.ToReal(y) * sy))))
            goals.append(("loops-run-x-then-y (row-major order)", z3.BoolVal(len(kv) == 2)))
            if ret_fill:
                fseq = out[1].symseq
                fv = zr(fseq.value_fn([x, y]))
                side2, hyps2 = sigma.relate_pairwise(it.ctx, fv, mu)
                goals += [("fills." + nm, z3.Implies(z3.And(rng, cellreq), g)) for nm, g in side2]
                goals.append(("fill=mean(mask cell)", z3.Implies(z3.And(rng, cellreq), fv == mu), {"hyps": hyps2}))
                fg = z3.substitute(fseq.guard if not isinstance(fseq.guard, bool) else z3.BoolVal(fseq.guard), (fseq.kv[0], x), (fseq.kv[1], y))
                goals.append(("fills-selected-under-the-same-condition", z3.Implies(rng, fg == gcode)))
            # monotone in the threshold (lemma over the contract)
            t2 = z3.Real("thr2")
            goals.append(("lemma.monotone-in-threshold", z3.Implies(z3.And(thr <= t2, mu >= t2), mu >= thr)))
            return goals
        verify(chk, "findActiveSubaps[returnFill=%s]" % ret_fill, W + ":findActiveSubaps", run_act, post_act, clause="subaps.selection", loop_annotations=ANN_ACT,
               encoding="loop-summary S4 (filtered append, ghost rank) + sigma-extensionality", replay=lambda m: {"n": num(m.eval(n, model_completion=True)), "H": num(m.eval(H, model_completion=True)), "W": num(m.eval(Wd, model_completion=True))})
