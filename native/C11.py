import sys, os
sys.path.insert(0, os.path.dirname(os.path.abspath(__file__)))
import numpy
from _harness import main
from aotools import opticalpropagation as OP


def bad(msg, obs=None, exp=None, **kw):
    d = {"message": msg, "observed": obs, "expected": exp}
    d.update(kw)
    return d


def field(N, seed=1):
    rng = numpy.random.default_rng(seed)
    return rng.normal(size=(N, N)) + 1j * rng.normal(size=(N, N))


def P(inp):
    p = {"N": 8, "wvl": 5e-7, "d1": 1e-3, "d2": 1.5e-3, "z": 3.0, "z1": 1.2, "z2": -0.7}
    p.update({k: float(v) for k, v in (inp or {}).items() if isinstance(v, (int, float))})
    p["N"] = int(p["N"])
    return p


def ok(p):
    return 2 <= p["N"] <= 256 and p["N"] % 2 == 0 and min(p["wvl"], p["d1"], p["d2"]) > 0


def relerr(a, b):
    return float(abs(a - b).max() / max(abs(b).max(), 1e-300))


def chk_zero(inp):
    p = P(inp)
    if not ok(p):
        return
    U = field(p["N"])
    out = OP.angularSpectrum(U, p["wvl"], p["d1"], p["d1"], 0)
    if relerr(out, U) > 1e-12:
        return bad("angularSpectrum with z=0 does not return the input", None, None)


def chk_additive(inp):
    p = P(inp)
    if not ok(p) or p["z1"] == 0 or p["z2"] == 0 or p["z1"] + p["z2"] == 0:
        return
    U = field(p["N"])
    AS = lambda u, z: OP.angularSpectrum(u, p["wvl"], p["d1"], p["d1"], z)
    two, one = AS(AS(U, p["z1"]), p["z2"]), AS(U, p["z1"] + p["z2"])
    if relerr(two, one) > 1e-9:
        return bad("angular spectrum (unit magnification): z1 then z2 differs from z1+z2", relerr(two, one), 0.0)
    back = AS(AS(U, p["z1"]), -p["z1"])
    if relerr(back, U) > 1e-9:
        return bad("angular spectrum: -z does not undo +z", relerr(back, U), 0.0)


def chk_mag(inp):
    p = P(inp)
    if not ok(p) or p["z"] == 0:
        return
    U = field(p["N"])
    back = OP.angularSpectrum(OP.angularSpectrum(U, p["wvl"], p["d1"], p["d2"], p["z"]), p["wvl"], p["d2"], p["d1"], -p["z"])
    c = (back * U.conj()).sum() / (abs(U) ** 2).sum()
    if abs(abs(c) - 1) > 1e-9 or relerr(back, c * U) > 1e-8:
        return bad("magnification m then 1/m with -z does not recover the input up to a constant phase", relerr(back, c * U), 0.0)


def chk_chain(inp):
    p = P(inp)
    if not ok(p) or p["z"] == 0 or p["d1"] == p["d2"]:
        return
    U = field(p["N"])
    m = p["d2"] / p["d1"]
    Dz1 = p["z"] / (1 - m)
    d1a = p["wvl"] * abs(Dz1) / (p["N"] * p["d1"])
    Dz2 = p["z"] - Dz1
    two = OP.twoStepFresnel(U, p["wvl"], p["d1"], p["d2"], p["z"])
    chain = OP.oneStepFresnel(OP.oneStepFresnel(U, p["wvl"], p["d1"], Dz1), p["wvl"], d1a, Dz2)
    if relerr(two, chain) > 1e-9:
        return bad("twoStepFresnel differs from two chained oneStepFresnel through the intermediate plane", relerr(two, chain), 0.0)


def gauss(N, d, w0=5e-3, x0=3e-3, y0=-2e-3):
    c = (numpy.arange(N) - N / 2) * d
    X, Y = numpy.meshgrid(c, c)
    return numpy.exp(-((X - x0) ** 2 + (Y - y0) ** 2) / w0 ** 2).astype(complex)


def chk_orientation(inp):
    """propagators agree where their sampling grids coincide, with the same orientation (well-sampled off-centre Gaussian beam)"""
    N, wvl, d1 = 128, 1e-6, 5e-4
    cases = [inp] if inp and "m" in inp else [{"m": 1.0, "z": 100.}, {"m": 0.8, "z": 100.}, {"m": 1.25, "z": 100.}, {"m": 1.0, "z": -100.}]
    for c in cases:
        m, z = float(c["m"]), float(c.get("z", 100.))
        U = gauss(N, d1)
        ref = OP.angularSpectrum(U, wvl, d1, m * d1, z)
        two = OP.twoStepFresnel(U, wvl, d1, m * d1, z)
        e = relerr(abs(two), abs(ref))
        if e > 1e-3:
            ef = relerr(abs(two[::-1, ::-1]), abs(numpy.roll(ref, (-1, -1), (0, 1))))
            tag = "C11-negative-distance-orientation" if (m != 1.0 and min(e, 10) > 0.1) else None
            return bad("twoStepFresnel (m=%g, z=%g) and angularSpectrum disagree on the same output grid: |two|-|AS| rel %.3g (point-reflected two-step vs AS: %.3g)" % (m, z, e, ef),
                       e, 0.0, **({"finding": tag} if tag else {}))
    # one-step vs angular spectrum on the one-step grid (positive distance)
    z = 100.
    d2 = wvl * z / (N * d1)
    U = gauss(N, d1)
    one = OP.oneStepFresnel(U, wvl, d1, z)
    ref = OP.angularSpectrum(U, wvl, d1, d2, z)
    e = relerr(abs(one), abs(ref))
    if e > 1e-3:
        return bad("oneStepFresnel (z>0) and angularSpectrum disagree on the same output grid", e, 0.0)
    lens = OP.lensAgainst(U, wvl, d1, z)
    # lens to focal plane = one-step Fresnel of the field times the lens phase (exact identity of the two formulas)
    c = (numpy.arange(N) - N / 2) * d1
    X, Y = numpy.meshgrid(c, c)
    one_l = OP.oneStepFresnel(U * numpy.exp(-1j * numpy.pi / (wvl * z) * (X ** 2 + Y ** 2)), wvl, d1, z)
    if relerr(lens, one_l) > 1e-9:
        return bad("lensAgainst differs from oneStepFresnel of the lens-phased field", relerr(lens, one_l), 0.0)


def beam(N, d, w0, wvl, z, x0=0., y0=0.):
    """paraxial Gaussian beam exp(-r^2/w0^2) after a distance z (width, curvature and Gouy phase in one complex expression), on the grid whose
    origin is sample N//2: U(r, z) = w0^2 / W * exp(-r^2 / W), W = w0^2 + i wvl z / pi"""
    c = (numpy.arange(N) - N // 2) * d
    X, Y = numpy.meshgrid(c, c)
    W = w0 ** 2 + 1j * wvl * z / numpy.pi
    return (w0 ** 2 / W) * numpy.exp(-((X - x0) ** 2 + (Y - y0) ** 2) / W)


def chk_gaussian(inp):
    """every propagator reproduces the analytic Gaussian-beam solution (complex field: width, curvature, Gouy phase), for even and odd grid sizes"""
    wvl, d = 1e-6, 1e-4
    for N in (96, 97, 128, 127):
        w0 = N * d / 16.
        for z in (1.0 * N * d * d / wvl, -0.7 * N * d * d / wvl):     # (output windows several beam widths wide: aliasing below 1e-9)
            for (x0, y0) in ((0., 0.), (2.5 * d, -4 * d)):
                U0 = beam(N, d, w0, wvl, 0., x0, y0)
                for m in (1.0, 1.5, 0.75):
                    got = OP.angularSpectrum(U0, wvl, d, m * d, z)
                    want = beam(N, m * d, w0, wvl, z, x0, y0)
                    e = abs(got - want).max() / abs(want).max()
                    if not e <= 1e-6:
                        return bad("angularSpectrum (N=%d, magnification %g, z=%g) does not reproduce the analytic Gaussian beam (complex field, no free phase)" % (N, m, z), float(e), 0.0)
                if z > 0:
                    d2 = wvl * z / (N * d)
                    got = OP.oneStepFresnel(U0, wvl, d, z)
                    want = beam(N, d2, w0, wvl, z, x0, y0)
                    e = abs(got - want).max() / abs(want).max()
                    if not e <= 1e-6:
                        return bad("oneStepFresnel (N=%d, z=%g) does not reproduce the analytic Gaussian beam on its output grid" % (N, z), float(e), 0.0)
                    if x0 == 0:
                        got = OP.twoStepFresnel(U0, wvl, d, 1.5 * d, z)
                        want = beam(N, 1.5 * d, w0, wvl, z)
                        e = abs(got - want).max() / abs(want).max()
                        if not e <= 1e-6:
                            return bad("twoStepFresnel (N=%d, magnification 1.5, z=%g) does not reproduce the analytic (on-axis) Gaussian beam" % (N, z), float(e), 0.0)
    # lens to focal plane: the focal-plane field of a Gaussian at the lens is the Gaussian of width wvl f / (pi w0) (times the Fresnel prefactor)
    for N in (96, 97):
        w0, f = N * d / 16., 0.5 * N * d * d / wvl
        U0 = beam(N, d, w0, wvl, 0.)
        got = OP.lensAgainst(U0, wvl, d, f)
        d2 = wvl * f / (N * d)
        c = (numpy.arange(N) - N // 2) * d2
        X, Y = numpy.meshgrid(c, c)
        wf = wvl * f / (numpy.pi * w0)
        want = (numpy.pi * w0 ** 2) / (1j * wvl * f) * numpy.exp(1j * numpy.pi / (wvl * f) * (X ** 2 + Y ** 2)) * numpy.exp(-(X ** 2 + Y ** 2) / wf ** 2)
        e = abs(got - want).max() / abs(want).max()
        if not e <= 1e-6:
            return bad("lensAgainst (N=%d) does not give the focal-plane Gaussian of width wvl f / (pi w0)" % N, float(e), 0.0)


def chk_airy(inp):
    """focal-plane field of a uniformly lit circular aperture: the Airy pattern (peak = aperture area / (wvl f), intensity (2 J1(x)/x)^2, x = pi D r / (wvl f))"""
    from scipy.special import j1
    wvl, d = 1e-6, 1e-4
    for N, R in ((256, 40.), (255, 40.), (192, 30.5)):
        c = (numpy.arange(N) - N // 2) * d
        X, Y = numpy.meshgrid(c, c)
        ap = ((X ** 2 + Y ** 2) <= (R * d) ** 2).astype(complex)
        f = 2.0 * N * d * d / wvl
        d2 = wvl * f / (N * d)
        got = OP.lensAgainst(ap, wvl, d, f)
        c2 = (numpy.arange(N) - N // 2) * d2
        X2, Y2 = numpy.meshgrid(c2, c2)
        r = numpy.sqrt(X2 ** 2 + Y2 ** 2)
        x = numpy.pi * (2 * R * d) * r / (wvl * f)
        x[N // 2, N // 2] = 1.
        airy = 2 * j1(x) / x
        airy[N // 2, N // 2] = 1.
        area = ap.real.sum() * d * d
        want = area / (1j * wvl * f) * numpy.exp(1j * numpy.pi / (wvl * f) * r ** 2) * airy
        e = abs(got - want).max() / abs(want).max()
        # (a pixelated disc is not a disc: the residual is the boundary error, ~ 1 / R relative to the peak in the side lobes; the centre is exact)
        if not (e <= 2.5 / R and abs(got[N // 2, N // 2] - want[N // 2, N // 2]) <= 1e-9 * abs(want).max()):
            return bad("lensAgainst of a circular aperture (N=%d, radius %g px) is not the Airy pattern centred on sample N//2" % (N, R), [float(e), float(abs(got[N // 2, N // 2] - want[N // 2, N // 2]) / abs(want).max())], "< %.3g, < 1e-9" % (2.5 / R))
        k = numpy.unravel_index(numpy.argmax(abs(got)), got.shape)
        if tuple(int(v) for v in k) != (N // 2, N // 2):
            return bad("Airy pattern does not peak on the axis sample (N=%d)" % N, [int(v) for v in k], [N // 2, N // 2])


def chk_nearunit(inp):
    """two-step Fresnel with d2 equal to d1 up to rounding (e.g. d2 computed as (0.1 + 0.2) * 1e-2 for d1 = 0.3e-2): the partial distances
    z / (1 - m) are ~ z / eps and the result loses all accuracy, silently (listed finding)"""
    N, wvl, d, w0, z = 128, 1e-6, 0.3e-2, 15e-3, 1152.
    U0 = beam(N, d, w0, wvl, 0.)
    want = beam(N, d, w0, wvl, z)
    exact = OP.twoStepFresnel(U0, wvl, d, 0.3e-2, z)
    e0 = abs(exact - want).max() / abs(want).max()
    if not e0 <= 1e-6:
        return bad("twoStepFresnel at unit magnification does not reproduce the analytic Gaussian beam", float(e0), 0.0)
    d2 = (0.1 + 0.2) * 1e-2          # one ulp away from 0.3e-2
    got = OP.twoStepFresnel(U0, wvl, d, d2, z)
    e = abs(got - want).max() / abs(want).max()
    if not e <= 1e-6:
        return bad("twoStepFresnel with d2 = %r, d1 = %r (equal up to rounding): field differs from the analytic Gaussian beam / from the d2 == d1 result by %.3g of the peak" % (d2, d, e), float(e), "< 1e-6",
                   finding="C11-twostep-near-unit-magnification")


def fam(tier, seed):
    for N in (2, 4, 8, 16):
        for (z1, z2) in ((1.2, -0.7), (3.0, 5.0), (-2.0, -1.0)):
            for d2 in (1e-3, 1.5e-3, 0.4e-3):
                yield {"N": N, "wvl": 6e-7, "d1": 1e-3, "d2": d2, "z": z1, "z1": z1, "z2": z2}


CLAUSES = {"group.zero": (chk_zero, fam), "group.additive": (chk_additive, fam), "group.magnification": (chk_mag, fam), "agree.twostep-chain": (chk_chain, fam),
           "orientation": (chk_orientation, lambda t, s: [None]), "gaussian": (chk_gaussian, lambda t, s: [None]), "airy": (chk_airy, lambda t, s: [None]), "nearunit": (chk_nearunit, lambda t, s: [None])}
if __name__ == "__main__":
    main(CLAUSES)
