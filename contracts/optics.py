"""Contracts for aotools/opticalpropagation.py (properties C10, C11), operator-word encoding.
ft2 / ift2 are used through their contract (the centred scaled transform proved in C09), not their bodies."""
import z3
from aovc import opword
from aovc.opword import Lin
from aovc.check import num
from aovc.contract import verify
from aovc.values import zr, zi, Unsupported, s_abs2, PI, PI_AXIOMS
from contracts.fourier import spec_ft_word, FT

OP = "aotools/opticalpropagation.py"


def _ft2_summary(inverse):
    def summary(it, args, kwargs):
        data, delta = args[0], args[1]
        if not isinstance(data, Lin):
            raise Unsupported("ft2/ift2 contract is stated for linear images of the input field")
        nd = data.ndim
        return spec_ft_word(it, data, zr(delta), [nd - 2, nd - 1], inverse=inverse)
    return summary


SUMMARIES = {(FT, "ft2"): _ft2_summary(False), (FT, "ift2"): _ft2_summary(True)}

N = z3.Int("N")
wvl, d1, d2, zz, ff = z3.Reals("wvl d1 d2 z f")
z1, z2 = z3.Reals("z1 z2")


def common(it):
    for a in PI_AXIOMS:
        it.ctx.assume(a)
    it.ctx.assume(N >= 2)
    # (no parity assumption: the statements speak about any grid size)
    it.ctx.assume(wvl > 0)
    it.ctx.assume(d1 > 0)
    it.ctx.assume(d2 > 0)


def rp(extra):
    def f(m):
        g = lambda t: num(m.eval(t, model_completion=True))
        out = {"N": g(N), "wvl": g(wvl), "d1": g(d1), "d2": g(d2), "z": g(zz), "f": g(ff), "z1": g(z1), "z2": g(z2)}
        out.update(extra)
        return out
    return f


def c10_obligations(chk):
    cases = [
        ("angularSpectrum", lambda it, U: it.call_repo(OP, "angularSpectrum", [U, wvl, d1, d2, zz]), lambda: d2, [zz != 0]),
        ("oneStepFresnel", lambda it, U: it.call_repo(OP, "oneStepFresnel", [U, wvl, d1, zz]), lambda: wvl * zz / (zr(N) * d1), [zz != 0]),
        ("twoStepFresnel", lambda it, U: it.call_repo(OP, "twoStepFresnel", [U, wvl, d1, d2, zz]), lambda: d2, [zz != 0]),
        ("lensAgainst", lambda it, U: it.call_repo(OP, "lensAgainst", [U, wvl, d1, ff]), lambda: wvl * ff / (zr(N) * d1), [ff != 0]),
        # the scalar arguments may be NumPy floats (numpy.float64 spacings / distances taken from arrays): a division by a zero NumPy
        # scalar gives inf / nan and a warning, it does NOT raise ZeroDivisionError
        ("twoStepFresnel[numpy scalars]", lambda it, U: it.call_repo(OP, "twoStepFresnel", [U, wvl, d1, d2, zz]), lambda: d2, [zz != 0]),
    ]
    for name, call, dout, pre in cases:
        def run(it, call=call, pre=pre, name=name):
            it.numpy_scalars = "numpy scalars" in name
            common(it)
            for p in pre:
                it.ctx.assume(p)
            U = Lin([N, N])
            return it, U, call(it, U)

        def post(pr, name=name, dout=dout):
            it, U, out = pr.value
            goals = [("linear-in-input", z3.BoolVal(isinstance(out, Lin) and not any(op[0] == "re" for op in out.ops)))]
            if isinstance(out, Lin):
                w = opword.normalise(it, out, it.ctx.valid)
                do = dout()
                goals.append(("power-conserved", zr(opword.energy_factor(it, w)) * do * do == d1 * d1))
            return goals
        verify(chk, name, OP + ":" + name.split("[")[0], run, post, clause="power." + name.split("[")[0], replay=rp({"fn": name.split("[")[0], "numpy_scalars": "numpy scalars" in name}), encoding="operator-words+QF_NRA",
               summaries=SUMMARIES, frame=True)


def c11_obligations(chk):
    AS = lambda it, U, a, b, dist: it.call_repo(OP, "angularSpectrum", [U, wvl, a, b, dist])

    # (1) distance 0 returns the input
    def run0(it):
        common(it)
        U = Lin([N, N])
        return it, U, AS(it, U, d1, d1, 0)

    def post0(pr):
        it, U, out = pr.value
        return [("z=0.returns-input.%s" % n, f) for n, f in opword.equal_obligations(it, out, U, it.ctx.valid)] if isinstance(out, Lin) else [("z=0.returns-input", z3.BoolVal(False))]
    verify(chk, "AS.zero", OP + ":angularSpectrum", run0, post0, clause="group.zero", replay=rp({}), encoding="operator-words", summaries=SUMMARIES, frame=False)

    # (2) unit magnification: distances add for any split, -z undoes +z
    def run_add(it):
        common(it)
        it.ctx.assume(z1 != 0); it.ctx.assume(z2 != 0); it.ctx.assume(z1 + z2 != 0)
        U = Lin([N, N])
        two = AS(it, AS(it, U, d1, d1, z1), d1, d1, z2)
        one = AS(it, U, d1, d1, z1 + z2)
        back = AS(it, AS(it, U, d1, d1, z1), d1, d1, -z1)
        return it, U, two, one, back

    def post_add(pr):
        it, U, two, one, back = pr.value
        out = [("additive.%s" % n, f) for n, f in opword.equal_obligations(it, two, one, it.ctx.valid)]
        out += [("minus-z-undoes-z.%s" % n, f) for n, f in opword.equal_obligations(it, back, U, it.ctx.valid)]
        return out
    verify(chk, "AS.group", OP + ":angularSpectrum", run_add, post_add, clause="group.additive", replay=rp({}), encoding="operator-words", summaries=SUMMARIES, frame=False)

    # (3) magnification m then 1/m with -z recovers the input up to a constant phase
    def run_mag(it):
        common(it)
        it.ctx.assume(zz != 0)
        U = Lin([N, N])
        back = AS(it, AS(it, U, d1, d2, zz), d2, d1, -zz)
        return it, U, back

    def post_mag(pr):
        it, U, back = pr.value
        return [("mag-then-inverse-mag.%s" % n, f) for n, f in opword.equal_obligations(it, back, U, it.ctx.valid, phase_mod_const=True)]
    verify(chk, "AS.magnification", OP + ":angularSpectrum", run_mag, post_mag, clause="group.magnification", replay=rp({}), encoding="operator-words", summaries=SUMMARIES, frame=False)

    # (4) two-step Fresnel is two chained one-step propagations through the intermediate plane of the statement
    #     (two cases for the sign of the first partial distance, so that |Dz1| is a rational expression in each)
    for sign in (+1, -1):
        def run_two(it, sign=sign):
            common(it)
            it.ctx.assume(zz != 0)
            it.ctx.assume(d2 != d1)
            U = Lin([N, N])
            m = d2 / d1
            Dz1 = zz / (1 - m)
            it.ctx.assume(Dz1 > 0 if sign > 0 else Dz1 < 0)
            d1a = wvl * (Dz1 if sign > 0 else -Dz1) / (zr(N) * d1)
            Dz2 = zz - Dz1
            two = it.call_repo(OP, "twoStepFresnel", [U, wvl, d1, d2, zz])
            chain = it.call_repo(OP, "oneStepFresnel", [it.call_repo(OP, "oneStepFresnel", [U, wvl, d1, Dz1]), wvl, d1a, Dz2])
            return it, two, chain

        def post_two(pr):
            it, two, chain = pr.value
            return [("two-step=one-step.one-step.%s" % n, f) for n, f in opword.equal_obligations(it, two, chain, it.ctx.valid)]
        verify(chk, "twoStep=oneStep^2[Dz1%s0]" % (">" if sign > 0 else "<"), OP + ":twoStepFresnel,oneStepFresnel", run_two, post_two, clause="agree.twostep-chain", replay=rp({}),
               encoding="operator-words", summaries=SUMMARIES, frame=False)

def fresnel_spec_word(it, U, dist, spacing_in):
    """the statement's Fresnel integral, discretised for a POSITIVE distance on grids whose origin is sample h = floor(N/2) (the origin of the centred
       transform, for even AND odd N): field at x2 = (k - h) * X, X = wvl*dist/(N*spacing_in) > 0,
       U2[k] = 1/(i wvl dist) * exp(i kw x2^2/(2 dist)) * sum_n U[n] exp(i kw x1^2/(2 dist)) exp(-2 pi i (k-h)(n-h)/N) * spacing_in^2, x1 = (n - h) * spacing_in"""
    from aovc.values import Cx, r_div, s_div
    kw_ = 2 * PI / wvl
    half = zr(it.floordiv(N, 2))
    X = wvl * dist / (zr(N) * spacing_in)

    def chirp_in(idx):
        x = (zr(idx[1]) - half) * spacing_in
        y = (zr(idx[0]) - half) * spacing_in
        return kw_ / (2 * dist) * (x * x + y * y)

    def chirp_out(idx):
        x = (zr(idx[1]) - half) * X
        y = (zr(idx[0]) - half) * X
        return kw_ / (2 * dist) * (x * x + y * y)
    w = U.with_op(("phase", chirp_in))
    w = spec_ft_word(it, w, spacing_in, [0, 1])
    w = w.with_op(("phase", chirp_out))
    return w.scaled(s_div(1, Cx(0, wvl * dist), it.ctx), it.ctx)


def c11_orientation(chk):
    # one-step Fresnel and lens-to-focal-plane evaluate the Fresnel integral on the upright grid x2 = (k-N/2)*|d_out| : proved for positive distance
    def run_one(it):
        common(it)
        it.ctx.assume(zz > 0)
        U = Lin([N, N])
        return it, it.call_repo(OP, "oneStepFresnel", [U, wvl, d1, zz]), fresnel_spec_word(it, U, zz, d1)

    def post_one(pr):
        it, out, spec = pr.value
        return [("oneStepFresnel=Fresnel-integral-upright[z>0].%s" % n, f) for n, f in opword.equal_obligations(it, out, spec, it.ctx.valid)]
    verify(chk, "orientation.oneStep", OP + ":oneStepFresnel", run_one, post_one, clause="orientation", replay=rp({}), encoding="operator-words (kernel form)",
           summaries=SUMMARIES, frame=False)

    def run_lens(it):
        common(it)
        it.ctx.assume(ff > 0)
        U = Lin([N, N])
        out = it.call_repo(OP, "lensAgainst", [U, wvl, d1, ff])
        # lens against the object cancels the input chirp: Fresnel integral of U * exp(-i kw r1^2/(2f))
        kw_ = 2 * PI / wvl
        half = zr(it.floordiv(N, 2))
        lensed = U.with_op(("phase", lambda idx: -kw_ / (2 * ff) * (((zr(idx[1]) - half) * d1) ** 2 + ((zr(idx[0]) - half) * d1) ** 2)))
        return it, out, fresnel_spec_word(it, lensed, ff, d1)

    def post_lens(pr):
        it, out, spec = pr.value
        return [("lensAgainst=Fresnel-integral-of-lensed-field[f>0].%s" % n, f) for n, f in opword.equal_obligations(it, out, spec, it.ctx.valid)]
    verify(chk, "orientation.lens", OP + ":lensAgainst", run_lens, post_lens, clause="orientation", replay=rp({}), encoding="operator-words (kernel form)",
           summaries=SUMMARIES, frame=False)

    # two-step at unit magnification: both partial distances are z/2 > 0, so the chain of two upright one-step propagations
    def run_two1(it):
        common(it)
        it.ctx.assume(zz > 0)
        U = Lin([N, N])
        two = it.call_repo(OP, "twoStepFresnel", [U, wvl, d1, d1, zz])
        d1a = wvl * (zz / 2) / (zr(N) * d1)
        chain = fresnel_spec_word(it, fresnel_spec_word(it, U, zz / 2, d1), zz / 2, d1a)
        return it, two, chain

    def post_two1(pr):
        it, two, chain = pr.value
        return [("twoStep[m=1,z>0]=upright-chain.%s" % n, f) for n, f in opword.equal_obligations(it, two, chain, it.ctx.valid)]
    verify(chk, "orientation.twoStep[m=1]", OP + ":twoStepFresnel", run_two1, post_two1, clause="orientation", replay=rp({}), encoding="operator-words (kernel form)",
           summaries=SUMMARIES, frame=False)


def angular_spectrum_spec_word(it, U, dist, d_in, d_out):
    """the Fresnel integral between planes sampled at d_in and d_out = m d_in, origin on sample h = floor(N/2) of both grids, in its
    convolution (angular-spectrum) form  U2(r2) = exp(i k (m-1) r2^2 / (2 m z)) * F^-1[ exp(-i pi wvl z f^2 / m) * F[ exp(i k (1-m) r1^2 / (2 z)) U1(r1) / m ] ],
    with the transfer function sampled at the bins f = (j - h) / (N d_in) of the centred transform (Schmidt 2010, sec. 6.4: exact identity for the
    continuous integral; no constant phase besides it)"""
    kw_ = 2 * PI / wvl
    h = zr(it.floordiv(N, 2))
    m = d_out / d_in
    df = 1 / (zr(N) * d_in)
    r2 = lambda idx, s: ((zr(idx[1]) - h) * s) ** 2 + ((zr(idx[0]) - h) * s) ** 2
    w = U.with_op(("phase", lambda idx: kw_ / 2 * (1 - m) / dist * r2(idx, d_in)))
    w = spec_ft_word(it, w, d_in, [0, 1])
    w = w.with_op(("phase", lambda idx: -PI * wvl * dist / m * r2(idx, df)))
    w = spec_ft_word(it, w, df, [0, 1], inverse=True)
    w = w.with_op(("phase", lambda idx: kw_ / 2 * (m - 1) / (m * dist) * r2(idx, d_out)))
    return w.scaled(1 / m, it.ctx)


def c11_fresnel_as(chk):
    """angularSpectrum evaluates the Fresnel integral (convolution form) on grids centred on the transform's origin, for every N (even or odd),
    magnification and distance of either sign -- phases compared exactly (mod 2 pi), not up to a constant"""
    def run(it):
        common(it)
        it.ctx.assume(zz != 0)
        U = Lin([N, N])
        return it, it.call_repo(OP, "angularSpectrum", [U, wvl, d1, d2, zz]), angular_spectrum_spec_word(it, U, zz, d1, d2)

    def post(pr):
        it, out, spec = pr.value
        if not isinstance(out, Lin):
            return [("angularSpectrum=Fresnel-integral(convolution form)", z3.BoolVal(False))]
        return [("angularSpectrum=Fresnel-integral(convolution form).%s" % n, f) for n, f in opword.equal_obligations(it, out, spec, it.ctx.valid)]
    verify(chk, "fresnel.angularSpectrum", OP + ":angularSpectrum", run, post, clause="gaussian", replay=rp({}), encoding="operator-words (kernel form)", summaries=SUMMARIES, frame=False)
