"""Sigma calculus (DESIGN 4.3): rules relating hash-consed Sum terms.  Each rule returns
   (side obligations [(name, formula)], conclusion formula)
the conclusion may be used as a hypothesis of the main goal once the side obligations are discharged (they are emitted as
obligations of their own, so an unproved side condition leaves the main goal unproved, never silently assumed)."""
import z3
from .values import zr, zi, is_z3


def find_sums(e, out=None, seen=None):
    """applications of Sum_* functions (and Sum_* constants) in a z3 term, outermost first, left to right"""
    if out is None:
        out, seen = [], set()
    if not is_z3(e):
        return out
    if e.get_id() in seen:
        return out
    seen.add(e.get_id())
    if z3.is_app(e) and e.decl().name().startswith("Sum_"):
        out.append(e)
        return out
    for c in e.children():
        find_sums(c, out, seen)
    return out


def instantiate(ctx, app):
    """(ranges [(bvar, lo, hi)], body) of a Sum application with its actual arguments substituted for the parameters"""
    st = ctx.sums[app.decl().name()]
    params = getattr(st, "params", [])
    actual = [app.arg(i) for i in range(app.num_args())]
    sub = [(p, a) for p, a in zip(params, actual) if not p.eq(a)]
    def S(t):
        return z3.substitute(t, *sub) if sub else t
    return [(v, S(lo), S(hi)) for (v, lo, hi) in st.ranges], S(st.body)


def in_range(ranges):
    return z3.And(*[z3.And(v >= lo, v < hi) for (v, lo, hi) in ranges]) if ranges else z3.BoolVal(True)


def ext(ctx, a, b, factor=None):
    """extensionality / linearity: sum_a == factor * sum_b  if the ranges coincide and body_a == factor * body_b on the range
    (factor must not mention the bound variables; default 1)"""
    ra, ba = instantiate(ctx, a)
    rb, bb = instantiate(ctx, b)
    if len(ra) != len(rb):
        return [("sigma.same-rank", z3.BoolVal(False))], z3.BoolVal(True)
    obl = []
    for k, ((va, la, ha), (vb, lb, hb)) in enumerate(zip(ra, rb)):
        obl.append(("sigma.range%d" % k, z3.And(la == lb, ha == hb)))
    f = zr(factor) if factor is not None else z3.RealVal(1)
    obl.append(("sigma.bodies-equal-on-range", z3.Implies(in_range(ra), ba == f * bb)))
    return obl, a == f * b


def nonneg(ctx, a):
    """sum >= 0 if the body is >= 0 on the range"""
    ra, ba = instantiate(ctx, a)
    return [("sigma.body-nonnegative", z3.Implies(in_range(ra), ba >= 0))], a >= 0


def bounds(ctx, num, den, lo, hi):
    """weighted mean bounds: den = sum w, num = sum w*d with w >= 0 and lo <= d <= hi on the range  =>  lo*den <= num <= hi*den
    (caller provides the bodies' relation through the side obligation body_num between lo*body_den and hi*body_den)"""
    rn, bn = instantiate(ctx, num)
    rd, bd = instantiate(ctx, den)
    obl = []
    for k, ((va, la, ha), (vb, lb, hb)) in enumerate(zip(rn, rd)):
        obl.append(("sigma.range%d" % k, z3.And(la == lb, ha == hb)))
    obl.append(("sigma.pointwise-bounds", z3.Implies(in_range(rn), z3.And(bd >= 0, zr(lo) * bd <= bn, bn <= zr(hi) * bd))))
    return obl, z3.And(zr(lo) * den <= num, num <= zr(hi) * den)


def relate_pairwise(ctx, e_code, e_spec):
    """pair the Sum terms of two expressions in order and return (side obligations, hypotheses) by extensionality"""
    sa, sb = find_sums(e_code), find_sums(e_spec)
    obl, hyps = [], []
    if len(sa) != len(sb):
        return [("sigma.same-number-of-sums[%d vs %d]" % (len(sa), len(sb)), z3.BoolVal(False))], []
    for k, (a, b) in enumerate(zip(sa, sb)):
        if a.eq(b):
            continue
        o, h = ext(ctx, a, b)
        obl += [("sum%d.%s" % (k, n), f) for n, f in o]
        hyps.append(h)
    return obl, hyps


def ge_term(ctx, a, witness):
    """sum >= body(witness) if the body is >= 0 on the range and the witness index lies in the range"""
    ra, ba = instantiate(ctx, a)
    sub = [(v, zi(w)) for (v, lo, hi), w in zip(ra, witness)]
    at_w = z3.substitute(ba, *sub)
    in_w = z3.And(*[z3.And(zi(w) >= lo, zi(w) < hi) for (v, lo, hi), w in zip(ra, witness)])
    return [("sigma.body-nonnegative", z3.Implies(in_range(ra), ba >= 0)), ("sigma.witness-in-range", in_w)], a >= at_w


def delta(ctx, a, point, value):
    """sum == value  if the body is `value` at `point` (which lies in the range) and 0 at every other index of the range"""
    ra, ba = instantiate(ctx, a)
    at_p = z3.And(*[v == zi(p) for (v, lo, hi), p in zip(ra, point)])
    in_p = z3.And(*[z3.And(zi(p) >= lo, zi(p) < hi) for (v, lo, hi), p in zip(ra, point)])
    return [("sigma.point-in-range", in_p), ("sigma.body-is-a-delta", z3.Implies(in_range(ra), ba == z3.If(at_p, zr(value), z3.RealVal(0))))], a == zr(value)


def fubini(ctx, joint, nested):
    """sum over (y, x) of f  ==  sum over y of (sum over x of f):  nested is a Sum whose summand is itself a Sum application"""
    rj, bj = instantiate(ctx, joint)
    rn, bn = instantiate(ctx, nested)
    if len(rj) != 2 or len(rn) != 1:
        return [("sigma.fubini-shape", z3.BoolVal(False))], z3.BoolVal(True)
    inner = find_sums(bn)
    if len(inner) != 1 or not inner[0].eq(z3.simplify(bn)) and not inner[0].eq(bn):
        return [("sigma.fubini-summand-is-a-sum", z3.BoolVal(False))], z3.BoolVal(True)
    ri, bi = instantiate(ctx, inner[0])
    (vy, ly, hy), (vx, lx, hx) = rj
    (wy, lwy, hwy) = rn[0]
    (wx, lwx, hwx) = ri[0]
    # rename the nested bound variables to the joint ones
    sub = [(wy, vy), (wx, vx)]
    bi2 = z3.substitute(bi, *sub)
    obl = [("sigma.fubini-outer-range", z3.And(ly == z3.substitute(lwy, *sub), hy == z3.substitute(hwy, *sub))),
           ("sigma.fubini-inner-range", z3.Implies(z3.And(vy >= ly, vy < hy), z3.And(lx == z3.substitute(lwx, *sub), hx == z3.substitute(hwx, *sub)))),
           ("sigma.fubini-summands-equal", z3.Implies(in_range(rj), bj == bi2))]
    return obl, joint == nested


def partition(ctx, nested, flat, cls, offset=0):
    """sum_i sum_k [cls(k) == i + offset] g(k)  ==  sum_k g(k)   when every k of the range falls into exactly one class i of the outer range.
    `nested` is a Sum whose summand is a Sum; `flat` a Sum over k with body g(k); cls maps the inner bound variable to its class term."""
    rn, bn = instantiate(ctx, nested)
    rf, bf = instantiate(ctx, flat)
    inner = find_sums(bn)
    if len(rn) != 1 or len(rf) != 1 or len(inner) != 1:
        return [("sigma.partition-shape", z3.BoolVal(False))], z3.BoolVal(True)
    ri, bi = instantiate(ctx, inner[0])
    (vi, li, hi) = rn[0]
    (vk, lk, hk) = ri[0]
    (vf, lf, hf) = rf[0]
    bf2 = z3.substitute(bf, (vf, vk))
    c = cls(vk)
    obl = [("sigma.partition-inner-range", z3.Implies(z3.And(vi >= li, vi < hi), z3.And(lk == lf, hk == hf))),
           ("sigma.partition-outer-summand-is-the-inner-sum", z3.Implies(z3.And(vi >= li, vi < hi), bn == inner[0])),
           ("sigma.partition-inner-summand-is-the-class-indicator", z3.Implies(z3.And(vi >= li, vi < hi, vk >= lk, vk < hk), bi == z3.If(c == vi + offset, bf2, z3.RealVal(0)))),
           ("sigma.partition-every-element-in-exactly-one-class", z3.Implies(z3.And(vk >= lk, vk < hk), z3.And(c - offset >= li, c - offset < hi)))]
    return obl, nested == flat
