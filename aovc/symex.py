"""Symbolic executor over the Python AST of the real AOtools source.

One `Ctx` = one path.  Undecided branches fork by re-execution (`explore`).  Definedness
conditions (divisor non-zero, index in bounds, shapes compatible, sqrt argument >= 0) and frame
events (write into memory owned by a parameter) are recorded on the context and turned into
obligations by the caller.  Anything outside the modelled subset raises `Unsupported`.
"""
import ast
from fractions import Fraction
import z3

from . import frontend
from .values import *          # noqa
from .values import _num
from .arrays import Arr, const_arr, sym_arr, broadcast_shapes, dim_eq, cast_elem


class ReturnEx(Exception):
    def __init__(self, value):
        self.value = value


class BreakEx(Exception):
    pass


class ContinueEx(Exception):
    pass


class RaiseEx(Exception):
    """the real code executes `raise` on this path"""
    def __init__(self, what, lineno):
        self.what = what
        self.lineno = lineno


class PathInfeasible(Exception):
    pass


# ----------------------------------------------------------------------------- special values

class ExtRef:
    """a name outside the repository: numpy, numpy.fft.fftshift, scipy.special.kv ..."""
    def __init__(self, dotted):
        self.dotted = dotted

    def __repr__(self):
        return "<ext %s>" % self.dotted


class RepoMod:
    def __init__(self, mod):
        self.mod = mod


class RepoFunc:
    def __init__(self, mod, qualname, bound_self=None):
        self.mod = mod
        self.qualname = qualname
        self.bound_self = bound_self

    def __repr__(self):
        return "<repo %s:%s>" % (self.mod.relpath, self.qualname)


class RepoClass:
    def __init__(self, mod, name):
        self.mod = mod
        self.name = name


class Obj:
    """instance of a repository class (or a plain attribute bag)"""
    def __init__(self, cls=None, attrs=None):
        self.cls = cls          # RepoClass or None
        self.attrs = dict(attrs or {})
        self.attr_writes = []   # (name, lineno)
        self.complete = False   # True once the real constructor has been executed on it: only then is a missing attribute an AttributeError


class SymRange:
    """range(lo, hi, step) with a symbolic bound"""
    def __init__(self, lo, hi, step=1):
        self.lo, self.hi, self.step = lo, hi, step


class Builtin:
    def __init__(self, name):
        self.name = name


class BoundMethod:
    def __init__(self, recv, name):
        self.recv = recv
        self.name = name


class Taken:
    def __init__(self, cond, value, forked, lineno):
        self.cond, self.value, self.forked, self.lineno = cond, value, forked, lineno


# ----------------------------------------------------------------------------- context

class Ctx:
    def __init__(self, decisions=None, timeout_ms=2000):
        self.pc = []
        self.assumptions = []
        self.defs = []           # (formula, msg, pc-snapshot, lineno)
        self.frame_events = []   # (param, what, pc-snapshot, lineno)
        self.decisions = list(decisions or [])
        self.taken = []
        self.timeout_ms = timeout_ms
        self.lineno = 0
        self.func = "?"
        self.notes = []
        self._seen_axioms = set()
        self.trusted_calls = set()   # library contracts used on this path
        self.summaries_used = set()
        self.loop_summaries = []
        self._solver = None
        self.param_arrays = {}
        self.generic = None

    # -- solver helpers
    def hyps(self):
        return list(self.assumptions) + list(self.pc)

    def _check(self, extra):
        s = z3.Solver()
        s.set("timeout", self.timeout_ms)
        for h in self.hyps():
            s.add(h)
        s.add(extra)
        return s.check()

    def valid(self, f):
        """pc /\\ assumptions => f ?  (False also when unknown)"""
        f = simp(f)
        if isinstance(f, bool):
            return f
        return self._check(z3.Not(f)) == z3.unsat

    def decide(self, cond):
        cond = simp(cond)
        if isinstance(cond, bool):
            return cond
        if self._check(z3.Not(cond)) == z3.unsat:
            return True
        if self._check(cond) == z3.unsat:
            return False
        return None

    def branch(self, cond, what="if"):
        """a concrete decision for a condition, forking the path when it is undecided"""
        cond = simp(cond)
        if isinstance(cond, bool):
            return cond
        if not z3.is_bool(cond):
            cond = cond != 0
        d = self.decide(cond)
        if d is not None:
            return d
        if getattr(self, "generic", None) is not None:
            from .npmodel import free_consts
            fv = free_consts(cond)
            sc = self.generic
            while sc is not None:
                if str(sc.space.k) in fv:
                    raise Unsupported("path split on a condition that depends on the loop variable inside a loop summary (%s)" % what)
                sc = sc.parent
        k = len(self.taken)
        if k < len(self.decisions):
            v = self.decisions[k]
            forked = False
        else:
            v = True
            forked = True
        self.taken.append(Taken(cond, v, forked, self.lineno))
        self.pc.append(cond if v else z3.Not(cond))
        return v

    def assume(self, f):
        f = simp(f)
        if f is True:
            return
        if f is False:
            raise PathInfeasible()
        self.assumptions.append(f)

    def definedness(self, f, msg):
        f = simp(f)
        if f is True:
            return
        self.defs.append((f, msg, list(self.pc), self.lineno, self.func))

    def lemma(self, name, f):
        """an auxiliary fact: proved as its own obligation from the hypotheses at this point, then available as a hypothesis"""
        if not hasattr(self, "lemmas"):
            self.lemmas = []
        self.lemmas.append((name, f, list(self.assumptions), list(self.pc)))
        self.assumptions.append(f)

    def on_array_write(self, root, what):
        if root.prov:
            for p in sorted(root.prov):
                self.frame_events.append((p, what, list(self.pc), self.lineno, self.func))

    def on_attr_write(self, obj, name):
        pass

    # -- axioms for uninterpreted real functions, instantiated on use
    def _axiom(self, key, f):
        k = (key, f.sexpr() if is_z3(f) else str(f))
        if k in self._seen_axioms:
            return
        self._seen_axioms.add(k)
        if not isinstance(f, bool):
            self.assumptions.append(f)

    def note_sqrt(self, a, t):
        self.definedness(a >= 0, "sqrt argument non-negative")
        self._axiom("sqrt", z3.Implies(a >= 0, z3.And(t >= 0, t * t == a)))

    def note_pow(self, a, b, t):
        # positivity of powers of positive numbers (the only fact used unprompted)
        self._axiom("pow", z3.Implies(a > 0, t > 0))

    def note_exp(self, a, t):
        self._axiom("exp", t > 0)

    def _generic_vars(self):
        out = []
        sc = getattr(self, "generic", None)
        while sc is not None:
            out.insert(0, sc.space.k)
            sc = sc.parent
        return out

    def fresh_int(self, name):
        kv = self._generic_vars()
        if kv:      # inside a generic loop iteration a fresh value is a function of the iteration
            return z3.Function(fresh_name(name), *([z3.IntSort()] * len(kv) + [z3.IntSort()]))(*kv)
        return z3.Int(fresh_name(name))

    def fresh_real(self, name):
        kv = self._generic_vars()
        if kv:
            return z3.Function(fresh_name(name), *([z3.IntSort()] * len(kv) + [z3.RealSort()]))(*kv)
        return z3.Real(fresh_name(name))


# ----------------------------------------------------------------------------- interpreter

MAX_UNROLL = 400


class Interp:
    def __init__(self, ctx, summaries=None, inline_depth=12, loop_annotations=None):
        self.ctx = ctx
        self.summaries = summaries or {}
        self.depth = 0
        self.inline_depth = inline_depth
        self.loop_annotations = loop_annotations or {}
        self.functions_executed = {}    # (relpath, qualname) -> dropped list

    # ---- entry
    def call_repo(self, relpath, qualname, args=(), kwargs=None, self_obj=None):
        mod, fn = frontend.get_func(relpath, qualname)
        return self.call_function(mod, qualname, fn, list(args), dict(kwargs or {}), self_obj)

    def call_function(self, mod, qualname, fn, args, kwargs, self_obj=None):
        key = (mod.relpath, qualname)
        if key in self.summaries and self.depth > 0:
            self.ctx.summaries_used.add("%s:%s" % key)
            return self.summaries[key](self, args, kwargs)
        if self.depth >= self.inline_depth:
            raise Unsupported("call depth exceeded at %s" % qualname)
        self.functions_executed[key] = frontend.dropped(fn)
        env = self.bind_args(mod, fn, args, kwargs, self_obj)
        saved = (self.ctx.func, self.ctx.lineno)
        self.ctx.func = "%s:%s" % (mod.relpath, qualname)
        self.depth += 1
        try:
            frame = Frame(mod, qualname, env)
            try:
                self.exec_block(fn.body, frame)
                return None
            except ReturnEx as r:
                return r.value
        finally:
            self.depth -= 1
            self.ctx.func, self.ctx.lineno = saved

    def bind_args(self, mod, fn, args, kwargs, self_obj):
        a = fn.args
        if a.vararg or a.posonlyargs:
            raise Unsupported("*args / positional-only parameters")
        names = [x.arg for x in a.args]
        env = {}
        args = list(args)
        if self_obj is not None:
            args = [self_obj] + args
        if len(args) > len(names):
            raise DefinednessError("too many positional arguments for %s" % fn.name)
        for n, v in zip(names, args):
            env[n] = v
        defaults = a.defaults
        first_default = len(names) - len(defaults)
        for k, v in list(kwargs.items()):
            if k in names:
                if k in env:
                    raise DefinednessError("multiple values for %s" % k)
                env[k] = v
                del kwargs[k]
        if kwargs and not a.kwarg:
            raise DefinednessError("unexpected keyword arguments %s" % list(kwargs))
        frame0 = Frame(mod, fn.name, {})
        for i, n in enumerate(names):
            if n not in env:
                if i >= first_default:
                    env[n] = self.eval(defaults[i - first_default], frame0)
                else:
                    raise DefinednessError("missing argument %s of %s" % (n, fn.name))
        if a.kwarg:
            env[a.kwarg.arg] = dict(kwargs)
        return env

    # ---- statements
    def exec_block(self, stmts, fr):
        for s in stmts:
            self.exec_stmt(s, fr)

    def exec_stmt(self, s, fr):
        self.ctx.lineno = getattr(s, "lineno", self.ctx.lineno)
        m = getattr(self, "st_" + type(s).__name__, None)
        if m is None:
            raise Unsupported("statement %s at %s:%d" % (type(s).__name__, fr.mod.relpath, s.lineno))
        return m(s, fr)

    def st_Expr(self, s, fr):
        if isinstance(s.value, ast.Constant):
            return   # docstring
        if isinstance(s.value, ast.Call) and isinstance(s.value.func, ast.Name) and s.value.func.id == "print":
            return   # dropped: stdout only
        self.eval(s.value, fr)

    # context managers that only change how floating-point exceptions / warnings are REPORTED: no effect on values, the body is executed as is
    NOOP_CONTEXTS = ("numpy.errstate", "warnings.catch_warnings", "numpy.testing.suppress_warnings")

    def st_With(self, s, fr):
        for item in s.items:
            ce = item.context_expr
            name = None
            if isinstance(ce, ast.Call):
                parts, f = [], ce.func
                while isinstance(f, ast.Attribute):
                    parts.append(f.attr); f = f.value
                if isinstance(f, ast.Name):
                    parts.append(f.id)
                    head = frontend.resolve_name(fr.mod, f.id)
                    if head is not None and head[0] == "ext":
                        name = ".".join([head[1]] + list(reversed(parts[:-1])))
                    elif head is not None and head[0] == "module":
                        name = None
            if name is None:
                cand = ast.unparse(ce.func) if isinstance(ce, ast.Call) else ""
                # aliases used in the repository: np.errstate / numpy.errstate
                if cand.split(".")[-1] == "errstate" and cand.split(".")[0] in ("np", "numpy"):
                    name = "numpy.errstate"
            if name not in self.NOOP_CONTEXTS or item.optional_vars is not None:
                raise Unsupported("with-statement over %s at %s:%d" % (ast.unparse(ce)[:40], fr.mod.relpath, s.lineno))
        self.exec_block(s.body, fr)

    def st_Pass(self, s, fr):
        return

    def st_Import(self, s, fr):
        return

    def st_ImportFrom(self, s, fr):
        return

    def st_Return(self, s, fr):
        raise ReturnEx(self.eval(s.value, fr) if s.value is not None else None)

    def st_Break(self, s, fr):
        raise BreakEx()

    def st_Continue(self, s, fr):
        raise ContinueEx()

    def st_Raise(self, s, fr):
        raise RaiseEx(ast.unparse(s.exc) if s.exc else "re-raise", s.lineno)

    def st_Delete(self, s, fr):
        for t in s.targets:
            if isinstance(t, ast.Name):
                fr.env.pop(t.id, None)
            else:
                raise Unsupported("del of non-name")

    def st_Assert(self, s, fr):
        c = self.truth(self.eval(s.test, fr))
        self.ctx.definedness(c, "assert")

    def st_Assign(self, s, fr):
        v = self.eval(s.value, fr)
        for t in s.targets:
            self.assign(t, v, fr)

    def st_AnnAssign(self, s, fr):
        if s.value is not None:
            self.assign(s.target, self.eval(s.value, fr), fr)

    def assign(self, t, v, fr):
        if isinstance(t, ast.Name):
            fr.env[t.id] = v
        elif isinstance(t, (ast.Tuple, ast.List)):
            items = self.unpack(v, len(t.elts))
            for tt, vv in zip(t.elts, items):
                self.assign(tt, vv, fr)
        elif isinstance(t, ast.Subscript):
            base = self.eval(t.value, fr)
            key = self.eval_index(t.slice, fr)
            self.setitem(base, key, v)
        elif isinstance(t, ast.Attribute):
            o = self.eval(t.value, fr)
            self.setattr(o, t.attr, v)
        else:
            raise Unsupported("assignment target %s" % type(t).__name__)

    def setattr(self, o, name, v):
        if hasattr(o, "__aovc_setattr__") and o.__aovc_setattr__(self, name, v):
            return
        if isinstance(o, Obj):
            o.attrs[name] = v
            o.attr_writes.append((name, self.ctx.lineno))
            self.ctx.on_attr_write(o, name)
            return
        if isinstance(o, Arr) and name == "shape":
            from . import npmodel
            newshape = [x for x in self.unpack(v, None)]
            tmp = npmodel.reshape(self, o, newshape)
            # in-place reshape: the array object itself changes shape
            self.ctx.on_array_write(o.rootarr(), "shape assignment")
            o.shape, o.root, o.tob, o.fromb, o._f = tmp.shape, tmp.root, tmp.tob, tmp.fromb, tmp._f
            return
        raise Unsupported("attribute store on %s" % type(o).__name__)

    def unpack(self, v, n):
        if isinstance(v, (tuple, list)):
            items = list(v)
        elif isinstance(v, Arr):
            d0 = v.shape[0]
            if not is_conc(d0):
                raise Unsupported("unpacking array with symbolic first dimension")
            from . import npmodel
            items = [npmodel.getitem(self, v, (k,)) for k in range(int(d0))]
        else:
            raise Unsupported("cannot unpack %s" % type(v).__name__)
        if n is not None and len(items) != n:
            self.ctx.definedness(False, "unpack %d values into %d targets" % (len(items), n))
            raise DefinednessError("unpack arity")
        return items

    def st_AugAssign(self, s, fr):
        from . import npmodel
        t = s.target
        opname = type(s.op).__name__
        rhs = self.eval(s.value, fr)
        scope = getattr(self.ctx, "generic", None)
        if scope is not None and isinstance(t, ast.Name):
            from . import loopsum
            sc = scope
            while sc is not None:
                if t.id in getattr(sc, "acc_names", ()) and opname in ("Add", "Sub"):
                    sc.scalar_acc[t.id].append((rhs, scope.guard(), -1 if opname == "Sub" else 1))
                    return
                if t.id in getattr(sc, "counter_incr", {}) and opname == "Add" and is_conc(rhs):
                    sc.counter_incr[t.id].append((rhs, scope.guard()))
                    fr.env[t.id] = self.binop("Add", self.lookup(t.id, fr), rhs)
                    return
                sc = sc.parent
            cur0 = fr.env.get(t.id)
            if isinstance(cur0, Arr) and scope.is_outer(cur0.rootarr()):
                if opname in ("Add", "Sub"):
                    loopsum.accumulate(self, cur0, rhs, -1 if opname == "Sub" else 1, "in-place %s on %s" % (opname, t.id))
                    return
                raise Unsupported("in-place %s on an array inside a loop summary" % opname)
        if scope is not None and isinstance(t, ast.Subscript) and opname in ("Add", "Sub"):
            from . import loopsum, npmodel as _np
            base0 = self.eval(t.value, fr)
            if isinstance(base0, Arr) and scope.is_outer(base0.rootarr()):
                key0 = self.eval_index(t.slice, fr)
                tgt = _np.getitem_view(self, base0, key0 if isinstance(key0, tuple) else (key0,))
                loopsum.accumulate(self, tgt, rhs, -1 if opname == "Sub" else 1, "item %s" % opname)
                return
        if isinstance(t, ast.Name):
            cur = self.lookup(t.id, fr)
            if isinstance(cur, Arr):
                # in-place on the array object (x -= a): writes through to the root
                res = self.binop(opname, cur, rhs)
                if not isinstance(res, Arr):
                    raise Unsupported("in-place op result is not an array")
                npmodel.check_same_shape(self, cur, res, "in-place operation cannot change the shape")
                snap = res.snapshot()
                cur.write(lambda idx: True, snap, self.ctx, "in-place %s on %s" % (opname, t.id))
                return
            if isinstance(cur, list) and opname == "Add":
                cur.extend(list(rhs))
                return
            if hasattr(cur, "__aovc_inplace__"):
                fr.env[t.id] = cur.__aovc_inplace__(self, opname, rhs, t.id)
                return
            fr.env[t.id] = self.binop(opname, cur, rhs)
        elif isinstance(t, ast.Subscript):
            base = self.eval(t.value, fr)
            key = self.eval_index(t.slice, fr)
            cur = self.getitem(base, key)
            if isinstance(cur, Arr):
                cur = cur.frozen()
            self.setitem(base, key, self.binop(opname, cur, rhs))
        elif isinstance(t, ast.Attribute):
            o = self.eval(t.value, fr)
            cur = self.getattr(o, t.attr)
            if isinstance(cur, Arr):
                res = self.binop(opname, cur, rhs)
                snap = res.snapshot()
                cur.write(lambda idx: True, snap, self.ctx, "in-place %s on attribute %s" % (opname, t.attr))
                return
            self.setattr(o, t.attr, self.binop(opname, cur, rhs))
        else:
            raise Unsupported("augmented assignment target")

    def st_If(self, s, fr):
        if getattr(self.ctx, "generic", None) is not None:
            from . import loopsum
            return loopsum.generic_if(self, s, fr)
        c = self.truth(self.eval(s.test, fr))
        if self.ctx.branch(c):
            self.exec_block(s.body, fr)
        else:
            self.exec_block(s.orelse, fr)

    def st_Try(self, s, fr):
        # supported: try: <body> except (TypeError|IndexError|ZeroDivisionError|linalg.LinAlgError...): <handler>
        if s.finalbody or s.orelse:
            raise Unsupported("try/finally/else")
        handled = []
        for h in s.handlers:
            handled.append(ast.unparse(h.type) if h.type is not None else "*")
        snapshot = dict(fr.env)
        try:
            self.in_try = getattr(self, "in_try", 0) + 1
            try:
                self.exec_block(s.body, fr)
            finally:
                self.in_try -= 1
        except PyException as e:
            for h, names in zip(s.handlers, handled):
                if names == "*" or e.kind in names:
                    fr.env.clear(); fr.env.update(snapshot)
                    self.exec_block(h.body, fr)
                    return
            raise

    def st_While(self, s, fr):
        from . import loops
        return loops.exec_while(self, s, fr)

    def st_For(self, s, fr):
        from . import loops
        return loops.exec_for(self, s, fr)

    # ---- expressions
    def truth(self, v):
        if isinstance(v, bool):
            return v
        if v is None:
            return False
        if is_z3(v):
            if z3.is_bool(v):
                return v
            return v != 0
        if isinstance(v, (int, Fraction)):
            return v != 0
        if isinstance(v, (list, tuple, dict, str)):
            return len(v) > 0
        if isinstance(v, (Obj, ExtRef, RepoFunc, RepoMod)):
            return True
        if isinstance(v, Arr):
            raise Unsupported("truth value of an array")
        raise Unsupported("truth value of %s" % type(v).__name__)

    def eval(self, e, fr):
        m = getattr(self, "ex_" + type(e).__name__, None)
        if m is None:
            raise Unsupported("expression %s at %s:%d" % (type(e).__name__, fr.mod.relpath, getattr(e, "lineno", 0)))
        return m(e, fr)

    def ex_Constant(self, e, fr):
        v = e.value
        if isinstance(v, (str, type(None), type(Ellipsis))):
            return v
        ov = getattr(self, "literal_overrides", None)
        if ov and isinstance(v, float) and repr(v) in ov:
            # a declared regularisation constant taken in its limit (assumption recorded by the contract)
            self.ctx.notes.append("literal %r at %s:%d taken as %r (declared regularisation, limit)" % (v, fr.mod.relpath, e.lineno, ov[repr(v)]))
            return lit(ov[repr(v)])
        return lit(v)

    def ex_Name(self, e, fr):
        return self.lookup(e.id, fr)

    def lookup(self, name, fr):
        if name in fr.env:
            v = fr.env[name]
            if type(v).__name__ == "Poison":
                raise Unsupported(v.why)
            return v
        r = frontend.resolve_name(fr.mod, name)
        if r is not None:
            return self.from_resolution(r, fr)
        if name in BUILTINS:
            return Builtin(name)
        if name in ("True", "False", "None"):
            return {"True": True, "False": False, "None": None}[name]
        import builtins
        if hasattr(builtins, name):
            raise Unsupported("builtin %s is not modelled" % name)
        # NameError at run time
        raise PyException("NameError", "name %r is not defined" % name)

    def from_resolution(self, r, fr):
        kind = r[0]
        if kind == "func":
            return RepoFunc(r[1], r[2])
        if kind == "class":
            return RepoClass(r[1], r[2])
        if kind == "module":
            return RepoMod(r[1])
        if kind == "ext":
            return ExtRef(r[1])
        if kind == "const":
            return self.eval(r[2], Frame(r[1], "<module>", {}))
        raise Unsupported("resolution %s" % (r,))

    def ex_Attribute(self, e, fr):
        if e.attr == "dtype" and isinstance(e.value, ast.Call) and isinstance(e.value.func, ast.Attribute) and e.value.func.attr in ("sum", "prod") \
                and not e.value.args and not e.value.keywords:
            # <array>.sum().dtype: the accumulator type NumPy chooses for the array's dtype (booleans and integers -> platform integer);
            # a scalar of the value model does not carry its NumPy type, the array does
            recv = self.eval(e.value.func.value, fr)
            if isinstance(recv, Arr):
                return DType({"float": "float64", "int": "int64", "bool": "int64", "complex": "complex128"}[recv.dtype])
        o = self.eval(e.value, fr)
        return self.getattr(o, e.attr)

    def getattr(self, o, name):
        from . import npmodel
        if isinstance(o, ExtRef):
            return npmodel.ext_attr(self, o, name)
        if isinstance(o, RepoMod):
            r = frontend.resolve_name(o.mod, name)
            if r is None and o.mod.relpath.endswith("__init__.py"):
                # a submodule imported anywhere in the package is an attribute of the package
                rp = frontend.dotted_to_relpath(o.mod.dotted() + "." + name)
                if rp is not None and any((m_ == name) for (m_, lvl) in o.mod.star_imports) or (rp is not None and name in [v[1] if v[0] == "from" and v[2] == name else None for v in o.mod.imports.values()]):
                    r = ("module", frontend.load(rp))
            if r is None:
                raise PyException("AttributeError", "module %s has no attribute %s" % (o.mod.relpath, name))
            return self.from_resolution(r, None)
        if isinstance(o, Obj):
            if name in o.attrs:
                return o.attrs[name]
            if o.cls is not None:
                m = find_method(o.cls, name)
                if m is not None:
                    mod, qual, fn = m
                    if any(isinstance(d, ast.Name) and d.id == "property" for d in fn.decorator_list):
                        return self.call_function(mod, qual, fn, [], {}, o)
                    return RepoFunc(mod, qual, bound_self=o)
                ca = find_class_attr(o.cls, name)
                if ca is not None:
                    mod, node = ca
                    if isinstance(node, (ast.List, ast.Dict, ast.Set, ast.ListComp, ast.DictComp, ast.SetComp, ast.Call)):
                        raise Unsupported("class-level mutable attribute %s (one object shared by all instances) is not modelled" % name)
                    return self.eval(node, Frame(mod, "<class>", {}))
            if getattr(o, "complete", False):
                raise PyException("AttributeError", "object has no attribute %s" % name)
            # the object was set up by a contract (representation invariant), not by running the constructor: an attribute the
            # contract does not know is outside the model, not an error of the code
            raise Unsupported("attribute %s is not part of the contract's object model" % name)
        if isinstance(o, Arr):
            return npmodel.arr_attr(self, o, name)
        if is_scalar(o):
            if name == "real":
                return s_real(o)
            if name == "imag":
                return s_imag(o)
            if name == "dtype":
                return DType({"float": "float64", "int": "int64", "complex": "complex128", "bool": "bool"}[npmodel.elem_dtype(o)])
            return BoundMethod(o, name)
        if isinstance(o, (list, dict, str, tuple)):
            return BoundMethod(o, name)
        if hasattr(o, "__aovc_attr__"):
            return o.__aovc_attr__(self, name)
        raise Unsupported("attribute %s of %s" % (name, type(o).__name__))

    def ex_Tuple(self, e, fr):
        return tuple(self.eval_seq(e.elts, fr))

    def ex_List(self, e, fr):
        return list(self.eval_seq(e.elts, fr))

    def eval_seq(self, elts, fr):
        out = []
        for x in elts:
            if isinstance(x, ast.Starred):
                out.extend(list(self.eval(x.value, fr)))
            else:
                out.append(self.eval(x, fr))
        return out

    def ex_Dict(self, e, fr):
        return {self.eval(k, fr): self.eval(v, fr) for k, v in zip(e.keys, e.values)}

    def ex_IfExp(self, e, fr):
        c = self.truth(self.eval(e.test, fr))
        if self.ctx.branch(c):
            return self.eval(e.body, fr)
        return self.eval(e.orelse, fr)

    def ex_ListComp(self, e, fr):
        if len(e.generators) != 1 or e.generators[0].ifs:
            raise Unsupported("list comprehension with conditions / several generators")
        g = e.generators[0]
        it = self.eval(g.iter, fr)
        items = self.concrete_iter(it)
        out = []
        sub = Frame(fr.mod, fr.qualname, dict(fr.env))
        for x in items:
            self.assign(g.target, x, sub)
            out.append(self.eval(e.elt, sub))
        return out

    def concrete_iter(self, it):
        if isinstance(it, (list, tuple)):
            return list(it)
        if isinstance(it, range):
            return list(it)
        if isinstance(it, SymRange):
            raise Unsupported("comprehension over a symbolic range")
        if isinstance(it, Arr):
            return self.unpack(it, None)
        raise Unsupported("iteration over %s" % type(it).__name__)

    def ex_UnaryOp(self, e, fr):
        v = self.eval(e.operand, fr)
        op = type(e.op).__name__
        return self.unop(op, v)

    def unop(self, op, v):
        from . import npmodel
        if hasattr(v, "__aovc_unop__"):
            return v.__aovc_unop__(self, op)
        if isinstance(v, Arr):
            return npmodel.map1(self, v, lambda x: self.unop(op, x))
        if op == "USub":
            return s_neg(v)
        if op == "UAdd":
            return v
        if op == "Not":
            return b_not(self.truth(v))
        if op == "Invert":
            if is_bool(v):
                return b_not(v)
        raise Unsupported("unary %s" % op)

    def ex_BoolOp(self, e, fr):
        # short-circuit semantics on concrete values, conjunction/disjunction on symbolic booleans
        vals = []
        for x in e.values:
            v = self.eval(x, fr)
            t = self.truth(v)
            if isinstance(e.op, ast.And):
                if t is False:
                    return v if not isinstance(v, bool) else False
            else:
                if t is True:
                    return v if not isinstance(v, bool) else True
            vals.append((v, t))
        if all(isinstance(t, bool) for _, t in vals):
            return vals[-1][0]
        ts = [t for _, t in vals]
        return b_and(*ts) if isinstance(e.op, ast.And) else b_or(*ts)

    def ex_Compare(self, e, fr):
        left = self.eval(e.left, fr)
        res = True
        for op, right_e in zip(e.ops, e.comparators):
            right = self.eval(right_e, fr)
            c = self.compare(type(op).__name__, left, right)
            res = c if res is True else self.binop("BitAnd", res, c)
            left = right
        return res

    def compare(self, op, a, b):
        from . import npmodel
        sym = {"Lt": "<", "LtE": "<=", "Gt": ">", "GtE": ">=", "Eq": "==", "NotEq": "!="}
        if op in ("Is", "IsNot"):
            same = (a is b) or (a is None and b is None) or (isinstance(a, bool) and isinstance(b, bool) and a == b)
            if (is_z3(a) and is_z3(b)):
                raise Unsupported("identity comparison of symbolic values")
            return same if op == "Is" else not same
        if op in ("In", "NotIn"):
            if isinstance(b, (dict, list, tuple, str)) and (isinstance(a, str) or is_conc(a)):
                r = a in b
                return r if op == "In" else not r
            raise Unsupported("membership test on symbolic values")
        if isinstance(a, Arr) or isinstance(b, Arr):
            return npmodel.map2(self, a, b, lambda x, y: self.compare(op, x, y), dtype="bool")
        if isinstance(a, str) or isinstance(b, str) or a is None or b is None:
            if op == "Eq":
                return type(a) == type(b) and a == b
            if op == "NotEq":
                return not (type(a) == type(b) and a == b)
            raise Unsupported("ordering of str/None")
        if isinstance(a, (tuple, list)) and isinstance(b, (tuple, list)):
            if op in ("Eq", "NotEq"):
                if len(a) != len(b):
                    return op == "NotEq"
                r = b_and(*[self.compare("Eq", x, y) for x, y in zip(a, b)])
                return r if op == "Eq" else b_not(r)
        if isinstance(a, (Cx, Polar)) or isinstance(b, (Cx, Polar)):
            if op == "Eq":
                return s_eq(a, b)
            if op == "NotEq":
                return b_not(s_eq(a, b))
            raise Unsupported("ordering of complex")
        if isinstance(a, (ExtRef,)) or isinstance(b, (ExtRef,)):
            # dtype tokens
            if isinstance(a, ExtRef) and isinstance(b, ExtRef) and op in ("Eq", "NotEq"):
                return (a.dotted == b.dotted) == (op == "Eq")
        if isinstance(a, DType) or isinstance(b, DType):
            from .npmodel import exact_dtype
            r = exact_dtype(a) == exact_dtype(b)
            return r if op == "Eq" else not r
        return cmp(sym[op], a, b)

    def ex_BinOp(self, e, fr):
        a = self.eval(e.left, fr)
        b = self.eval(e.right, fr)
        return self.binop(type(e.op).__name__, a, b)

    def binop(self, op, a, b):
        from . import npmodel
        if hasattr(a, "__aovc_binop__"):
            r = a.__aovc_binop__(self, op, b, False)
            if r is not NotImplemented:
                return r
        if hasattr(b, "__aovc_binop__"):
            r = b.__aovc_binop__(self, op, a, True)
            if r is not NotImplemented:
                return r
        if isinstance(a, Arr) or isinstance(b, Arr):
            return npmodel.map2(self, a, b, lambda x, y: self.binop(op, x, y))
        if isinstance(a, (list, tuple)) and isinstance(b, (list, tuple)) and op == "Add":
            return type(a)(list(a) + list(b))
        if isinstance(a, list) and op == "Mult" and is_conc(b):
            return a * int(b)
        if isinstance(a, list) and op == "Mult" and is_z3(b):
            return SymList(b, a)
        if isinstance(a, str) and op in ("Add", "Mod"):
            return "<str>"
        if isinstance(a, list) or isinstance(b, list) or isinstance(a, tuple) or isinstance(b, tuple):
            # numpy coerces sequences in arithmetic with arrays only; plain python would raise
            raise Unsupported("arithmetic on python sequences")
        if not (is_scalar(a) and is_scalar(b)):
            raise Unsupported("binary %s on %s, %s" % (op, type(a).__name__, type(b).__name__))
        c = self.ctx
        if op == "Add":
            return s_add(a, b, c)
        if op == "Sub":
            return s_sub(a, b, c)
        if op == "Mult":
            return s_mul(a, b, c)
        if op == "Div":
            if getattr(self, "in_try", 0) > 0 and is_z3(b) and z3.is_arith(b) and not getattr(self, "numpy_scalars", False):
                # inside try: a zero divisor raises ZeroDivisionError (python float semantics)
                if self.ctx.branch(b == 0):
                    raise PyException("ZeroDivisionError", "division by zero")
            return s_div(a, b, c)
        if op == "Pow":
            return s_pow(a, b, c)
        if op == "FloorDiv":
            return self.floordiv(a, b)
        if op == "Mod":
            return self.mod(a, b)
        if op in ("BitAnd", "BitOr"):
            if is_bool(a) and is_bool(b):
                return b_and(a, b) if op == "BitAnd" else b_or(a, b)
        raise Unsupported("binary operator %s" % op)

    def floordiv(self, a, b):
        if is_conc(a) and is_conc(b):
            if _num(b) == 0:
                raise DefinednessError("floor division by zero")
            fa, fb = Fraction(_num(a)), Fraction(_num(b))
            q = (fa / fb)
            r = q.numerator // q.denominator
            return r
        if is_int_valued(a) and is_int_valued(b):
            A, B = zi(a), zi(b)
            if is_conc(b) and _num(b) > 0:
                return A / B          # z3 Int division = floor for positive divisor
            self.ctx.definedness(cmp(">", b, 0), "floor division: positive divisor (modelled case)")
            return A / B
        q = r_div(a, b, self.ctx)
        return r_floor(q)

    def mod(self, a, b):
        if is_conc(a) and is_conc(b):
            if _num(b) == 0:
                raise DefinednessError("modulo by zero")
            fa, fb = Fraction(_num(a)), Fraction(_num(b))
            q = fa / fb
            fl = q.numerator // q.denominator
            r = fa - fl * fb
            return r.numerator if r.denominator == 1 else r
        if is_int_valued(a) and is_int_valued(b):
            if not (is_conc(b) and _num(b) > 0):
                self.ctx.definedness(cmp(">", b, 0), "modulo: positive divisor (modelled case)")
            return zi(a) % zi(b)
        # real modulo (python / numpy semantics for a positive modulus): a - b*floor(a/b)
        if not (is_conc(b) and _num(b) > 0):
            self.ctx.definedness(cmp(">", b, 0), "modulo: positive modulus (modelled case)")
        q = r_div(a, b, self.ctx)
        return r_sub(a, r_mul(b, r_floor(q)))

    def ex_Subscript(self, e, fr):
        base = self.eval(e.value, fr)
        key = self.eval_index(e.slice, fr)
        return self.getitem(base, key)

    def eval_index(self, sl, fr):
        if isinstance(sl, ast.Tuple):
            return tuple(self.eval_index(x, fr) for x in sl.elts)
        if isinstance(sl, ast.Slice):
            return slice(self.eval(sl.lower, fr) if sl.lower is not None else None,
                         self.eval(sl.upper, fr) if sl.upper is not None else None,
                         self.eval(sl.step, fr) if sl.step is not None else None)
        return self.eval(sl, fr)

    def getitem(self, base, key):
        from . import npmodel
        if hasattr(base, "__aovc_getitem__"):
            return base.__aovc_getitem__(self, key)
        if isinstance(base, Arr):
            return npmodel.getitem(self, base, key if isinstance(key, tuple) else (key,))
        if isinstance(base, dict):
            if isinstance(key, str) or is_conc(key):
                if key in base:
                    return base[key]
                raise PyException("KeyError", repr(key))
            raise Unsupported("dict lookup with symbolic key")
        if isinstance(base, (list, tuple)):
            if isinstance(key, slice):
                if all(k is None or is_conc(k) for k in (key.start, key.stop, key.step)):
                    return base[slice(*(None if k is None else int(k) for k in (key.start, key.stop, key.step)))]
                raise Unsupported("symbolic slice of python sequence")
            if is_conc(key):
                k = int(key)
                if -len(base) <= k < len(base):
                    return base[k]
                raise PyException("IndexError", "sequence index out of range")
            if is_z3(key):
                # symbolic index into a concrete-length sequence of scalars: ite chain
                self.ctx.definedness(b_and(cmp(">=", key, 0), cmp("<", key, len(base))), "sequence index in range")
                if all(is_scalar(x) for x in base) and len(base) > 0:
                    r = base[-1]
                    for k in range(len(base) - 2, -1, -1):
                        r = ite(cmp("==", key, k), base[k], r)
                    return r
            raise Unsupported("sequence subscript %r" % (key,))
        if is_scalar(base):
            # indexing a python scalar raises TypeError (int) / IndexError (numpy scalar)
            raise PyException("TypeError", "scalar is not subscriptable")
        if isinstance(base, str):
            raise Unsupported("string indexing")
        raise Unsupported("subscript on %s" % type(base).__name__)

    def setitem(self, base, key, v):
        from . import npmodel
        if hasattr(base, "__aovc_setitem__"):
            return base.__aovc_setitem__(self, key, v)
        if isinstance(base, Arr):
            return npmodel.setitem(self, base, key if isinstance(key, tuple) else (key,), v)
        if isinstance(base, list):
            if is_conc(key):
                base[int(key)] = v
                return
        if isinstance(base, dict) and (isinstance(key, str) or is_conc(key)):
            base[key] = v
            return
        raise Unsupported("item store on %s" % type(base).__name__)

    def ex_Call(self, e, fr):
        from . import npmodel
        f = self.eval(e.func, fr)
        args = []
        for a in e.args:
            if isinstance(a, ast.Starred):
                args.extend(list(self.eval(a.value, fr)))
            else:
                args.append(self.eval(a, fr))
        kwargs = {}
        for k in e.keywords:
            if k.arg is None:
                kwargs.update(self.eval(k.value, fr))
            else:
                kwargs[k.arg] = self.eval(k.value, fr)
        return self.call(f, args, kwargs)

    def call(self, f, args, kwargs):
        from . import npmodel
        if isinstance(f, RepoFunc):
            mod = f.mod
            fn = mod.funcs[f.qualname]
            return self.call_function(mod, f.qualname, fn, args, kwargs, f.bound_self)
        if isinstance(f, RepoClass):
            o = Obj(f)
            init = find_method(f, "__init__")
            if init is not None:
                mod, qual, fn = init
                self.call_function(mod, qual, fn, args, kwargs, o)
            o.complete = True
            return o
        if isinstance(f, ExtRef):
            return npmodel.call_ext(self, f.dotted, args, kwargs)
        if isinstance(f, Builtin):
            return npmodel.call_builtin(self, f.name, args, kwargs)
        if isinstance(f, BoundMethod):
            return npmodel.call_method(self, f.recv, f.name, args, kwargs)
        if isinstance(f, DType):
            return npmodel.call_ext(self, "numpy." + f.name, args, kwargs)
        if hasattr(f, "__aovc_call__"):
            return f.__aovc_call__(self, args, kwargs)
        raise Unsupported("call of %s" % type(f).__name__)


class PyException(Exception):
    """a Python exception the real code would raise here (TypeError, IndexError, ZeroDivisionError ...)"""
    def __init__(self, kind, msg=""):
        Exception.__init__(self, "%s: %s" % (kind, msg))
        self.kind = kind
        self.msg = msg


class DType:
    def __init__(self, name):
        self.name = name

    def __repr__(self):
        return "dtype(%s)" % self.name


class SymList:
    """[x]*n with symbolic n (only as operand of numpy functions)"""
    def __init__(self, n, items):
        self.n = n
        self.items = items


class Frame:
    def __init__(self, mod, qualname, env):
        self.mod = mod
        self.qualname = qualname
        self.env = env


BUILTINS = {"range", "len", "int", "float", "abs", "round", "enumerate", "zip", "min", "max", "sum", "str", "bool",
            "isinstance", "type", "list", "tuple", "print", "complex", "reversed", "sorted", "any", "all", "divmod", "slice",
            "ValueError", "TypeError", "IndexError", "ZeroDivisionError", "Exception", "NotImplementedError", "object"}


def find_class_attr(cls, name):
    """(module, value node) of a class-level assignment `name = ...` on RepoClass or its same-module bases"""
    mod = cls.mod
    seen, stack = set(), [cls.name]
    while stack:
        c = stack.pop(0)
        if c in seen or c not in mod.classes:
            continue
        seen.add(c)
        for st in mod.classes[c].body:
            if isinstance(st, ast.Assign) and any(isinstance(t, ast.Name) and t.id == name for t in st.targets):
                return mod, st.value
            if isinstance(st, ast.AnnAssign) and isinstance(st.target, ast.Name) and st.target.id == name and st.value is not None:
                return mod, st.value
        for b in mod.classes[c].bases:
            if isinstance(b, ast.Name):
                stack.append(b.id)
    return None


def find_method(cls, name):
    """(module, qualname, fn) of method `name` on RepoClass, following base classes in the same module"""
    mod = cls.mod
    seen = set()
    stack = [cls.name]
    while stack:
        c = stack.pop(0)
        if c in seen or c not in mod.classes:
            continue
        seen.add(c)
        q = c + "." + name
        if q in mod.funcs:
            return mod, q, mod.funcs[q]
        for b in mod.classes[c].bases:
            if isinstance(b, ast.Name):
                stack.append(b.id)
    return None


# ----------------------------------------------------------------------------- path exploration

class PathResult:
    def __init__(self, ctx, interp, value=None, raised=None, pyexc=None, unsupported=None):
        self.ctx = ctx
        self.interp = interp
        self.value = value
        self.raised = raised
        self.pyexc = pyexc
        self.unsupported = unsupported


def explore(run, max_paths=64, timeout_ms=2000, holders=(), **interp_kw):
    """run(interp) -> value, executed once per feasible path.  Returns list of PathResult.
    `holders`: dicts the contract's run() fills as a side effect; their content at the end of EACH path is kept with that path
    (PathResult.holder_snapshots), so that a postcondition never sees the values of another path."""
    results = []
    stack = [[]]
    while stack:
        dec = stack.pop()
        if len(results) >= max_paths:
            raise Unsupported("more than %d paths" % max_paths)
        ctx = Ctx(dec, timeout_ms=timeout_ms)
        it = Interp(ctx, **interp_kw)
        pr = PathResult(ctx, it)
        try:
            pr.value = run(it)
        except RaiseEx as r:
            pr.raised = r
        except PyException as e:
            pr.pyexc = e
        except DefinednessError as e:
            pr.pyexc = PyException("Definedness", str(e))
        except PathInfeasible:
            pr = None
        if pr is not None:
            pr.holder_snapshots = [dict(h) for h in holders]
            results.append(pr)
        for h in holders:
            pass
        for k in range(len(dec), len(ctx.taken)):
            if ctx.taken[k].forked:
                stack.append([t.value for t in ctx.taken[:k]] + [False])
    return results
