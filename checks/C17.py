"""C17 Atmospheric and photometric conversions are mutually inverse and scale right."""
import sys, os
sys.path.insert(0, os.path.dirname(os.path.dirname(os.path.abspath(__file__))))
from aovc.check import run_check
from contracts import atmos


def build(chk):
    chk.assumptions_used.update(["A-REAL", "A-NP"])
    atmos.obligations(chk)
    chk.notes.append("ndarray.sum of the pupil mask and ndarray.var of the slopes are abstracted to positive reals (stubs in contracts/atmos.py)")


if __name__ == "__main__":
    sys.exit(run_check("C17", "Atmospheric and photometric conversions are mutually inverse and scale right", build))
