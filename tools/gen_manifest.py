#!/usr/bin/env python3
"""Regenerate MANIFEST.json from tools/manifest_data.py (claimed checks) and properties.jsonl (not_applicable for the rest)."""
import json, os, sys
VERIF = os.path.dirname(os.path.dirname(os.path.abspath(__file__)))
sys.path.insert(0, os.path.join(VERIF, "tools"))
import manifest_data as md
props = [json.loads(l) for l in open(os.path.join(VERIF, "properties.jsonl"))]
checks = []
for p in props:
    if p["id"] in md.CLAIMED:
        c = md.CLAIMED[p["id"]]
        checks.append({
            "property_id": p["id"],
            "quick_cmd": "./check %s --tier quick" % p["id"],
            "thorough_cmd": "./check %s --tier thorough" % p["id"],
            "evidence_file": "evidence/%s.json" % p["id"],
            "replay_cmd_template": "./check %s --replay {path}" % p["id"],
            "engine": "aovc",
            "level_claimed": {"category": "proof", "text": c["text"], "design_ref": c.get("design_ref", "DESIGN.md section 7 " + p["id"])},
            "level_note": c["note"],
            "technique": c["technique"],
        })
na = [{"property_id": p["id"], "reason": md.NOT_APPLICABLE.get(p["id"], "check not built yet in this round (no contract registered); see DESIGN.md section 7 for the plan")} for p in props if p["id"] not in md.CLAIMED]
m = {
    "version": 1,
    "setup_cmd": "python3-vt -m compileall -q aovc contracts checks native tools",
    "hooks": {"guard": "AOTOOLS_VERIF", "enable": "none needed: contracts are side-car files under /verif/contracts and the real source is read, never instrumented",
              "baseline_off_cmd": "cd /repo && /venv/bin/python -m pytest -ra -q -p no:cacheprovider --timeout=900 --continue-on-collection-errors",
              "source_commits": [], "add_only": True},
    "engines": [{"name": "aovc", "path": "aovc/", "serves_properties": sorted(md.CLAIMED),
                 "kind_free_text": "verification-condition generator written for this task: symbolic execution of the real AOtools source (ast) against side-car contracts, obligations discharged by z3 5.1 (cvc5 on unknown); native replay of counter-models on the real code"}],
    "checks": checks,
    "notes": md.NOTES,
    "not_applicable": na,
}
json.dump(m, open(os.path.join(VERIF, "MANIFEST.json"), "w"), indent=1)
print("claimed", len(checks), "not_applicable", len(na))
