"""Contracts for aotools/functions/karhunenLoeve.py (property C13): the grid / geometry / azimuthal / piston-filter functions deductively,
the eigen-decomposition (gkl_fcom) and the Cartesian resampling by bounded native stand-ins."""
import z3
from aovc.check import num
from aovc.contract import verify, under
from aovc.values import zr, zi, UF, PI, PI_AXIOMS
from aovc.arrays import sym_arr, Arr
from aovc import npmodel

KL = "aotools/functions/karhunenLoeve.py"


def obligations(chk):
    nr, npp, ncp, nord = z3.Ints("nr npp ncp nord")
    ri = z3.Real("ri")
    p, q, k = z3.Ints("p q k")
    SQ = UF("sqrt")

    # ---- equal-area radial grid
    def run_r(it):
        it.ctx.assume(z3.And(nr >= 1, ri > 0, ri < 1))
        return it.call_repo(KL, "gkl_radii", [ri, nr])

    def post_r(pr):
        r = pr.value
        ok = isinstance(r, Arr) and r.ndim == 1
        goals = [("returns 1-d", z3.BoolVal(ok))]
        if ok:
            goals.append(("nr radii", zi(r.shape[0]) == nr))
            with under(pr, z3.And(k >= 0, k < nr)):
                rk = zr(r.get([k]))
            goals.append(("r_k^2 = ri^2 + (k + 1/16)(1 - ri^2)/nr  (equal-area rings)", z3.Implies(z3.And(k >= 0, k < nr), rk == SQ(ri * ri + (z3.ToReal(k) + z3.RealVal("1/16")) * (1 - ri * ri) / z3.ToReal(nr)))))
        return goals
    verify(chk, "gkl_radii", KL + ":gkl_radii", run_r, post_r, clause="grid", replay=lambda m: {}, encoding="pointwise")

    # ---- piston filter matrix (column formula)
    def run_p(it):
        it.ctx.assume(nr >= 1)
        return it.call_repo(KL, "piston_orth", [nr])

    def post_p(pr):
        s = pr.value
        ok = isinstance(s, Arr) and s.ndim == 2
        goals = [("returns nr x nr", z3.BoolVal(ok))]
        if ok:
            goals.append(("shape", z3.And(zi(s.shape[0]) == nr, zi(s.shape[1]) == nr)))
            inb = z3.And(p >= 0, p < nr, q >= 0, q < nr)
            with under(pr, inb):
                v = zr(s.get([p, q]))
            rnm = 1 / SQ(z3.ToReal((q + 1) * (q + 2)))
            goals.append(("last column is the constant 1/sqrt(nr) (piston)", z3.Implies(z3.And(inb, q == nr - 1), v == 1 / SQ(z3.ToReal(nr)))))
            goals.append(("column j < nr-1: 1/sqrt((j+1)(j+2)) on rows <= j", z3.Implies(z3.And(inb, q < nr - 1, p <= q), v == rnm)))
            goals.append(("column j < nr-1: -(j+1)/sqrt((j+1)(j+2)) on row j+1", z3.Implies(z3.And(inb, q < nr - 1, p == q + 1), v == -z3.ToReal(q + 1) * rnm)))
            goals.append(("column j < nr-1: 0 below row j+1", z3.Implies(z3.And(inb, q < nr - 1, p > q + 1), v == 0)))
            # each non-piston column sums to zero: (j+1)*rnm - (j+1)*rnm = 0  -> orthogonal to the constant column (piston-free), as a lemma over the column formula
            goals.append(("lemma: column j < nr-1 sums to zero [(j+1) entries rnm and one entry -(j+1) rnm]", z3.ToReal(q + 1) * rnm + (-z3.ToReal(q + 1) * rnm) == 0))
        return goals
    verify(chk, "piston_orth", KL + ":piston_orth", run_p, post_p, clause="piston", replay=lambda m: {"nr": num(m.eval(nr, model_completion=True))}, encoding="loop-summary S2 (two stores per iteration)")

    # ---- azimuthal functions: 1, cos(k theta), sin(k theta) paired by order
    def run_a(it):
        for a in PI_AXIOMS:
            it.ctx.assume(a)
        it.ctx.assume(z3.And(nord >= 1, npp >= 1))
        return it.call_repo(KL, "gkl_azimuthal", [nord, npp])

    def post_a(pr):
        g = pr.value
        ok = isinstance(g, Arr) and g.ndim == 2
        goals = [("returns (1+nord) x npp", z3.BoolVal(ok))]
        if ok:
            goals.append(("shape", z3.And(zi(g.shape[0]) == nord + 1, zi(g.shape[1]) == npp)))
            inb = z3.And(p >= 0, p < nord, q >= 0, q < npp)
            th = z3.ToReal(q) * (2 * PI / z3.ToReal(npp))
            v = zr(g.get([p, q]))
            goals.append(("order 0: constant 1", z3.Implies(z3.And(inb, p == 0), v == 1)))
            goals.append(("odd index i: cos((i//2 + 1) theta)", z3.Implies(z3.And(inb, p % 2 == 1), v == UF("cos")(z3.ToReal(p / 2 + 1) * th))))
            goals.append(("even index i >= 2: sin((i//2) theta)", z3.Implies(z3.And(inb, p % 2 == 0, p >= 2), v == UF("sin")(z3.ToReal(p / 2) * th))))
        return goals
    verify(chk, "gkl_azimuthal", KL + ":gkl_azimuthal", run_a, post_a, clause="azimuthal", replay=lambda m: {}, encoding="loop-summary S2 (step-2 ranges)")

    # ---- Cartesian geometry: the returned pupil is the annulus indicator at pixel centres
    dummy = lambda it, args, kw: sym_arr("polar", [nr, npp])
    noop3 = lambda it, args, kw: (None, None, None)

    def run_g(it):
        for a in PI_AXIOMS:
            it.ctx.assume(a)
        it.ctx.assume(z3.And(ncp >= 1, nr >= 1, npp >= 1, ri > 0, ri < 1))
        return it.call_repo(KL, "pcgeom", [nr, npp, ncp, ri, 0])

    def post_g(pr):
        geom = pr.value
        ok = isinstance(geom, dict) and isinstance(geom.get("ap"), Arr) and geom["ap"].ndim == 2
        goals = [("returns the geometry dictionary with the pupil `ap`", z3.BoolVal(bool(ok)))]
        if ok:
            ap = geom["ap"]
            goals.append(("pupil shape = dim x dim", z3.And(zi(ap.shape[0]) == ncp, zi(ap.shape[1]) == ncp)))
            inb = z3.And(p >= 0, p < ncp, q >= 0, q < ncp)
            half = z3.ToReal(ncp) / 2
            x = (z3.ToReal(q) - (z3.ToReal(ncp) - 1) / 2) / half
            y = (z3.ToReal(p) - (z3.ToReal(ncp) - 1) / 2) / half
            inside = z3.And(x * x + y * y >= ri * ri, x * x + y * y <= 1)
            val = ap.get([p, q])
            lem = (p * ncp + q) % ncp == q
            goals.append(("lemma: (p*ncp + q) mod ncp = q for 0 <= q < ncp", z3.Implies(inb, lem)))
            goals.append(("pupil[p,q] = 1 iff ri^2 <= x^2 + y^2 <= 1 at the pixel centre x = (q - (dim-1)/2)/(dim/2), y likewise (annulus indicator)",
                          z3.Implies(inb, (val if z3.is_bool(val) else zr(val) != 0) == inside), {"hyps": [z3.Implies(inb, lem)]}))
        return goals
    verify(chk, "pcgeom", KL + ":pcgeom", run_g, post_g, clause="pupil", replay=lambda m: {"dim": num(m.eval(ncp, model_completion=True))},
           summaries={(KL, "radii"): dummy, (KL, "polang"): dummy, (KL, "setpincs"): noop3}, encoding="pointwise (flattened index arithmetic), callee contracts elided for the polar part", frame=False)
