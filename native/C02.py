import sys, os
sys.path.insert(0, os.path.dirname(os.path.abspath(__file__)))
import numpy
from _harness import main
import aotools
from aotools.turbulence import slopecovariance as SC


def bad(msg, obs=None, exp=None):
    return {"message": msg, "observed": obs, "expected": exp}


def psd(rng, N, gaps=True):
    Q, _ = numpy.linalg.qr(rng.normal(size=(N, N)))
    ev = numpy.array([10.0 ** (-(k // 2)) for k in range(N)]) if gaps else rng.uniform(0.5, 2, N)
    return (Q * ev) @ Q.T, ev


def chk_normal(inp):
    rng = numpy.random.default_rng(21)
    for (T, n) in ((4, 1), (5, 2), (3, 1)):
        C, ev = psd(rng, 2 * T)
        Cno, Coo = C[:2 * n, 2 * n:], C[2 * n:, 2 * n:]
        for cond in (0, 3e-2, 3e-3):
            R = SC.create_tomographic_covariance_reconstructor(C.copy(), n, cond)
            if R.shape != Cno.shape:
                return bad("reconstructor shape", list(R.shape), list(Cno.shape))
            w, V = numpy.linalg.eigh(Coo)
            keep = w > cond * w.max() if cond > 0 else w > 1e-13 * w.max()
            P = V[:, keep] @ V[:, keep].T                       # projector on the retained singular subspace
            lhs, rhs = R @ Coo @ P, Cno @ P
            if not numpy.allclose(lhs, rhs, rtol=0, atol=1e-8 * abs(C).max()):
                return bad("normal equations R C_oo = C_no fail on the retained singular subspace (conditioning %g, T=%d, n=%d)" % (cond, T, n), float(abs(lhs - rhs).max()), 0.0)
            if not numpy.allclose(R @ (numpy.eye(len(P)) - P), 0, atol=1e-8 * abs(R).max()):
                return bad("reconstructor has weight outside the retained singular subspace (conditioning %g)" % cond, float(abs(R @ (numpy.eye(len(P)) - P)).max()), 0.0)
    # duplicate sensor: on-axis sensor identical to the first off-axis sensor
    C0, _ = psd(rng, 6, gaps=False)
    n = 1
    idx = [0, 1] + list(range(6))
    C = C0[numpy.ix_(idx, idx)]
    R = SC.create_tomographic_covariance_reconstructor(C, n, 0)
    E = numpy.zeros((2, 6)); E[0, 0] = E[1, 1] = 1
    if not numpy.allclose(R, E, atol=1e-8):
        return bad("duplicate on-axis sensor: R does not reproduce that sensor with zero weight to the others", R.tolist(), E.tolist())


def covobj(theta0=(0., 0.)):
    mask = aotools.circle(2, 4)
    return aotools.CovarianceMatrix(3, [mask, mask.copy(), mask.copy()], 8., [2., 2., 2.], [0, 0, 0], [list(theta0), [20, 0], [-10, 15]], [5e-7] * 3, 2, numpy.array([0., 6000.]), [0.2, 0.3], [25., 20.])


def chk_method(inp):
    cm = covobj()
    M = cm.make_covariance_matrix()
    for cond in (0, 1e-3):
        R = cm.make_tomographic_reconstructor(cond)
        want = SC.create_tomographic_covariance_reconstructor(M.copy(), int(cm.n_subaps[0]), cond)
        if not numpy.array_equal(R, want):
            return bad("make_tomographic_reconstructor(%g) is not the reconstructor of the current covariance matrix with the first WFS on axis" % cond)
    # rebuild with a changed system, same conditioning: the reconstructor must follow the new matrix
    cm.gs_positions = [[5, 5], [20, 0], [-10, 15]]
    cm.layer_r0s = [0.1, 0.5]
    M2 = cm.make_covariance_matrix()
    R2 = cm.make_tomographic_reconstructor(1e-3)
    want2 = SC.create_tomographic_covariance_reconstructor(M2.copy(), int(cm.n_subaps[0]), 1e-3)
    if not numpy.array_equal(R2, want2):
        return bad("after rebuilding the covariance matrix the reconstructor is stale (not computed from the current matrix)", float(abs(R2 - want2).max()), 0.0)


one = lambda t, s: [{}]
CLAUSES = {"normal-equations": (chk_normal, one), "method": (chk_method, one)}
if __name__ == "__main__":
    main(CLAUSES)
