"""C19 Empirical estimators implement their definitions."""
import sys, os
sys.path.insert(0, os.path.dirname(os.path.dirname(os.path.abspath(__file__))))
from aovc.check import run_check
from contracts import estimators


def build(chk):
    chk.assumptions_used.update(["A-REAL", "A-NP"])
    estimators.obligations(chk)
    chk.notes.append("calculate_structure_function: no shape precondition (all R, C >= 1, step >= 1, nbOfPoint >= 1); that every returned lag has an overlapping row is proved (definedness of the mean)")
    chk.not_decided.append("applied to generated screens the estimator follows the analytic structure function (statistical)")


if __name__ == "__main__":
    sys.exit(run_check("C19", "Empirical estimators implement their definitions", build))
