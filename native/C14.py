import sys, os, itertools
sys.path.insert(0, os.path.dirname(os.path.abspath(__file__)))
import numpy
from _harness import main
import aotools
from aotools.functions import pupil


def spec_circle(radius, size, c0, c1, origin):
    from fractions import Fraction as F
    o = F(size) / 2 if origin == "middle" else F(0)
    out = numpy.zeros((size, size))
    R, C0, C1 = F(radius), F(c0), F(c1)
    for i in range(size):
        for j in range(size):
            dx = F(j) + F(1, 2) - o - C0
            dy = F(i) + F(1, 2) - o - C1
            out[i, j] = 1.0 if dx * dx + dy * dy <= R * R else 0.0
    return out


def chk_indicator(inp):
    size = int(inp["size"])
    if size < 0 or size > 400:
        return None
    got = pupil.circle(inp["radius"], size, (inp["c0"], inp["c1"]), inp["origin"])
    want = spec_circle(inp["radius"], size, inp["c0"], inp["c1"], inp["origin"])
    if got.shape != want.shape:
        return {"message": "shape", "observed": list(got.shape), "expected": list(want.shape)}
    if not numpy.array_equal(got, want):
        bad = numpy.argwhere(got != want)[0].tolist()
        return {"message": "circle differs from the indicator at pixel %s" % bad, "observed": got.tolist(), "expected": want.tolist()}
    if inp["origin"] == "middle" and inp["c0"] == 0 and inp["c1"] == 0:
        got2 = pupil.circle(inp["radius"], size)
        if not numpy.array_equal(got2, want):
            return {"message": "default arguments differ from centred middle-origin indicator", "observed": got2.tolist(), "expected": want.tolist()}
    return None


def fam_indicator(tier, seed):
    sizes = range(0, 8) if tier == "quick" else range(0, 13)
    radii = [0, 0.5, 0.75, 1, 1.5, 2, 2.5, 3, 4.25, 6]
    centres = [(0, 0), (0.5, 0.5), (-2, 0), (1, -1.5), (0.25, 3), (-0.5, -3)]
    for size, r, c, origin in itertools.product(sizes, radii, centres, ("middle", "corner")):
        yield {"radius": r, "size": size, "c0": c[0], "c1": c[1], "origin": origin}


def chk_nested(inp):
    a = pupil.circle(inp["radius"], inp["size"], (inp["c0"], inp["c1"]), inp["origin"])
    b = pupil.circle(inp["radius2"], inp["size"], (inp["c0"], inp["c1"]), inp["origin"])
    if (a > b).any():
        return {"message": "circle(r) not contained in circle(r2), r<=r2", "observed": a.tolist(), "expected": b.tolist()}


def fam_nested(tier, seed):
    for inp in fam_indicator(tier, seed):
        for dr in (0, 0.5, 1.25):
            d = dict(inp); d["radius2"] = inp["radius"] + dr
            yield d


def chk_translate(inp):
    k, l = int(inp.get("k", 1)), int(inp.get("l", -1))
    n = inp["size"]
    a = pupil.circle(inp["radius"], n, (inp["c0"], inp["c1"]), inp["origin"])
    b = pupil.circle(inp["radius"], n, (inp["c0"] + k, inp["c1"] + l), inp["origin"])
    for i in range(n):
        for j in range(n):
            if 0 <= i - l < n and 0 <= j - k < n and b[i, j] != a[i - l, j - k]:
                return {"message": "translation by integer (k,l)=(%d,%d) does not shift the mask at %s" % (k, l, (i, j)), "observed": b.tolist(), "expected": a.tolist()}


def fam_translate(tier, seed):
    for inp in fam_indicator(tier, seed):
        for (k, l) in ((1, 0), (-2, 1)):
            d = dict(inp); d["k"] = k; d["l"] = l
            yield d


def chk_symmetric(inp):
    a = pupil.circle(inp["radius"], inp["size"])
    for name, b in (("transpose", a.T), ("flipud", a[::-1]), ("fliplr", a[:, ::-1])):
        if not numpy.array_equal(a, b):
            return {"message": "centred mask not symmetric under " + name, "observed": a.tolist(), "expected": b.tolist()}


def fam_symmetric(tier, seed):
    for size in range(0, 10):
        for r in (0, 0.5, 1, 1.5, 2.5, 3.2, 5):
            yield {"radius": r, "size": size}


CLAUSES = {
    "circle.indicator": (chk_indicator, fam_indicator),
    "circle.nested": (chk_nested, fam_nested),
    "circle.translate": (chk_translate, fam_translate),
    "circle.symmetric": (chk_symmetric, fam_symmetric),
}

if __name__ == "__main__":
    main(CLAUSES)
