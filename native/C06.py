import sys, os
sys.path.insert(0, os.path.dirname(os.path.abspath(__file__)))
import numpy
from _harness import main
import aotools


def noise():
    """unrelated library calls, other screens, global RNG changes"""
    numpy.random.seed(numpy.random.randint(0, 1000))
    aotools.ft_phase_screen(0.2, 8, 0.1, 30., 0.01)
    aotools.circle(3, 8)
    s = aotools.PhaseScreenVonKarman(8, 0.1, 0.3, 50., random_seed=99)
    s.add_row()
    aotools.PhaseScreenVonKarman(8, 0.1, 0.3, 10.)
    aotools.PhaseScreenKolmogorov(8, 0.2, 0.3, 10., stencil_length_factor=2)
    numpy.random.random(5)


def chk_finite(inp):
    seed = inp["seed"]
    for f in (aotools.ft_phase_screen, aotools.ft_sh_phase_screen):
        for N in (16, 15, 9, 2):          # even and odd sizes
            a = f(0.15, N, 0.05, 20., 0.01, seed=seed)
            noise()
            b = f(0.15, N, 0.05, 20., 0.01, seed=seed)
            c = f(0.15, N, 0.05, 20., 0.01, None, seed)          # the seed given positionally (after FFT)
            if not (numpy.array_equal(a, b) and numpy.array_equal(a, c)):
                return {"message": "%s(N=%d, seed=%r) not reproducible across interleaved calls / keyword vs positional seed" % (f.__name__, N, seed), "observed": float(max(abs(a - b).max(), abs(a - c).max())), "expected": 0.0}


def chk_infinite(inp):
    seed = inp["seed"]
    for cls, kw in ((aotools.PhaseScreenVonKarman, {"n_columns": 2}), (aotools.PhaseScreenKolmogorov, {"stencil_length_factor": 2})):
        for params in ((8, 0.1, 0.2, 20.), (16, 0.05, 0.15, 10.), (9, 0.1, 0.2, 20.)):
            a = cls(*params, random_seed=seed, **kw)
            # the documented signature: (nx_size, pixel_scale, r0, L0, random_seed=None, ...): a seed given positionally is the same seed
            pos = cls(*(params + (seed,)), **kw)
            if not numpy.array_equal(a.scrn, pos.scrn):
                return {"message": "%s%r: the seed %r given as fifth positional argument does not give the screen of random_seed=%r" % (cls.__name__, params, seed, seed), "observed": float(abs(a.scrn - pos.scrn).max()), "expected": 0.0}
            rows_a = [a.scrn.copy()] + [a.add_row().copy() for _ in range(4)]
            noise()
            # other geometry / outer scales in between, then the same screen again
            for L0 in (50., 5.):
                o = cls(params[0], params[1], params[2], L0, random_seed=seed, **kw); o.add_row()
            b = cls(*params, random_seed=seed, **kw)
            rows_b = [b.scrn.copy()]
            for _ in range(4):
                noise()
                rows_b.append(b.add_row().copy())
            for k, (x, y) in enumerate(zip(rows_a, rows_b)):
                if not numpy.array_equal(x, y):
                    return {"message": "%s%r seed=%r: state after %d added rows differs between two reproductions" % (cls.__name__, params, seed, k), "observed": float(abs(x - y).max()), "expected": 0.0}


def fam(tier, seed):
    for s in (0, 1, 7, 123456789):
        yield {"seed": s}


CLAUSES = {"reproducible.finite": (chk_finite, fam), "reproducible.infinite": (chk_infinite, fam), "isolation": (chk_infinite, fam)}
if __name__ == "__main__":
    main(CLAUSES)
