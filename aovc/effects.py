"""Frame / effect analysis (DESIGN 7 C20, C06): for every function, a flow-sensitive may-alias analysis over the real AST
decides, per mutating statement, whether the written object can be memory owned by a parameter (or module-level state).

Abstract value of an expression = set of roots it may alias:
   ("P", name)  memory of parameter `name`          ("G", name)  module-level object `name`
   ("S", attr)  object state self.attr (writes allowed; tracked so that constructor arguments stored on self are followed)
   empty set    a fresh object (result of arithmetic, of a copying library call, a literal ...)
Every statement that can write into an existing object (x[...] = , x op= , x.attr = , out=, in-place methods, mutating
library calls, calls of repository functions whose summary says they write their k-th argument) yields one obligation
"target is disjoint from parameter / global memory"; it is discharged iff the may-alias set of the target is empty
(conservative: a may-alias that cannot be ruled out is reported as a violation candidate, never silently dropped).
Hidden state: calls into the legacy global RandomState / random / time, `global` writes, writes to module-level
objects, memoising decorators.
"""
import ast
from . import frontend

VIEW_FUNCS = {"asarray", "asanyarray", "ascontiguousarray", "asfarray", "atleast_1d", "atleast_2d", "atleast_3d", "reshape", "ravel", "squeeze",
              "transpose", "swapaxes", "moveaxis", "rollaxis", "flipud", "fliplr", "flip", "rot90", "real", "imag", "diagonal", "diag", "broadcast_to",
              "expand_dims", "float32", "float64", "float_", "int32", "int64", "complex64", "complex128", "trim_zeros", "nan_to_num", "require",
              "triu", "tril"} - {"triu", "tril", "diag"}
VIEW_METHODS = {"view", "reshape", "ravel", "squeeze", "transpose", "swapaxes", "T", "real", "imag", "flat", "base", "diagonal", "byteswap", "newbyteorder",
                "__array__", "getfield"}
VIEW_ATTRS = {"T", "real", "imag", "flat", "base"}
MUTATING_METHODS = {"sort", "fill", "resize", "put", "itemset", "setfield", "partition", "setflags", "byteswap_inplace", "append", "extend", "insert",
                    "pop", "remove", "reverse", "clear", "update", "setdefault", "popitem", "add", "discard", "__setitem__", "__iadd__", "shuffle"}
MUTATING_FUNCS = {"fill_diagonal": [0], "put": [0], "copyto": [0], "place": [0], "putmask": [0], "put_along_axis": [0]}
PURE_METHODS = {"sum", "mean", "max", "min", "std", "var", "dot", "copy", "astype", "flatten", "tolist", "conj", "conjugate", "round", "cumsum", "cumprod",
                "argmax", "argmin", "any", "all", "nonzero", "item", "take", "repeat", "prod", "ptp", "trace", "argsort", "searchsorted", "compress",
                "choose", "tobytes", "tostring", "dump", "dumps", "format", "join", "split", "strip", "lower", "upper", "startswith", "endswith", "keys",
                "values", "items", "get", "index", "count", "normal", "standard_normal", "random", "uniform", "integers", "choice", "map", "close",
                "terminate", "clip", "is_integer", "bit_length"}
SCALAR_CONVERSIONS = {"float", "int", "bool", "complex", "str", "len", "abs", "round", "range", "min", "max", "sum", "tuple", "enumerate", "zip", "sorted",
                      "isinstance", "type", "print", "divmod", "any", "all", "repr", "list"}
# methods of numpy.random.Generator / RandomState / random.Random that advance the generator they are called on
DRAW_METHODS = {"normal", "standard_normal", "random", "uniform", "integers", "choice", "shuffle", "permutation", "permuted", "poisson", "exponential", "gamma",
                "beta", "binomial", "randint", "rand", "randn", "random_sample", "bytes", "multivariate_normal", "standard_exponential", "lognormal", "rayleigh",
                "seed", "gauss", "randrange", "sample", "spawn"}
LEGACY_RNG_OK = {"default_rng", "Generator", "SeedSequence", "PCG64", "BitGenerator", "RandomState"}


class Event:
    def __init__(self, kind, func, lineno, what, roots):
        self.kind, self.func, self.lineno, self.what, self.roots = kind, func, lineno, what, roots

    def __repr__(self):
        return "%s@%s:%d %s %s" % (self.kind, self.func, self.lineno, self.what, sorted(self.roots))


class Site:
    """one potential write: discharged iff roots (restricted to P/G) is empty"""
    def __init__(self, func, lineno, what, roots):
        self.func, self.lineno, self.what = func, lineno, what
        # P: memory of a parameter, G: module- / class-level object, C: an array the caller handed to the constructor (kept on self)
        self.roots = frozenset(r for r in roots if r[0] in ("P", "G", "C"))
        # S0: the object an attribute of self held when the method was ENTERED (not one the method allocated itself): writing it in place
        # changes what an earlier call may have returned to the caller (checked per class by escaping_prestate_writes)
        self.pre = frozenset(r[1] for r in roots if r[0] == "S0")

    @property
    def ok(self):
        return not self.roots


class FuncSummary:
    def __init__(self):
        self.writes_params = set()    # parameter names (positions resolved by caller) that may be written
        self.returns = set()          # roots the return value may alias
        self.sites = []
        self.hidden = []              # hidden-state events
        self.params = []
        self.undecided = []


class Analyzer:
    def __init__(self):
        self.summaries = {}           # (relpath, qualname) -> FuncSummary
        self.in_progress = set()
        self.module_mutables = {}     # relpath -> set of module-level names bound to mutable objects

    # -- module-level mutable objects
    def mutables(self, mod):
        if mod.relpath in self.module_mutables:
            return self.module_mutables[mod.relpath]
        out = set()
        for name, val in mod.assigns.items():
            if isinstance(val, (ast.Dict, ast.List, ast.Set, ast.ListComp, ast.DictComp)) or \
               (isinstance(val, ast.Call) and not (isinstance(val.func, ast.Name) and val.func.id in ("frozenset", "tuple", "float", "int", "str"))):
                out.add(name)
        self.module_mutables[mod.relpath] = out
        return out

    # -- class-level mutable objects (shared by every instance unless each constructor rebinds the name on self)
    @staticmethod
    def _is_mutable_value(val):
        return isinstance(val, (ast.Dict, ast.List, ast.Set, ast.ListComp, ast.DictComp, ast.SetComp)) or \
            (isinstance(val, ast.Call) and not (isinstance(val.func, ast.Name) and val.func.id in ("frozenset", "tuple", "float", "int", "str", "bool", "complex", "property", "staticmethod", "classmethod")))

    def class_chain(self, mod, clsname):
        out, todo = [], [clsname]
        while todo:
            c = todo.pop(0)
            node = mod.classes.get(c)
            if node is None or node in out:
                continue
            out.append(node)
            for b in node.bases:
                if isinstance(b, ast.Name):
                    todo.append(b.id)
        return out

    def class_mutables(self, mod, clsname):
        """{attr: owner class} for class-level names bound to mutable objects in clsname or its (same-module) bases that are NOT
        rebound on self by the constructor(s) of the chain: such an object is shared by all instances (hidden state)"""
        key = (mod.relpath, clsname)
        cache = self.__dict__.setdefault("_class_mut", {})
        if key in cache:
            return cache[key]
        chain = self.class_chain(mod, clsname)
        muts, rebound = {}, set()
        for node in chain:
            for st in node.body:
                if isinstance(st, ast.Assign) and self._is_mutable_value(st.value):
                    for t in st.targets:
                        if isinstance(t, ast.Name):
                            muts.setdefault(t.id, node.name)
                if isinstance(st, ast.FunctionDef) and st.name == "__init__":
                    for n in ast.walk(st):
                        if isinstance(n, (ast.Assign, ast.AnnAssign)):
                            for t in (n.targets if isinstance(n, ast.Assign) else [n.target]):
                                if isinstance(t, ast.Attribute) and isinstance(t.value, ast.Name) and t.value.id == "self":
                                    rebound.add(t.attr)
        out = {a: c for a, c in muts.items() if a not in rebound}
        cache[key] = out
        return out

    def ctor_owned(self, mod, clsname):
        """attributes that the constructor(s) of the class chain bind to (views of) constructor ARGUMENTS: the caller still owns
        those arrays, so a later in-place update through self.<attr> modifies the caller's data (and the next call sees it)"""
        key = (mod.relpath, clsname)
        cache = self.__dict__.setdefault("_ctor_owned", {})
        if key in cache:
            return cache[key]
        cache[key] = {}          # recursion guard
        out = {}
        for node in self.class_chain(mod, clsname):
            q = node.name + ".__init__"
            if q in mod.funcs:
                s = self.summary(mod, q)
                for attr, roots in (getattr(s, "self_attrs", None) or {}).items():
                    ps = sorted(r[1] for r in roots if r[0] == "P")
                    if ps:
                        out.setdefault(attr, ps[0])
        cache[key] = out
        return out

    def summary(self, mod, qualname):
        key = (mod.relpath, qualname)
        if key in self.summaries:
            return self.summaries[key]
        if key in self.in_progress:
            return FuncSummary()      # recursion: optimistic first pass, sites are still collected for the outer call
        fn = mod.funcs.get(qualname)
        if fn is None:
            return None
        self.in_progress.add(key)
        try:
            s = FuncAnalysis(self, mod, qualname, fn).run()
        finally:
            self.in_progress.discard(key)
        self.summaries[key] = s
        return s


class FuncAnalysis:
    def __init__(self, an, mod, qualname, fn):
        self.an, self.mod, self.qualname, self.fn = an, mod, qualname, fn
        self.s = FuncSummary()
        self.fname = "%s:%s" % (mod.relpath, qualname)
        self.is_method = "." in qualname
        self.globals_declared = set()
        self.scalar_params = set()

    def run(self):
        a = self.fn.args
        names = [x.arg for x in a.args] + [x.arg for x in a.kwonlyargs]
        self.s.params = names
        env = {}
        defaults = [None] * (len(a.args) - len(a.defaults)) + list(a.defaults)
        for n, d in zip([x.arg for x in a.args], defaults):
            if self.is_method and n == "self":
                env[n] = {("SELF", "self")}
                continue
            env[n] = {("P", n)}
            if isinstance(d, ast.Constant) and isinstance(d.value, (int, float, complex, str, bool, type(None))) and d.value is not None:
                self.scalar_params.add(n)
        for x in a.kwonlyargs:
            env[x.arg] = {("P", x.arg)}
        if a.vararg:
            env[a.vararg.arg] = {("P", a.vararg.arg)}
        if a.kwarg:
            env[a.kwarg.arg] = set()
        for d in self.fn.decorator_list:
            txt = ast.unparse(d)
            if "cache" in txt or "memo" in txt:
                self.s.hidden.append(Event("hidden", self.fname, self.fn.lineno, "memoising decorator %s: results are shared mutable objects kept between calls" % txt, set()))
        self.block(self.fn.body, env)
        self.s.self_attrs = {k[5:]: set(v) for k, v in env.items() if k.startswith("self.")}
        for site in self.s.sites:
            for r in site.roots:
                if r[0] == "P":
                    self.s.writes_params.add(r[1])
        return self.s

    # ---- statements
    def block(self, stmts, env):
        for st in stmts:
            self.stmt(st, env)

    def stmt(self, st, env):
        if isinstance(st, ast.Assign):
            v = self.expr(st.value, env)
            for t in st.targets:
                self.bind(t, v, env, st)
        elif isinstance(st, ast.AnnAssign):
            if st.value is not None:
                self.bind(st.target, self.expr(st.value, env), env, st)
        elif isinstance(st, ast.AugAssign):
            self.expr(st.value, env)
            t = st.target
            if isinstance(t, ast.Name):
                roots = env.get(t.id, self.global_roots(t.id))
                if t.id in self.scalar_params and roots == {("P", t.id)}:
                    roots = set()
                self.site(st, "augmented assignment %s %s= ... (in place if the object is an ndarray / list)" % (t.id, type(st.op).__name__), roots)
                if t.id in self.globals_declared:
                    self.s.hidden.append(Event("hidden", self.fname, st.lineno, "writes module-level name %s" % t.id, set()))
            elif isinstance(t, ast.Subscript):
                self.site(st, "item update %s" % ast.unparse(t)[:60], self.expr(t.value, env))
                self.expr(t.slice, env)
            elif isinstance(t, ast.Attribute):
                base = self.expr(t.value, env)
                if not self.is_self(base):
                    self.site(st, "attribute update %s" % ast.unparse(t)[:60], base)
                else:
                    self.site(st, "in-place update of self.%s" % t.attr, {r for r in env.get("self." + t.attr, set())})
        elif isinstance(st, ast.Expr):
            self.expr(st.value, env)
        elif isinstance(st, ast.Return):
            if st.value is not None:
                self.s.returns |= self.expr(st.value, env)
        elif isinstance(st, ast.If):
            self.expr(st.test, env)
            e1, e2 = dict_copy(env), dict_copy(env)
            self.block(st.body, e1)
            self.block(st.orelse, e2)
            join(env, e1, e2)
        elif isinstance(st, (ast.For, ast.While)):
            if isinstance(st, ast.For):
                it = self.expr(st.iter, env)
                self.bind(st.target, it, env, st)
            else:
                self.expr(st.test, env)
            for _ in range(2):
                e1 = dict_copy(env)
                if isinstance(st, ast.For):
                    self.bind(st.target, self.expr(st.iter, e1), e1, st)
                self.block(st.body, e1)
                join(env, env, e1)
            self.block(st.orelse, env)
        elif isinstance(st, ast.Try):
            e0 = dict_copy(env)
            self.block(st.body, env)
            for h in st.handlers:
                e1 = dict_copy(e0)
                join(e1, e1, env)
                self.block(h.body, e1)
                join(env, env, e1)
            self.block(st.orelse, env)
            self.block(st.finalbody, env)
        elif isinstance(st, ast.With):
            for item in st.items:
                v = self.expr(item.context_expr, env)
                if item.optional_vars is not None:
                    self.bind(item.optional_vars, v, env, st)
            self.block(st.body, env)
        elif isinstance(st, ast.Global):
            self.globals_declared |= set(st.names)
        elif isinstance(st, ast.Delete):
            for t in st.targets:
                if isinstance(t, ast.Subscript):
                    self.site(st, "del %s" % ast.unparse(t)[:60], self.expr(t.value, env))
                elif isinstance(t, ast.Name):
                    env.pop(t.id, None)
        elif isinstance(st, (ast.FunctionDef, ast.ClassDef)):
            self.s.undecided.append(Event("undecided", self.fname, st.lineno, "nested definition %s not analysed" % st.name, set()))
        elif isinstance(st, (ast.Pass, ast.Break, ast.Continue, ast.Import, ast.ImportFrom, ast.Raise, ast.Assert, ast.Nonlocal)):
            if isinstance(st, ast.Assert):
                self.expr(st.test, env)
        else:
            self.s.undecided.append(Event("undecided", self.fname, getattr(st, "lineno", 0), "statement %s" % type(st).__name__, set()))

    def bind(self, t, v, env, st):
        if isinstance(t, ast.Name):
            env[t.id] = set(v)
            if t.id in self.globals_declared:
                self.s.hidden.append(Event("hidden", self.fname, st.lineno, "assigns module-level name %s" % t.id, set()))
        elif isinstance(t, (ast.Tuple, ast.List)):
            for e in t.elts:
                self.bind(e.value if isinstance(e, ast.Starred) else e, v, env, st)
        elif isinstance(t, ast.Subscript):
            self.site(st, "item store %s = ..." % ast.unparse(t)[:60], self.expr(t.value, env))
            self.expr(t.slice, env)
        elif isinstance(t, ast.Attribute):
            base = self.expr(t.value, env)
            if self.is_self(base):
                env["self." + t.attr] = set(v)          # object state; remembers constructor arguments stored on self
            else:
                self.site(st, "attribute store %s = ..." % ast.unparse(t)[:60], base)

    def is_self(self, roots):
        return any(r[0] == "SELF" for r in roots)

    def site(self, st, what, roots):
        self.s.sites.append(Site(self.fname, st.lineno, what, roots))

    def global_roots(self, name):
        if name in self.an.mutables(self.mod) or name in self.globals_declared:
            return {("G", name)}
        return set()

    # ---- expressions: returns the alias set
    def expr(self, e, env):
        if e is None:
            return set()
        if isinstance(e, ast.Name):
            if e.id in env:
                return set(env[e.id])
            return self.global_roots(e.id)
        if isinstance(e, ast.Constant):
            return set()
        if isinstance(e, ast.Attribute):
            base = self.expr(e.value, env)
            shared = None
            if self.is_self(base) and self.is_method and ("self." + e.attr) not in env:
                shared = self.an.class_mutables(self.mod, self.qualname.split(".")[0]).get(e.attr)
            elif isinstance(e.value, ast.Name) and e.value.id in self.mod.classes and e.value.id not in env:
                shared = self.an.class_mutables(self.mod, e.value.id).get(e.attr)
            elif isinstance(e.value, ast.Attribute) and e.value.attr == "__class__" and self.is_method:
                shared = self.an.class_mutables(self.mod, self.qualname.split(".")[0]).get(e.attr)
            elif isinstance(e.value, ast.Call) and isinstance(e.value.func, ast.Name) and e.value.func.id == "type" and self.is_method:
                shared = self.an.class_mutables(self.mod, self.qualname.split(".")[0]).get(e.attr)
            if shared is not None:
                what = "uses class-level mutable attribute %s.%s: one object shared by all instances (state kept between calls / objects)" % (shared, e.attr)
                if not any(h.what == what for h in self.s.hidden):
                    self.s.hidden.append(Event("hidden", self.fname, getattr(e, "lineno", 0), what, set()))
                return {("G", "%s.%s" % (shared, e.attr))}
            if self.is_self(base):
                out = set(env.get("self." + e.attr, set())) | {("S", e.attr)}
                if self.is_method and ("self." + e.attr) not in env and not self.qualname.endswith(".__init__"):
                    out.add(("S0", e.attr))
                if self.is_method and ("self." + e.attr) not in env and not self.qualname.endswith(".__init__"):
                    owner = self.an.ctor_owned(self.mod, self.qualname.split(".")[0]).get(e.attr)
                    if owner is not None:
                        out.add(("C", "%s (constructor argument %s)" % (e.attr, owner)))
                return out
            if e.attr in VIEW_ATTRS:
                return base
            return set()
        if isinstance(e, ast.Subscript):
            base = self.expr(e.value, env)
            self.expr(e.slice, env)
            # boolean-mask / comparison indices copy; basic indexing gives views: views unless the index is a comparison
            if isinstance(e.slice, ast.Compare):
                return set()
            return {r for r in base if r[0] != "SELF"}
        if isinstance(e, (ast.BinOp,)):
            self.expr(e.left, env); self.expr(e.right, env)
            return set()
        if isinstance(e, ast.UnaryOp):
            self.expr(e.operand, env)
            return set()
        if isinstance(e, ast.BoolOp):
            out = set()
            for v in e.values:
                out |= self.expr(v, env)
            return out
        if isinstance(e, ast.Compare):
            self.expr(e.left, env)
            for c in e.comparators:
                self.expr(c, env)
            return set()
        if isinstance(e, ast.IfExp):
            self.expr(e.test, env)
            return self.expr(e.body, env) | self.expr(e.orelse, env)
        if isinstance(e, (ast.Tuple, ast.List, ast.Set)):
            out = set()
            for x in e.elts:
                out |= self.expr(x.value if isinstance(x, ast.Starred) else x, env)
            return out       # a container holding references to its elements
        if isinstance(e, ast.Dict):
            out = set()
            for x in list(e.keys) + list(e.values):
                if x is not None:
                    out |= self.expr(x, env)
            return out
        if isinstance(e, (ast.ListComp, ast.GeneratorExp, ast.SetComp, ast.DictComp)):
            e2 = dict_copy(env)
            for g in e.generators:
                self.bind(g.target, self.expr(g.iter, e2), e2, e)
                for c in g.ifs:
                    self.expr(c, e2)
            if isinstance(e, ast.DictComp):
                return self.expr(e.key, e2) | self.expr(e.value, e2)
            return self.expr(e.elt, e2)
        if isinstance(e, ast.Slice):
            for x in (e.lower, e.upper, e.step):
                self.expr(x, env)
            return set()
        if isinstance(e, ast.Starred):
            return self.expr(e.value, env)
        if isinstance(e, ast.JoinedStr) or isinstance(e, ast.FormattedValue):
            return set()
        if isinstance(e, ast.Lambda):
            return set()
        if isinstance(e, ast.Call):
            return self.call(e, env)
        if isinstance(e, ast.NamedExpr):
            v = self.expr(e.value, env)
            env[e.target.id] = set(v)
            return v
        self.s.undecided.append(Event("undecided", self.fname, getattr(e, "lineno", 0), "expression %s" % type(e).__name__, set()))
        return set()

    def dotted(self, f):
        parts = []
        while isinstance(f, ast.Attribute):
            parts.append(f.attr)
            f = f.value
        if isinstance(f, ast.Name):
            parts.append(f.id)
            return list(reversed(parts))
        return None

    def call(self, e, env):
        args = [self.expr(a, env) for a in e.args]
        kwargs = {k.arg: self.expr(k.value, env) for k in e.keywords}
        lineno = e.lineno
        # out= keyword writes its argument
        if "out" in kwargs and kwargs["out"]:
            self.s.sites.append(Site(self.fname, lineno, "out= argument of %s" % ast.unparse(e.func)[:40], kwargs["out"]))
        f = e.func
        dotted = self.dotted(f)
        # resolve the callee
        if dotted is not None and dotted[0] not in env:
            r = frontend.resolve_name(self.mod, dotted[0])
            cur = r
            k = 1
            while cur is not None and cur[0] == "module" and k < len(dotted):
                nxt = frontend.resolve_name(cur[1], dotted[k])
                if nxt is None:
                    rp = frontend.dotted_to_relpath(cur[1].dotted() + "." + dotted[k])
                    nxt = ("module", frontend.load(rp)) if rp else None
                cur = nxt
                k += 1
            if cur is not None and cur[0] == "func" and k == len(dotted):
                return self.repo_call(cur[1], cur[2], e, args, kwargs)
            if cur is not None and cur[0] == "class" and k == len(dotted):
                init = cur[2] + ".__init__"
                if init in cur[1].funcs:
                    self.repo_call(cur[1], init, e, [set()] + args, kwargs, constructor=True)
                out = set()
                for a in args:
                    out |= a
                return out      # the object may keep references to its constructor arguments
            ext = None
            if cur is not None and cur[0] == "ext":
                ext = cur[1].split(".") + dotted[k:]
            elif r is None and dotted[0] in SCALAR_CONVERSIONS and len(dotted) == 1:
                if dotted[0] == "list" or dotted[0] == "tuple" or dotted[0] == "sorted":
                    return set()
                return set()
            if ext is not None:
                return self.ext_call(ext, e, args, kwargs)
        # method call on a local object
        if isinstance(f, ast.Attribute):
            recv = self.expr(f.value, env)
            name = f.attr
            if self.is_self(recv) and self.is_method:
                cls = self.qualname.split(".")[0]
                from .symex import RepoClass, find_method
                m = find_method(RepoClass(self.mod, cls), name)
                if m is not None:
                    return self.repo_call(m[0], m[1], e, [recv] + args, kwargs, env=env)
            shared_gen = sorted(r[1] for r in recv if r[0] in ("G", "C"))
            if name in DRAW_METHODS and shared_gen:
                what = "draws (.%s) from the module- / class-level object %s: its state advances from call to call" % (name, shared_gen[0])
                if not any(h.what == what for h in self.s.hidden):
                    self.s.hidden.append(Event("hidden", self.fname, lineno, what, set()))
            if name in MUTATING_METHODS:
                self.s.sites.append(Site(self.fname, lineno, "in-place method .%s()" % name, {r for r in recv if r[0] != "SELF"} |
                                         (set(env.get("self." + f.value.attr, set())) if isinstance(f.value, ast.Attribute) and self.is_self(self.expr(f.value.value, env)) else set())))
                return set()
            if name in VIEW_METHODS:
                return {r for r in recv if r[0] != "SELF"}
            if name == "astype":
                # astype(..., copy=False) returns the receiver itself when the type already matches: the result may alias it
                ckw = [k for k in e.keywords if k.arg == "copy"]
                if ckw and not (isinstance(ckw[0].value, ast.Constant) and ckw[0].value.value is True):
                    return {r for r in recv if r[0] != "SELF"}
            if name in PURE_METHODS or not recv:
                return set()
            self.s.undecided.append(Event("undecided", self.fname, lineno, "method .%s() on an object that may alias %s (not in the pure / view / mutating tables)" % (name, sorted(recv)), recv))
            return set()
        if isinstance(f, ast.Name) and f.id in env:
            # calling a local callable (FFT object, function argument): unknown effects on its arguments
            for a in args:
                if a:
                    self.s.undecided.append(Event("undecided", self.fname, lineno, "call of local callable %s with an argument aliasing %s" % (f.id, sorted(a)), a))
            return set()
        return set()

    def repo_call(self, mod, qualname, e, args, kwargs, constructor=False, env=None):
        s = self.an.summary(mod, qualname)
        if s is None:
            return set()
        if env is not None and self.is_method and not self.qualname.endswith(".__init__"):
            # a method called on self writes attributes in place: still the entry-state objects unless this method has rebound them before the call
            for site in s.sites:
                for attr in site.pre:
                    cur = env.get("self." + attr)
                    if cur is None or ("S0", attr) in cur:
                        self.s.sites.append(Site(self.fname, e.lineno, "calls %s, which writes self.%s in place (%s)" % (qualname, attr, site.what[:40]), {("S0", attr)}))
        out = set()
        names = s.params
        bound = dict(zip(names, args))
        bound.update({k: v for k, v in kwargs.items() if k in names})
        for p in s.writes_params:
            if p in bound and bound[p]:
                self.s.sites.append(Site(self.fname, e.lineno, "passes a value to %s, which writes its parameter %s" % (qualname, p), bound[p]))
        for h in s.hidden:
            self.s.hidden.append(Event("hidden", self.fname, e.lineno, "calls %s: %s" % (qualname, h.what), set()))
        # a callee that writes a module- or class-level object (a cache filled by a private helper) does so on behalf of its caller
        seen_gl = set()
        for site in s.sites:
            gl = frozenset(r for r in site.roots if r[0] in ("G", "C"))
            if gl and gl not in seen_gl:
                seen_gl.add(gl)
                self.s.sites.append(Site(self.fname, e.lineno, "calls %s, which writes the module- / class-level object %s (%s)" % (qualname, ", ".join(sorted(r[1] for r in gl)), site.what[:30]), set(gl)))
        for r in s.returns:
            if r[0] == "P" and r[1] in bound:
                out |= bound[r[1]]
            elif r[0] == "G":
                out.add(r)
        return {r for r in out if r[0] != "SELF"}

    def ext_call(self, ext, e, args, kwargs):
        mod, name = ".".join(ext[:-1]), ext[-1]
        lineno = e.lineno
        if ext[0] == "numpy" and len(ext) >= 3 and ext[1] == "random" and name not in LEGACY_RNG_OK:
            self.s.hidden.append(Event("hidden", self.fname, lineno, "numpy.random.%s uses and advances the global RandomState" % name, set()))
            return set()
        if ext[0] in ("random", "time") and ext[0] != name:
            self.s.hidden.append(Event("hidden", self.fname, lineno, "%s.%s depends on hidden state (global RNG / clock)" % (ext[0], name), set()))
            return set()
        if name in MUTATING_FUNCS:
            for k in MUTATING_FUNCS[name]:
                if k < len(args):
                    self.s.sites.append(Site(self.fname, lineno, "%s writes its argument %d" % (".".join(ext), k), args[k]))
            return set()
        if name == "array" and ext[0] == "numpy":
            cp = next((k.value for k in e.keywords if k.arg == "copy"), None)
            if isinstance(cp, ast.Constant) and cp.value is False and args:
                return args[0]
            return set()
        cp = next((k.value for k in e.keywords if k.arg == "copy"), None)
        if cp is not None and not (isinstance(cp, ast.Constant) and cp.value is True) and args:
            # a library function asked not to copy (copy=False, or a value not known to be True) works on / returns its argument:
            # numpy.nan_to_num(x, copy=False) rewrites x in place, numpy.asarray-like conversions return x itself
            if name in COPY_FALSE_WRITES:
                self.s.sites.append(Site(self.fname, lineno, "%s(..., copy=False) rewrites its argument in place" % ".".join(ext), args[0]))
            return args[0]
        if name in VIEW_FUNCS and args:
            return args[0]
        return set()


COPY_FALSE_WRITES = {"nan_to_num"}


def dict_copy(env):
    return {k: set(v) for k, v in env.items()}


def join(dst, a, b):
    keys = set(a) | set(b)
    out = {}
    for k in keys:
        out[k] = set(a.get(k, set())) | set(b.get(k, set()))
        if k.startswith("self.") and (k not in a or k not in b):
            out[k].add(("S0", k[5:]))       # rebound on one branch only: may still be the object the method was entered with
    dst.clear()
    dst.update(out)


def escaping_prestate_writes(an, mod, clsname):
    """[(qualname, Site, attr)]: a method writes IN PLACE into the object that self.<attr> held when the method was entered, and some method
    of the class returns (a view of) self.<attr> to the caller: the array an earlier call returned changes under the caller's hands"""
    quals = [q for q in mod.funcs if q.startswith(clsname + ".")]
    for node in an.class_chain(mod, clsname)[1:]:
        quals += [q for q in mod.funcs if q.startswith(node.name + ".")]
    escaping = set()
    for q in quals:
        s = an.summary(mod, q)
        if s is not None and not q.endswith(".__init__"):
            escaping |= {r[1] for r in s.returns if r[0] == "S"}
    out = []
    for q in quals:
        s = an.summary(mod, q)
        if s is None or q.endswith(".__init__"):
            continue
        mname = q.split(".")[-1]
        if mname.startswith("_") and not mname.startswith("__"):
            # a private helper works on what its caller prepared: what matters is whether the PUBLIC method that (transitively) calls it has
            # rebound the attribute before the call -- the helper's writes are propagated to its callers' summaries (Flow.repo_call) and judged there
            continue
        seen = set()
        for site in s.sites:
            for attr in sorted(site.pre & escaping):
                if (site.lineno, attr) not in seen:
                    seen.add((site.lineno, attr))
                    out.append((q, site, attr))
    return sorted(escaping), out


def public_functions():
    """[(Module, qualname)] of every function / method reachable from `import aotools` public names"""
    init = frontend.load("aotools/__init__.py")
    out = []
    seen = set()
    for name in init.public_names():
        r = frontend.resolve_name(init, name)
        if r is None:
            continue
        if r[0] == "func":
            key = (r[1].relpath, r[2])
            if key not in seen:
                seen.add(key)
                out.append((r[1], r[2]))
        elif r[0] == "class":
            mod = r[1]
            stack = [r[2]]
            done = set()
            while stack:
                c = stack.pop()
                if c in done or c not in mod.classes:
                    continue
                done.add(c)
                for q in mod.funcs:
                    if q.startswith(c + "."):
                        key = (mod.relpath, q)
                        if key not in seen:
                            seen.add(key)
                            out.append((mod, q))
                for b in mod.classes[c].bases:
                    if isinstance(b, ast.Name):
                        stack.append(b.id)
    # sub-packages / modules reachable as attributes (aotools.opticalpropagation.angularSpectrum ...)
    for rel in ("aotools/opticalpropagation.py", "aotools/fouriertransform.py", "aotools/interpolation.py", "aotools/wfs/wfslib.py"):
        mod = frontend.load(rel)
        for q in mod.funcs:
            if "." not in q and not q.startswith("_") and (rel, q) not in seen:
                seen.add((rel, q))
                out.append((mod, q))
    return out
