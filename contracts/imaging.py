"""Contracts for aotools/interpolation.py and aotools/image_processing/psf.py (property C16)."""
import z3
from aovc.check import num
from aovc.contract import verify
from aovc.values import zr, zi, Cx, s_real, s_imag, cmp
from aovc.arrays import sym_arr, Arr, const_arr
from aovc import npmodel, sigma
from contracts.pupil import circle_summary, circle_spec, PUPIL

IP = "aotools/interpolation.py"
PSF = "aotools/image_processing/psf.py"
BIN_FACTORS = (1, 2, 3, 4, 5)


def bin_obligations(chk):
    H, Wd, B = z3.Ints("H W B")
    b, r, c = z3.Ints("b r c")
    for n in BIN_FACTORS:
        for rank in (2, 3):
            holder = {}

            def run(it, n=n, rank=rank):
                for a in (H >= 1, Wd >= 1, B >= 1):
                    it.ctx.assume(a)
                shape = [H * n, Wd * n] if rank == 2 else [B, H * n, Wd * n]
                d = sym_arr("data", shape, prov={"data"})
                holder["d"] = d
                return it.call_repo(IP, "binImgs", [d, n])

            def post(pr, n=n, rank=rank):
                out = pr.value
                d = holder["d"]
                ok = isinstance(out, Arr) and out.ndim == rank
                goals = [("rank", z3.BoolVal(ok))]
                if not ok:
                    return goals
                lead = [b] if rank == 3 else []
                want_shape = ([B] if rank == 3 else []) + [H, Wd]
                goals.append(("shape=data.shape/n", z3.And(*[zi(p) == q for p, q in zip(out.shape, want_shape)])))
                inb = z3.And(r >= 0, r < H, c >= 0, c < Wd, *([b >= 0, b < B] if rank == 3 else []))
                spec = sum(zr(d.get(lead + [n * r + i, n * c + j])) for i in range(n) for j in range(n))
                goals.append(("out[...,r,c]=sum of the n x n block", z3.Implies(inb, zr(out.get(lead + [r, c])) == spec)))
                return goals
            verify(chk, "binImgs[n=%d,rank%d]" % (n, rank), IP + ":binImgs", run, post, clause="bin",
                   replay=lambda m, n=n, rank=rank: {"n": n, "rank": rank, "H": num(m.eval(H, model_completion=True)), "W": num(m.eval(Wd, model_completion=True)), "B": num(m.eval(B, model_completion=True))},
                   encoding="unrolled strided accumulation (bin factor concrete, image and stack sizes symbolic)")
    # every bin factor at once: n symbolic (loop summaries over range(n) with the strided views data[..., i::n]; the slice lengths are
    # fresh integers with their defining inequalities), the block sum as ONE Sigma term over the n x n box related to the code's
    # nested sums by the Fubini rule
    n = z3.Int("n")
    for rank in (2, 3):
        holder = {}

        def run(it, rank=rank):
            for a in (H >= 1, Wd >= 1, B >= 1, n >= 1):
                it.ctx.assume(a)
            d = sym_arr("data", ([B] if rank == 3 else []) + [H * n, Wd * n], prov={"data"})
            holder["d"] = d
            return it, it.call_repo(IP, "binImgs", [d, n])

        def post(pr, rank=rank):
            it, out = pr.value
            d = holder["d"]
            ok = isinstance(out, Arr) and out.ndim == rank
            goals = [("rank", z3.BoolVal(ok))]
            if not ok:
                return goals
            lead = [b] if rank == 3 else []
            want_shape = ([B] if rank == 3 else []) + [H, Wd]
            goals.append(("shape=data.shape/n", z3.And(*[zi(p) == q for p, q in zip(out.shape, want_shape)])))
            inb = z3.And(r >= 0, r < H, c >= 0, c < Wd, *([b >= 0, b < B] if rank == 3 else []))
            code = zr(out.get(lead + [r, c]))
            sc = sigma.find_sums(code)
            # the block sum may be enumerated in either direction along each axis (i -> n-1-i is a bijection of range(n)): the spec term
            # is built for the enumeration the code's loops use.  The probe below only CHOOSES which of the four (equal) spec terms to
            # relate to the code; the obligations of the chosen one are emitted and discharged like all others.
            chosen = None
            for fy in (False, True):
                for fx in (False, True):
                    enum = lambda idx, fy=fy, fx=fx: d.get(lead + [n * r + ((n - 1 - idx[0]) if fy else idx[0]), n * c + ((n - 1 - idx[1]) if fx else idx[1])])
                    spec_k = zr(npmodel.sigma(it, [(0, n), (0, n)], enum, "block"))
                    ss_k = sigma.find_sums(spec_k)
                    if chosen is None:
                        chosen = (spec_k, ss_k)          # default: the forward enumeration
                    if len(sc) == 1 and len(ss_k) == 1 and (fy or fx):
                        o_k, _ = sigma.fubini(it.ctx, ss_k[0], sc[0])
                        if all(it.ctx.valid(z3.Implies(inb, f)) for _, f in o_k):
                            chosen = (spec_k, ss_k)
                            break
                else:
                    continue
                break
            spec, ss = chosen
            shape_ok = len(sc) == 1 and len(ss) == 1
            goals.append(("result-is-one-nested-sum-over-the-two-loops", z3.BoolVal(shape_ok)))
            if not shape_ok:
                return goals
            o, h = sigma.fubini(it.ctx, ss[0], sc[0])
            goals += [("block." + nm, z3.Implies(inb, f)) for nm, f in o]
            goals.append(("out[...,r,c]=sum of the n x n block", z3.Implies(inb, code == spec), {"hyps": [h]}))
            return goals
        verify(chk, "binImgs[every n,rank%d]" % rank, IP + ":binImgs", run, post, clause="bin",
               replay=lambda m, rank=rank: {"n": num(m.eval(n, model_completion=True)), "rank": rank, "H": num(m.eval(H, model_completion=True)), "W": num(m.eval(Wd, model_completion=True)), "B": num(m.eval(B, model_completion=True))},
               encoding="loop summaries over range(n) with symbolic slice step, Sigma rule Fubini (bin factor, image and stack sizes all symbolic)")
    chk.math_lemmas.append("the sum over an n x n block does not depend on the direction in which each axis is enumerated (i -> n-1-i is a bijection of range(n))")
    chk.math_lemmas.append("total flux: sum of all n x n block sums of an (H n) x (W n) image = sum of the image (the blocks partition the index set; consequence of the block-sum clause)")


def zoom_obligations(chk):
    n, m, q = z3.Ints("n m q")
    n2, m2, q2 = z3.Ints("n2 m2 q2")          # second axis: arrays and targets need not be square
    a, bb = z3.Ints("a b")
    for fn in ("zoom", "zoom_rbs"):
        for dt, npdt in (("float", None), ("complex", "complex128"), ("complex", "complex64")):
            for order in (1, 3, 5):
                for scalar_size in (False, True):
                    if scalar_size and not (order == 3 and dt == "float"):
                        continue
                    holder = {}

                    def run(it, fn=fn, dt=dt, npdt=npdt, order=order, scalar_size=scalar_size):
                        it.ctx.assume(z3.And(n >= 2, m >= 2, n2 >= 2, m2 >= 2))
                        if scalar_size:
                            it.ctx.assume(m2 == m)
                        arr = sym_arr("array", [n, n2], dtype=dt, prov={"array"})
                        arr.np_dtype = npdt
                        holder["arr"] = arr
                        return it, it.call_repo(IP, fn, [arr, m if scalar_size else (m, m2)], {"order": order})

                    def post(pr, fn=fn, dt=dt, order=order):
                        it, out = pr.value
                        arr = holder["arr"]
                        ok = isinstance(out, Arr) and out.ndim == 2
                        goals = [("rank2", z3.BoolVal(ok))]
                        if not ok:
                            return goals
                        goals.append(("shape=(new0,new1)", z3.And(zi(out.shape[0]) == m, zi(out.shape[1]) == m2)))
                        nodes = npmodel.Arr([n], lambda idx: idx[0], "int")
                        nodes2 = npmodel.Arr([n2], lambda idx: idx[0], "int")
                        coord = lambda t: z3.ToReal(t) * z3.ToReal(n - 1) / z3.ToReal(m - 1)      # linspace(0, n-1, m)[t]
                        coord2 = lambda t: z3.ToReal(t) * z3.ToReal(n2 - 1) / z3.ToReal(m2 - 1)
                        inb = z3.And(a >= 0, a < m, bb >= 0, bb < m2)
                        parts = [("real", s_real), ("imag", s_imag)] if dt == "complex" else [("value", lambda v: v)]
                        val = out.get([a, bb])
                        splines = {}
                        for nm, proj in parts:
                            zpart = npmodel.map1(it, arr, proj, "float") if dt == "complex" else arr
                            splines[nm] = npmodel.SplineObj(it, nodes, nodes2, zpart, order, order)
                        if dt == "complex":
                            okc = isinstance(val, Cx)
                            goals.append(("complex-result", z3.BoolVal(okc)))
                            got = {"real": zr(val.re) if okc else None, "imag": zr(val.im) if okc else None}
                            if not okc:
                                return goals
                        else:
                            got = {"value": zr(val)}
                        for nm, _ in parts:
                            S = splines[nm].S
                            goals.append(("out[a,b].%s=spline(order %d through the %s samples)(row a, col b of the new grid)" % (nm, order, nm),
                                          z3.Implies(inb, got[nm] == S(coord(a), coord2(bb)))))
                        # consequences with the node-interpolation contract of the spline (library contract instance)
                        i_, j_ = z3.Ints("i_ j_")
                        for nm, proj in parts:
                            sp_ = splines[nm]
                            node = sp_.node_axiom(i_, j_)
                            src = zr(proj(arr.get([i_, j_])))
                            old = z3.And(i_ >= 0, i_ < n, j_ >= 0, j_ < n2)
                            goals.append(("same-size-returns-the-input.%s" % nm, z3.Implies(z3.And(m == n, m2 == n2, old, a == i_, bb == j_), got[nm] == src), {"hyps": [node]}))
                            goals.append(("old-nodes-pass-through.%s" % nm, z3.Implies(z3.And(q >= 1, q2 >= 1, m - 1 == q * (n - 1), m2 - 1 == q2 * (n2 - 1), old, a == q * i_, bb == q2 * j_), got[nm] == src), {"hyps": [node]}))
                        return goals
                    verify(chk, "%s[%s,order=%d%s]" % (fn, npdt or dt, order, ",scalar-size" if scalar_size else ""), IP + ":" + fn, run, post, clause="zoom",
                           replay=lambda mm, fn=fn, order=order, npdt=npdt: {"fn": fn, "order": order, "dtype": npdt or "float64", "n": num(mm.eval(n, model_completion=True)), "m": num(mm.eval(m, model_completion=True))},
                           encoding="pointwise; RectBivariateSpline as an uninterpreted interpolation operator with its node contract")


def azimuthal_obligations(chk):
    from aovc.npmodel import sigma as mk_sigma
    size = z3.Int("size")
    cval, lo, hi = z3.Reals("cval lo hi")
    i = z3.Int("i")
    SUM = {(PUPIL, "circle"): circle_summary}
    holder = {}

    def ring(it, k):
        a1, a0 = circle_spec(z3.ToReal(k + 1), size, 0, 0, "middle"), circle_spec(z3.ToReal(k), size, 0, 0, "middle")
        return lambda p, q: z3.If(a1(p, q), 1.0, 0.0) - z3.If(a0(p, q), 1.0, 0.0)

    for variant in ("constant", "bounded"):
        def run(it, variant=variant):
            it.ctx.assume(size >= 2)          # even or odd
            if variant == "constant":
                data = const_arr([size, size], cval)
            else:
                data = sym_arr("data", [size, size], prov={"data"})
            holder["data"] = data
            return it, it.call_repo(PSF, "azimuthal_average", [data])

        def post(pr, variant=variant):
            it, avg = pr.value
            data = holder["data"]
            ok = isinstance(avg, Arr) and avg.ndim == 1
            goals = [("returns-1d", z3.BoolVal(ok))]
            if not ok:
                return goals
            half = size / 2
            goals.append(("length=size/2", zi(avg.shape[0]) == half))
            inb = z3.And(i >= 0, i < half)
            code = zr(avg.get([i]))
            sums = sigma.find_sums(code)
            goals.append(("avg[i]=sum(ring*data)/sum(ring)", z3.BoolVal(len(sums) == 2)))
            if len(sums) != 2:
                return goals
            num_, den_ = sums[0], sums[1]
            # ring of radius i .. i+1 contains the pixel (size//2, size//2 + i) for even sizes (centre at distance sqrt(0.25 + (i+0.5)^2)) and the pixel
            # (size//2, size//2 + i + 1) for odd sizes (centre at distance exactly i + 1): the denominator is >= 1
            o1, h1 = sigma.ge_term(it.ctx, den_, [half, half + i + size % 2])
            goals += [("ring-non-empty." + nm, z3.Implies(inb, g)) for nm, g in o1]
            goals.append(("ring-non-empty", z3.Implies(inb, den_ >= 1), {"hyps": [h1]}))
            if variant == "constant":
                o2, h2 = sigma.ext(it.ctx, num_, den_, factor=cval)
                goals += [("constant." + nm, z3.Implies(inb, g)) for nm, g in o2]
                goals.append(("constant-image-gives-the-constant", z3.Implies(inb, code == cval), {"hyps": [h1, h2]}))
            else:
                o3, h3 = sigma.bounds(it.ctx, num_, den_, lo, hi)
                ra, _ = sigma.instantiate(it.ctx, num_)
                bv = [v for (v, _, _) in ra]
                data_bound = z3.And(lo <= zr(data.get(bv)), zr(data.get(bv)) <= hi)     # lo <= data <= hi everywhere, instantiated at the bound index
                goals += [("between-min-and-max." + nm, z3.Implies(inb, g), {"hyps": [data_bound]}) for nm, g in o3]
                goals.append(("every-value-between-image-min-and-max", z3.Implies(inb, z3.And(lo <= code, code <= hi)), {"hyps": [h1, h3]}))
            return goals
        verify(chk, "azimuthal_average[%s]" % variant, PSF + ":azimuthal_average", run, post, clause="azimuthal", summaries=SUM,
               encoding="loop-summary S2, callee contract circle, Sigma rules (linearity, convexity, witness)", replay=lambda m: {"size": num(m.eval(size, model_completion=True))},
               skip_defs=("divisor non-zero",))   # the only divisor is ring.sum(): its non-zeroness is the explicit goal `ring-non-empty` (witness pixel)
