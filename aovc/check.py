"""Check driver: obligations -> z3 (cvc5 on unknown) -> verdicts, replay, known findings, evidence.

Exit codes: 0 all claimed obligations discharged; 1 violation (prints `VIOLATION property=<id> replay=<path>`);
2 undecided (an obligation neither proved nor refuted); 3 checker crash / code outside the verifier's reach
with no bounded stand-in able to decide.
"""
import hashlib, json, os, subprocess, sys, tempfile, time, traceback
import z3

from . import frontend
from .values import Unsupported, used_ufs

VERIF = os.path.dirname(os.path.dirname(os.path.abspath(__file__)))
NATIVE_PY = os.environ.get("AOVC_NATIVE_PY", "/venv/bin/python")
CVC5 = "/usr/bin/cvc5"

ASSUMPTIONS = {
    "A-REAL": "float/complex arithmetic is arithmetic over the reals (no rounding, overflow, NaN); float literals are the decimals they are written as",
    "A-INT": "NumPy int64 values behave as mathematical integers",
    "A-PY": "Python semantics as encoded in aovc/symex.py (evaluation order, / true division, // and % floor, int() truncation, round half-even, unbounded int)",
    "A-NP": "the NumPy/SciPy/stdlib contracts of aovc/npmodel.py (and of the encoding modules) for every library call listed under trusted_calls",
    "A-JIT": "numba @jit/@njit preserves the semantics of the Python body; prange is range",
    "A-MATH": "named mathematical lemmas used but not re-proved (listed per obligation)",
    "A-ENGINE": "the VC generator itself (aovc/*.py: symbolic executor, loop summaries, encodings) is trusted code; kept honest by vacuity checks, seeded mutants and the native differential runs",
}


class Obligation:
    def __init__(self, name, hyps, goal, function, encoding, clause, replay=None, lemmas=None, expect="unsat", kind="post"):
        self.name = name
        self.hyps = list(hyps)
        self.goal = goal
        self.function = function
        self.encoding = encoding
        self.clause = clause          # native clause name used for replay
        self.replay = replay          # callable(model) -> inputs dict, or None
        self.lemmas = lemmas or []
        self.expect = expect          # "unsat" (proof obligation) or "sat" (vacuity / cover check)
        self.kind = kind
        self.verdict = None
        self.backend = None
        self.solver_s = 0.0
        self.model = None
        self.detail = None

    def smt2(self):
        s = z3.Solver()
        for h in self.hyps:
            s.add(h)
        if self.expect == "unsat":
            s.add(z3.Not(self.goal) if not isinstance(self.goal, bool) else z3.BoolVal(not self.goal))
        else:
            s.add(self.goal if not isinstance(self.goal, bool) else z3.BoolVal(self.goal))
        return s.to_smt2()


_POOL_OBLS, _POOL_CHK = None, None


def _pool_solve(i):
    o = _POOL_OBLS[i]
    try:
        _POOL_CHK.solve_one(o)
    except Exception as ex:
        return ("error", None, 0.0, repr(ex), None)
    return (o.verdict, o.backend, o.solver_s, o.detail, getattr(o, "cross", None))


def uf_axiom_instances(terms):
    """defining axioms of the uninterpreted sqrt, instantiated for every sqrt(t) application occurring in the obligation
    (terms are renamed / substituted after creation, so the instances recorded at creation time may not match)"""
    out, seen, stack = [], set(), [t for t in terms if z3.is_expr(t)]
    while stack:
        t = stack.pop()
        if t.get_id() in seen:
            continue
        seen.add(t.get_id())
        if z3.is_quantifier(t):
            continue
        if z3.is_app(t):
            if t.decl().name() == "sqrt" and t.num_args() == 1:
                a = t.arg(0)
                out.append(z3.Implies(a >= 0, z3.And(t >= 0, t * t == a)))
            if t.decl().name() == "fact" and t.num_args() == 1:
                out.append(z3.Implies(t.arg(0) >= 0, t >= 1))
            if t.decl().name() == "gamma" and t.num_args() == 1:
                out.append(z3.Implies(t.arg(0) > 0, t > 0))
            if t.decl().name() == "pow" and t.num_args() == 2:
                out.append(z3.Implies(t.arg(0) > 0, t > 0))
            if t.decl().name() == "PI" and t.num_args() == 0:
                from .values import PI_AXIOMS
                out.extend(PI_AXIOMS)
            stack.extend(t.children())
    return out


def model_to_dict(m):
    out = {}
    for d in m.decls():
        try:
            if d.arity() == 0:
                out[d.name()] = str(m[d])
            else:
                fi = m[d]
                entries = []
                if isinstance(fi, z3.FuncInterp):
                    for k in range(fi.num_entries()):
                        e = fi.entry(k)
                        entries.append(([str(e.arg_value(j)) for j in range(e.num_args())], str(e.value())))
                    out[d.name()] = {"entries": entries, "else": str(fi.else_value())}
                else:
                    out[d.name()] = {"lambda": str(fi)}
        except Exception as ex:     # pragma: no cover
            out[d.name()] = "<%s>" % ex
    return out


def num(s):
    """model value string -> python float / int"""
    from fractions import Fraction
    s = str(s).replace("?", "")
    try:
        if "/" in s:
            return float(Fraction(s))
        if "." in s or "e" in s:
            return float(s)
        return int(s)
    except Exception:
        return s


class Check:
    def __init__(self, prop_id, title, argv=None):
        import argparse
        ap = argparse.ArgumentParser()
        ap.add_argument("--tier", default=os.environ.get("VERIF_TIER", "quick"))
        ap.add_argument("--replay", default=None)
        ap.add_argument("--only", default=None)
        args = ap.parse_args(argv)
        self.prop_id = prop_id
        self.title = title
        self.tier = args.tier if args.tier in ("quick", "thorough") else "quick"
        self.replay_path = args.replay
        self.only = args.only
        self.seed = int(os.environ.get("VERIF_SEED", "0") or 0)
        self.timeout_ms = 20000 if self.tier == "quick" else 120000
        self.obligations = []
        self.bounded = []          # bounded stand-ins: dict(name, bound, result, evaluations)
        self.not_decided = []      # clauses outside this family
        self.known = []            # known findings reported this run
        self.functions = {}        # "relpath:qualname" -> {sha256, dropped}
        self.trusted_calls = set()
        self.summaries_used = set()
        self.assumptions_used = set(["A-ENGINE", "A-PY"])
        self.math_lemmas = []
        self.notes = []
        self.unsupported = []      # (where, message)
        self.violations = []       # (obligation name, replay path, reproduced)
        self.t0 = time.time()
        self.native_evals = 0
        self.samples = []
        self._borrow = None        # property id whose contracts / native clauses are being reused (see borrow())
        self._bridged = set()      # native clauses whose family has already been run in this check

    # ------------------------------------------------------------------ building
    def borrow(self, prop_id):
        """context manager: obligations and stand-ins added inside come from the contracts of another property on which this
        property's statement depends; their native clauses live in native/<prop_id>.py (clause names are prefixed '<prop_id>:')"""
        chk = self

        class _B:
            def __enter__(self_):
                self_.prev = chk._borrow
                chk._borrow = prop_id
                chk.__dict__.setdefault("_borrowed_props", set()).add(prop_id)

            def __exit__(self_, *a):
                chk._borrow = self_.prev
                return False
        return _B()

    def _cl(self, clause):
        if clause is not None and self._borrow and ":" not in clause:
            return self._borrow + ":" + clause
        return clause

    def add(self, name, hyps, goal, function, encoding="qf-arith", clause=None, replay=None, lemmas=None, kind="post"):
        if self.only and self.only not in name:
            return None
        clause = self._cl(clause)
        if self._borrow:
            name = "[%s] %s" % (self._borrow, name)
        hyps = list(hyps) + uf_axiom_instances([goal] + list(hyps))
        o = Obligation(name, hyps, goal, function, encoding, clause, replay, lemmas, "unsat", kind)
        self.obligations.append(o)
        return o

    def add_cover(self, name, hyps, goal, function):
        """vacuity / reachability check: hyps /\\ goal must be satisfiable"""
        if self.only and self.only not in name:
            return None
        o = Obligation(name, hyps, goal, function, "cover", None, None, None, "sat", "cover")
        self.obligations.append(o)
        return o

    def record_path(self, pr):
        """collect function hashes, trusted calls, notes from an explored path"""
        for (rel, q), dropped in pr.interp.functions_executed.items():
            mod = frontend.load(rel)
            self.functions["%s:%s" % (rel, q)] = {"sha256": mod.sha256, "dropped": dropped}
            if any(d.startswith("decorator:") and ("jit" in d) for d in dropped):
                self.assumptions_used.add("A-JIT")
        self.trusted_calls |= pr.ctx.trusted_calls
        self.summaries_used |= pr.ctx.summaries_used
        for n in pr.ctx.notes:
            if n not in self.notes:
                self.notes.append(n)
        if pr.ctx.trusted_calls:
            self.assumptions_used.add("A-NP")

    def definedness_obligations(self, prefix, pr, function, clause=None, replay=None, skip=()):
        """one obligation per recorded definedness condition of a path"""
        seen = set()
        k = 0
        for (f, msg, pc, lineno, func) in pr.ctx.defs:
            if any(s in msg for s in skip):
                continue
            key = (f.sexpr() if hasattr(f, "sexpr") else str(f), tuple(p.sexpr() for p in pc))
            if key in seen:
                continue
            seen.add(key)
            k += 1
            self.add("%s.defined.%d[%s@%s:%d]" % (prefix, k, msg, func.split(":")[-1], lineno),
                     list(pr.ctx.assumptions) + list(pc), f, function, "definedness", clause, replay, kind="definedness")

    def frame_obligations(self, prefix, pr, function, clause=None, replay=None):
        """modifies-nothing clause: every write into memory owned by a parameter is a failed obligation
        unless its path condition is infeasible"""
        k = 0
        for (param, what, pc, lineno, func) in pr.ctx.frame_events:
            k += 1
            self.add("%s.frame.%d[%s writes parameter %s@%s:%d]" % (prefix, k, what, param, func.split(":")[-1], lineno),
                     list(pr.ctx.assumptions) + list(pc), z3.BoolVal(False), function, "frame", clause, replay, kind="frame")

    # ------------------------------------------------------------------ solving
    def solve_one(self, o):
        t0 = time.time()
        s = z3.Solver()
        s.set("timeout", self.timeout_ms if o.expect == "unsat" else min(self.timeout_ms, 4000))
        for h in o.hyps:
            s.add(h)
        g = o.goal
        if isinstance(g, bool):
            g = z3.BoolVal(g)
        s.add(z3.Not(g) if o.expect == "unsat" else g)
        r = s.check()
        o.backend = "z3-%s" % z3.get_version_string()
        if r == z3.unknown and o.expect == "unsat":
            # the same query re-parsed from its SMT-LIB text in a fresh z3 context (term ordering no longer depends on the order in
            # which this process happened to build its terms), then with another random seed: verdicts must not hinge on such accidents
            for seed in (0, 7):
                try:
                    c2 = z3.Context()
                    s2 = z3.Solver(ctx=c2)
                    s2.set("timeout", max(2000, self.timeout_ms // 2))
                    if seed:
                        s2.set("smt.random_seed", seed)
                    s2.from_string(o.smt2())
                    r_ = s2.check()
                    if r_ == z3.unsat:
                        r = z3.unsat
                        o.backend = "z3-%s (fresh context%s)" % (z3.get_version_string(), ", seed %d" % seed if seed else "")
                        break
                    if r_ == z3.sat:
                        break        # a refutation needs its model in the main context: leave it to cvc5 / the native side
                except Exception:
                    break
        if r == z3.unknown and o.expect == "unsat":
            r2 = self.cvc5(o)
            if r2 is not None:
                r = r2
                o.backend = "cvc5-1.0.3(cli)"
        if self.tier == "thorough" and r == z3.unsat and o.expect == "unsat" and not os.environ.get("AOVC_NO_CROSSCHECK"):
            # second opinion: the other solver must not refute what z3 proved (its `unknown` is recorded, a `sat` is a disagreement)
            save_t = self.timeout_ms
            self.timeout_ms = 10000
            try:
                r2 = self.cvc5(o, want_unknown=True)
            finally:
                self.timeout_ms = save_t
            o.cross = {"sat": "DISAGREES", "unsat": "agrees", None: "no answer", "unknown": "unknown"}.get(r2, str(r2))
            if r2 == "sat":
                r = z3.unknown
                o.detail = "z3 says unsat, cvc5 says sat: solver disagreement"
        o.solver_s = time.time() - t0
        if r == z3.sat or r == "sat":
            o.verdict = "sat"
            if r == z3.sat:
                try:
                    o.model = s.model()
                except Exception:
                    o.model = None
        elif r == z3.unsat or r == "unsat":
            o.verdict = "unsat"
        else:
            o.verdict = "unknown"
            try:
                o.detail = s.reason_unknown()
            except Exception:
                pass
        return o.verdict

    def solve_all(self):
        """discharge every obligation; with many obligations the work is spread over forked worker processes (each child
        solves obligation i of the inherited list and returns only the verdict); refuted ones are re-solved here for their model"""
        global _POOL_OBLS, _POOL_CHK
        obls = self.obligations
        jobs = int(os.environ.get("AOVC_JOBS", "0") or 0) or min(16, os.cpu_count() or 1)
        if len(obls) < 24 or jobs <= 1:
            for o in obls:
                self._solve_guarded(o)
            return
        import multiprocessing as mp
        _POOL_OBLS, _POOL_CHK = obls, self
        try:
            ctx = mp.get_context("fork")
            with ctx.Pool(jobs) as pool:
                results = pool.map(_pool_solve, range(len(obls)), chunksize=1)
        except Exception as ex:      # pragma: no cover - fall back to sequential solving
            self.notes.append("parallel solving failed (%r); solved sequentially" % ex)
            results = None
        if results is None:
            for o in obls:
                self._solve_guarded(o)
            return
        for o, (verdict, backend, secs, detail, cross) in zip(obls, results):
            o.verdict, o.backend, o.solver_s, o.detail = verdict, backend, secs, detail
            if cross is not None:
                o.cross = cross
            if verdict in ("sat", "error") and o.expect == "unsat":
                self._solve_guarded(o)       # in this process, to have the model for replay

    def _solve_guarded(self, o):
        try:
            self.solve_one(o)
        except Exception as ex:
            o.verdict = "error"
            o.detail = repr(ex)

    def cvc5(self, o, want_unknown=False):
        if not os.path.exists(CVC5):
            return None
        try:
            txt = "(set-logic ALL)\n" + o.smt2()
            with tempfile.NamedTemporaryFile("w", suffix=".smt2", delete=False) as fh:
                fh.write(txt)
                path = fh.name
            try:
                p = subprocess.run([CVC5, "--lang=smt2", "--tlimit=%d" % self.timeout_ms, path], capture_output=True, text=True,
                                   timeout=self.timeout_ms / 1000.0 + 10)
                out = p.stdout.strip().splitlines()
                if out and out[0] in ("sat", "unsat"):
                    return out[0]
                if want_unknown:
                    return "unknown"
            finally:
                os.unlink(path)
        except Exception:
            return None
        return None

    # ------------------------------------------------------------------ native side
    def native(self, mode, clause, inputs=None, timeout=600):
        """run /verif/native/<id>.py under the repo's interpreter: returns dict"""
        owner = self.prop_id
        clause = self._cl(clause)
        if clause is not None and ":" in clause and clause.split(":")[0][:1] == "C" and clause.split(":")[0][1:].isdigit():
            owner, clause = clause.split(":", 1)
        script = os.path.join(VERIF, "native", owner + ".py")
        env = dict(os.environ)
        env["PYTHONPATH"] = frontend.REPO
        env["AOVC_REPO"] = frontend.REPO
        env["VERIF_SEED"] = str(self.seed)
        env["VERIF_TIER"] = self.tier
        env.setdefault("NUMBA_DISABLE_JIT", "0")
        payload = json.dumps({"mode": mode, "clause": clause, "inputs": inputs, "tier": self.tier, "seed": self.seed})
        # the native scripts are deterministic for a given (mode, clause, inputs, tier, seed): within one run the same request is
        # evaluated once (a change that fails many obligations of one clause would otherwise re-run the family once per obligation)
        memo = self.__dict__.setdefault("_native_memo", {})
        mkey = (owner, payload)
        if mkey in memo:
            return dict(memo[mkey])
        res = self._native_run(script, payload, env, timeout, clause, owner)
        if res.get("status") != "error":
            memo[mkey] = dict(res)
        return res

    def _native_run(self, script, payload, env, timeout, clause, owner):
        try:
            p = subprocess.run([NATIVE_PY, "-W", "ignore", script], input=payload, capture_output=True, text=True, timeout=timeout,
                               env=env, cwd=VERIF)
        except subprocess.TimeoutExpired:
            return {"status": "error", "error": "native timeout"}
        lines = [l for l in p.stdout.splitlines() if l.startswith("{")]
        if p.returncode != 0 or not lines:
            return {"status": "error", "error": (p.stderr or p.stdout)[-2000:]}
        try:
            res = json.loads(lines[-1])
            if isinstance(res, dict) and clause is not None:
                res["clause_full"] = clause if owner == self.prop_id else "%s:%s" % (owner, clause)     # what --replay needs to find the clause again
            return res
        except Exception as ex:
            return {"status": "error", "error": "bad native output: %s" % ex}

    # ------------------------------------------------------------------ known findings
    def load_known(self):
        path = os.path.join(VERIF, "known_findings.json")
        if not os.path.exists(path):
            return []
        with open(path) as fh:
            data = json.load(fh)
        props = {self.prop_id} | set(getattr(self, "_borrowed_props", ()))      # findings listed under a property whose contracts are re-checked here apply to those contracts
        return [e for e in data.get("findings", []) if e.get("property") in props]

    def bridge(self, clause, name, function=""):
        """floating-point / dtype bridge for a clause that was proved over the reals and mathematical integers (A-REAL, A-INT):
        the same clause evaluated natively (NumPy dtypes, IEEE arithmetic) on its deterministic family, once per clause.  Bounded."""
        clause = self._cl(clause)
        if clause is None or clause in self._bridged or os.environ.get("AOVC_NO_BRIDGE"):
            return
        self.bounded_native("native bridge (IEEE / dtype semantics) for the clause proved over the reals: %s" % name, clause, "see native/%s.py family '%s'" % (
            clause.split(":")[0] if ":" in clause else self.prop_id, clause.split(":")[-1]), function, soft=True)

    def bounded_native(self, name, clause, bound, function="", soft=False):
        """a bounded stand-in: the native clause evaluated on its deterministic family of inputs (never counted as proved)"""
        clause = self._cl(clause)
        self._bridged.add(clause)
        fam = self.native("family", clause, None)
        n = int(fam.get("evaluations", 0) or 0)
        self.native_evals += n
        self.bounded.append({"name": name, "function": function, "clause": clause, "bound": bound, "evaluations": n, "result": fam.get("status"), "detail": fam.get("message")})
        if fam.get("status") == "fail":
            if fam.get("finding") and self.matches_known([e for e in self.load_known() if e.get("status") == "open"], None, fam):
                return
            path = self.write_replay(None, fam.get("inputs"), fam, True)
            self.violations.append((name, path, True))
            print("FAILED bounded stand-in %s (%s): %s" % (name, clause, fam.get("message", "")))
            print("VIOLATION property=%s replay=%s" % (self.prop_id, os.path.relpath(path, VERIF)))
        elif fam.get("status") != "pass":
            if soft:
                self.notes.append("native bridge for clause %s did not run: %s" % (clause, str(fam.get("error"))[:200]))
            else:
                self.unsupported.append((name, "native family did not run: %s" % str(fam.get("error"))[:300]))

    def confirm_known(self, fid, clause, inputs):
        """an open finding: re-confirm its recorded witness natively and print the KNOWN-FINDING line; a failure of the same
        clause that is NOT tagged with this finding is a new violation"""
        entries = [e for e in self.load_known() if e.get("id") == fid and e.get("status") == "open"]
        if not entries:
            return
        nat = self.native("replay", clause, inputs)
        self.native_evals += 1
        if nat.get("status") == "fail" and nat.get("finding") == fid:
            line = "%s [witness: %s]" % (entries[0].get("what"), nat.get("message", ""))
            if line not in self.known:
                self.known.append(line)
        elif nat.get("status") == "fail":
            path = self.write_replay(None, nat.get("inputs"), nat, True)
            self.violations.append((clause, path, True))
            print("FAILED native clause %s: %s" % (clause, nat.get("message", "")))
            print("VIOLATION property=%s replay=%s" % (self.prop_id, os.path.relpath(path, VERIF)))
        elif nat.get("status") == "pass":
            self.notes.append("listed finding %s no longer reproduces on this tree" % fid)
        else:
            self.unsupported.append((clause, "native confirmation of %s failed to run: %s" % (fid, nat.get("error"))))

    # ------------------------------------------------------------------ reporting
    def write_replay(self, o, inputs, native_result, reproduced):
        os.makedirs(os.path.join(VERIF, "replays"), exist_ok=True)
        body = {
            "property": self.prop_id,
            "obligation": o.name if o is not None else None,
            "function": o.function if o is not None else None,
            "clause": o.clause if o is not None else (native_result or {}).get("clause_full", (native_result or {}).get("clause")),
            "encoding": o.encoding if o is not None else None,
            "reproduced_on_real_code": bool(reproduced),
            "inputs": inputs,
            "native": native_result,
            "solver": {"backend": o.backend, "verdict": o.verdict, "model": model_to_dict(o.model) if (o is not None and o.model is not None) else None,
                       "smt2_sha256": hashlib.sha256(o.smt2().encode()).hexdigest()} if o is not None else None,
            "repo": frontend.REPO,
        }
        h = hashlib.sha256(json.dumps(body, sort_keys=True, default=str).encode()).hexdigest()[:10]
        safe = "".join(c if c.isalnum() or c in "._-" else "_" for c in (o.name if o is not None else "native"))[:80]
        path = os.path.join(VERIF, "replays", "%s-%s-%s.json" % (self.prop_id, safe, h))
        with open(path, "w") as fh:
            json.dump(body, fh, indent=1, default=str)
        return path

    def finish(self):
        """solve everything, handle refutations, write evidence, return exit code"""
        exit_code = 1 if self.violations else 0
        proof_obls = [o for o in self.obligations if o.expect == "unsat"]
        covers = [o for o in self.obligations if o.expect == "sat"]
        self.solve_all()
        # vacuity
        for o in covers:
            if o.verdict == "unsat":
                print("VACUOUS cover=%s verdict=%s (preconditions contradictory or postcondition unreachable)" % (o.name, o.verdict))
                exit_code = max(exit_code, 3)
            elif o.verdict != "sat":
                self.notes.append("reachability of %s not confirmed by the solver (%s)" % (o.name, o.verdict))
        known = self.load_known()
        open_known = [e for e in known if e.get("status") == "open"]
        # refutations
        for o in proof_obls:
            if o.verdict == "unsat":
                continue
            if o.verdict == "sat":
                inputs = None
                nat = None
                reproduced = False
                if o.replay is not None and o.model is not None:
                    try:
                        inputs = o.replay(o.model)
                    except Exception as ex:
                        inputs = {"error": "model extraction failed: %r" % ex}
                if o.clause is not None:
                    if inputs is not None and "error" not in inputs:
                        nat = self.native("replay", o.clause, inputs)
                        self.native_evals += 1
                        reproduced = nat.get("status") == "fail"
                    if not reproduced:
                        fam = self.native("family", o.clause, None)
                        self.native_evals += int(fam.get("evaluations", 0) or 0)
                        if fam.get("status") == "fail" and not fam.get("finding"):
                            # (a family failure tagged as a listed finding is a different, already recorded defect: it does not
                            #  reproduce THIS obligation's failure)
                            nat = fam
                            inputs = fam.get("inputs")
                            reproduced = True
                        elif nat is None:
                            nat = fam
                path = self.write_replay(o, inputs, nat, reproduced)
                self.violations.append((o.name, path, reproduced))
                tail = "" if reproduced else " no-failing-input-found"
                print("FAILED obligation=%s function=%s verdict=sat" % (o.name, o.function))
                print("VIOLATION property=%s replay=%s%s" % (self.prop_id, os.path.relpath(path, VERIF), tail))
                exit_code = max(exit_code, 1)
            else:
                # unknown: try the bounded native family before giving up
                fam = self.native("family", o.clause, None) if o.clause else {"status": "none"}
                self.native_evals += int(fam.get("evaluations", 0) or 0)
                if fam.get("status") == "fail" and not fam.get("finding"):
                    path = self.write_replay(o, fam.get("inputs"), fam, True)
                    self.violations.append((o.name, path, True))
                    print("FAILED obligation=%s function=%s verdict=%s (refuted natively)" % (o.name, o.function, o.verdict))
                    print("VIOLATION property=%s replay=%s" % (self.prop_id, os.path.relpath(path, VERIF)))
                    exit_code = max(exit_code, 1)
                else:
                    print("UNDECIDED obligation=%s function=%s verdict=%s %s" % (o.name, o.function, o.verdict, o.detail or ""))
                    exit_code = max(exit_code, 2) if exit_code != 1 else 1
        for (where, msg) in self.unsupported:
            print("UNSUPPORTED %s: %s" % (where, msg))
        if self.unsupported and exit_code == 0:
            exit_code = 3
        if not proof_obls and not self.bounded:
            print("NO-OBLIGATIONS: a run that generates nothing proves nothing")
            exit_code = max(exit_code, 3)
        for e in self.known:
            print("KNOWN-FINDING: property=%s %s" % (self.prop_id, e))
        if self.tier == "thorough" and not os.environ.get("AOVC_NO_SELFTEST"):
            self.seeded_selftest()
        if not os.environ.get("AOVC_NO_EVIDENCE"):
            self.write_evidence(exit_code)
        dis = sum(1 for o in proof_obls if o.verdict == "unsat")
        print("%s %s: %d/%d obligations discharged, %d cover checks, %d bounded stand-ins, %d native evaluations, %.1fs -> exit %d" % (
            self.prop_id, self.tier, dis, len(proof_obls), len(covers), len(self.bounded), self.native_evals, time.time() - self.t0, exit_code))
        return exit_code

    def seeded_selftest(self):
        """thorough tier: honesty check of this check itself.  Every recorded property-breaking change of this property
        (seeded/<id>-m*/patch.diff) is applied to a scratch copy of the CURRENT tree (outside /repo and /verif, removed afterwards)
        and the quick check is run on it; it must report a violation.  Survivors are recorded in the evidence (they do not change
        the verdict on the current tree: the property is judged by the obligations above, not by the self-test)."""
        import glob, shutil
        self.selftest = []
        patches = sorted(glob.glob(os.path.join(VERIF, "seeded", self.prop_id + "-m*", "patch.diff"))) + \
            sorted(glob.glob(os.path.join(VERIF, "benign", self.prop_id + "-b*", "patch.diff")))
        def one(patch):
            name = os.path.basename(os.path.dirname(patch))
            benign = os.path.basename(os.path.dirname(os.path.dirname(patch))) == "benign"
            tmp = tempfile.mkdtemp(prefix="aovc_selftest_")
            rec = {"change": name}
            try:
                shutil.copytree(os.path.join(frontend.REPO, "aotools"), os.path.join(tmp, "aotools"),
                                ignore=shutil.ignore_patterns("__pycache__", "*.pyc"))
                p = subprocess.run(["git", "apply", "--unsafe-paths", "--directory=" + tmp, patch], cwd=tmp, capture_output=True, text=True)
                if p.returncode != 0:
                    p = subprocess.run(["patch", "-p1", "-s", "-i", patch], cwd=tmp, capture_output=True, text=True)
                if p.returncode != 0:
                    rec.update(result="patch does not apply to the current tree (skipped)")
                    return rec, benign
                env = dict(os.environ, AOVC_REPO=tmp, AOVC_NO_EVIDENCE="1", AOVC_NO_SELFTEST="1")
                q = subprocess.run([sys.executable, os.path.join(VERIF, "checks", self.prop_id + ".py"), "--tier", "quick"],
                                   cwd=VERIF, env=env, capture_output=True, text=True, timeout=3600)
                vio = [l for l in q.stdout.splitlines() if l.startswith("VIOLATION ")]
                failed = [l for l in q.stdout.splitlines() if l.startswith("FAILED ")]
                rec.update(exit=q.returncode, benign=benign, reported=bool(vio) and q.returncode == 1,
                           first=(failed[0] if failed else (vio[0] if vio else q.stdout.strip().splitlines()[-1:] or [""]))[:300] if (failed or vio) else "")
            except Exception as ex:
                rec.update(result="self-test error: %r" % ex)
            finally:
                shutil.rmtree(tmp, ignore_errors=True)
            return rec, benign
        from concurrent.futures import ThreadPoolExecutor
        with ThreadPoolExecutor(max_workers=4) as ex:          # (each run is a subprocess; four at a time keep the solver budgets honest on 16 cores)
            results = list(ex.map(one, patches))
        for rec, benign in results:
            name = rec["change"]
            self.selftest.append(rec)
            if "result" in rec:
                print("SELFTEST change=%s -> %s" % (name, rec["result"]))
            elif benign:
                print("SELFTEST behaviour-preserving change=%s -> exit %s%s" % (name, rec.get("exit"), "  FALSE ALARM" if rec.get("reported") else ""))
            else:
                print("SELFTEST change=%s -> %s" % (name, "reported (exit 1)" if rec.get("reported") else "NOT reported: %s" % rec))
        surv = [r["change"] for r in self.selftest if "reported" in r and not r["reported"] and not r.get("benign")]
        if surv:
            self.notes.append("self-test: seeded changes NOT reported by this check: %s" % ", ".join(surv))
        fa = [r["change"] for r in self.selftest if r.get("benign") and r.get("reported")]
        if fa:
            self.notes.append("self-test: behaviour-preserving changes reported as violations (false alarms of this check): %s" % ", ".join(fa))

    def matches_known(self, open_known, o, nat):
        """a natively reproduced failure is a listed finding iff the native side tags it with that finding's id
        (the native clause decides the tag from the failing input, so a different failure of the same clause is not excused)"""
        tag = (nat or {}).get("finding")
        for e in open_known:
            if tag is not None and tag == e.get("id"):
                line = "%s%s [witness: %s]" % ("" if e.get("property") == self.prop_id else "[listed under property %s, whose contract is re-checked here] " % e.get("property"),
                                               e.get("what"), (nat or {}).get("message", ""))
                if line not in self.known:
                    self.known.append(line)
                return True
        return False

    def write_evidence(self, exit_code):
        proof_obls = [o for o in self.obligations if o.expect == "unsat"]
        dis = sum(1 for o in proof_obls if o.verdict == "unsat")
        per = []
        for o in self.obligations:
            per.append({"name": o.name, "function": o.function, "encoding": o.encoding, "kind": o.kind, "backend": o.backend,
                        "verdict": ("proved" if o.verdict == "unsat" else o.verdict) if o.expect == "unsat" else ("reachable" if o.verdict == "sat" else o.verdict),
                        "solver_s": round(o.solver_s, 4), "lemmas": o.lemmas, **({"cvc5_crosscheck": o.cross} if getattr(o, "cross", None) else {})})
        samples = list(self.samples)
        for o in proof_obls[:2]:
            txt = o.smt2()
            samples.append({"obligation": o.name, "smt2": txt if len(txt) < 6000 else txt[:6000] + "\n; ... truncated"})
        assumptions = [k + ": " + ASSUMPTIONS[k] for k in sorted(self.assumptions_used)]
        for l in self.math_lemmas:
            assumptions.append("A-MATH lemma: " + l)
        ufs = used_ufs()
        if ufs:
            assumptions.append("uninterpreted real functions (no laws beyond those stated as axioms in the obligations): " + ", ".join(ufs))
        if self.trusted_calls:
            assumptions.append("library contracts used (trusted): " + ", ".join(sorted(self.trusted_calls)))
        if self.summaries_used:
            assumptions.append("callee contracts used at call sites (verified by their own obligations): " + ", ".join(sorted(self.summaries_used)))
        ev = {
            "property_id": self.prop_id,
            "tier": self.tier,
            "seed": self.seed,
            "level": "proof",
            "coverage": {
                "obligations": len(proof_obls),
                "discharged": dis,
                "checker_cmd": "./check %s --tier %s" % (self.prop_id, self.tier),
                "trusted_base": sorted(self.assumptions_used) + ["z3 %s" % z3.get_version_string(), "cvc5 1.0.3 (only for z3 unknowns)"],
                "samples": samples,
                "functions_under_contract": self.functions,
                "per_obligation": per,
                "cover_checks": sum(1 for o in self.obligations if o.expect == "sat"),
                "bounded_standins": self.bounded,
                "not_decided_clauses": self.not_decided,
                "known_findings_reported": self.known,
                "unsupported": ["%s: %s" % u for u in self.unsupported],
                "native_evaluations": self.native_evals,
                "solver_time_s": round(sum(o.solver_s for o in self.obligations), 3),
                "notes": self.notes,
                "seeded_selftest": getattr(self, "selftest", None),
                "repo": frontend.REPO,
                "exit_code": exit_code,
            },
            "assumptions": assumptions,
            "wall_s": round(time.time() - self.t0, 3),
            "violations": len(self.violations),
        }
        os.makedirs(os.path.join(VERIF, "evidence"), exist_ok=True)
        with open(os.path.join(VERIF, "evidence", self.prop_id + ".json"), "w") as fh:
            json.dump(ev, fh, indent=1, default=str)


def run_check(prop_id, title, build, argv=None):
    """build(chk) adds obligations; handles crashes as exit 3"""
    chk = Check(prop_id, title, argv)
    if chk.replay_path:
        with open(chk.replay_path if os.path.isabs(chk.replay_path) else os.path.join(VERIF, chk.replay_path)) as fh:
            body = json.load(fh)
        res = chk.native("replay", body.get("clause"), body.get("inputs"))
        print(json.dumps(res, indent=1))
        if res.get("status") == "fail":
            print("VIOLATION property=%s replay=%s" % (prop_id, chk.replay_path))
            return 1
        return 0 if res.get("status") == "pass" else 3
    try:
        build(chk)
        if prop_id not in ("C06", "C20"):
            from contracts import purity
            purity.auto(chk)
    except frontend.SourceError as ex:
        print("SOURCE-ERROR %s" % ex)
        chk.unsupported.append(("frontend", str(ex)))
    except Exception:
        traceback.print_exc()
        chk.unsupported.append(("checker", "crash: " + traceback.format_exc().splitlines()[-1]))
        code = chk.finish()
        return max(code, 3) if code != 1 else 1
    return chk.finish()
