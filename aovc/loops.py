"""Loops.

* literal / concrete trip counts are unrolled completely (complete, not bounded);
* `for` loops over a symbolic range are replaced by a *summary* (schemas S1..S5 of DESIGN.md 4.1):
  the body is executed ONCE for a generic iteration k (lo <= k < hi, on the range's grid) from a
  state in which every loop-carried location is replaced by its per-iteration abstraction, and the
  effect of all iterations is assembled from that generic effect.  The applicability conditions
  (independence of iterations, injectivity of store indices) are emitted as obligations;
* `while` loops with a symbolic condition need an annotation (explicit invariant) or are unsupported.
Termination is not verified.
"""
import ast
import z3

from .values import *      # noqa
from .values import _num
from .arrays import Arr, const_arr, dim_eq
from .symex import (SymRange, BreakEx, ContinueEx, ReturnEx, Frame, Obj, Unsupported as _U, MAX_UNROLL)
from . import npmodel


def iterate_concrete(it, iterable):
    """python list of items for an iterable with a concrete trip count, or None"""
    if isinstance(iterable, (list, tuple, range)):
        return list(iterable)
    if isinstance(iterable, npmodel.Enumerate):
        inner = iterate_concrete(it, iterable.inner)
        if inner is None:
            return None
        return [(k, v) for k, v in enumerate(inner)]
    if isinstance(iterable, npmodel.Zip):
        inners = [iterate_concrete(it, x) for x in iterable.inners]
        if any(x is None for x in inners):
            return None
        return [tuple(t) for t in zip(*inners)]
    if isinstance(iterable, Arr):
        if iterable.ndim == 0:
            raise npmodel.PyException("TypeError", "iteration over a 0-d array")
        d0 = iterable.shape[0]
        if is_conc(d0):
            return [npmodel.getitem(it, iterable, (k,)) for k in range(int(d0))]
        return None
    if isinstance(iterable, SymRange):
        return None
    if isinstance(iterable, dict):
        return list(iterable.keys())
    raise Unsupported("iteration over %s" % type(iterable).__name__)


def exec_for(it, s, fr):
    iterable = it.eval(s.iter, fr)
    items = iterate_concrete(it, iterable)
    if items is not None:
        if len(items) > MAX_UNROLL:
            raise Unsupported("loop with %d iterations" % len(items))
        broke = False
        for x in items:
            it.assign(s.target, x, fr)
            try:
                it.exec_block(s.body, fr)
            except BreakEx:
                broke = True
                break
            except ContinueEx:
                continue
        if not broke and s.orelse:
            it.exec_block(s.orelse, fr)
        return
    from . import loopsum
    return loopsum.summarise_for(it, s, fr, iterable)


def exec_while(it, s, fr):
    # concrete unrolling while the condition is decided by the path condition
    n = 0
    while True:
        c = it.truth(it.eval(s.test, fr))
        d = c if isinstance(c, bool) else it.ctx.decide(c)
        if d is None:
            key = (it.ctx.func, s.lineno)
            ann = it.loop_annotations.get(key)
            if ann is None:
                raise Unsupported("while loop with symbolic condition and no annotation at %s:%d" % key)
            return ann(it, s, fr)
        if not d:
            break
        n += 1
        if n > MAX_UNROLL:
            raise Unsupported("while loop exceeded %d iterations" % MAX_UNROLL)
        try:
            it.exec_block(s.body, fr)
        except BreakEx:
            return
        except ContinueEx:
            continue
    if s.orelse:
        it.exec_block(s.orelse, fr)
