import sys, os
sys.path.insert(0, os.path.dirname(os.path.abspath(__file__)))
import numpy
from _harness import main
import aotools
from aotools.functions import karhunenLoeve as KL


def bad(msg, obs=None, exp=None):
    return {"message": msg, "observed": obs, "expected": exp}


def polar_modes(b, n):
    return numpy.array([KL.gkl_sfi(b, i) for i in range(n)])


def chk_polar(inp):
    """orthonormal, piston-free, diagonalising the Kolmogorov covariance on the native polar grid; variances positive, non-increasing, tip = tilt"""
    seen = {}
    # the first k functions do not depend on how many are asked for: a basis of k functions has the k LARGEST variances (tip and tilt first),
    # i.e. the first k variances of a larger basis of the same pupil -- also for k = 1, 2, 3, 5
    for (ri, nr) in ((0.2, 16), (0.35, 12)):
        big = numpy.asarray(KL.gkl_basis(ri, nr, 5 * nr, nfunc=40, stf="kolstf")["evals"])[:40]
        for k in (1, 2, 3, 5, 9, 14):
            bk = KL.gkl_basis(ri, nr, 5 * nr, nfunc=k, stf="kolstf")
            evk = numpy.asarray(bk["evals"])[:k]
            if len(evk) != k or not numpy.allclose(evk, big[:k], rtol=1e-10):
                return bad("a basis of %d function(s) (ri=%g, nr=%d) does not have the %d largest variances of the pupil (those of a 40-function basis)" % (k, ri, nr, k), evk.tolist(), big[:k].tolist())
            if k >= 2:
                m0 = KL.gkl_sfi(bk, 0)
                spec = abs(numpy.fft.fft(m0, axis=1)).sum(0)
                if int(numpy.argmax(spec[:spec.size // 2])) != 1:
                    return bad("the first function of a %d-function basis (ri=%g, nr=%d) is not a tip/tilt (azimuthal order 1)" % (k, ri, nr), int(numpy.argmax(spec[:spec.size // 2])), 1)
    # many modes (ordering / pairing of several hundred functions; orthonormality on the native grid), without the O(n^2) covariance check
    for (ri, nr, nf) in ((0.2, 40, 200), (0.3, 30, 200), (0.1, 30, 300)):
        b = KL.gkl_basis(ri, nr, 5 * nr, nfunc=nf, stf="kolstf")
        ev = numpy.asarray(b["evals"])[:nf]
        if len(ev) != nf or numpy.any(ev <= 0) or numpy.any(numpy.diff(ev) > 1e-12 * ev[0]):
            bad_at = int(numpy.argmax(numpy.diff(ev) > 1e-12 * ev[0])) if len(ev) == nf else -1
            return bad("variances of a %d-function basis (ri=%g, nr=%d) are not positive and non-increasing (first increase at mode %d)" % (nf, ri, nr, bad_at), ev[:8].tolist())
        if abs(ev[0] - ev[1]) > 1e-9 * ev[0]:
            return bad("tip and tilt are not the first two functions with equal variances (ri=%g, nr=%d, %d functions)" % (ri, nr, nf), [float(ev[0]), float(ev[1])])
        K = polar_modes(b, nf)
        G = numpy.einsum("ipq,jpq->ij", K, K) / (nr * 5 * nr)
        if abs(G - numpy.eye(nf)).max() > 1e-7:
            return bad("KL functions are not orthonormal on the polar grid (ri=%g, nr=%d, %d functions)" % (ri, nr, nf), float(abs(G - numpy.eye(nf)).max()), 0.0)
    for (ri, nr, nf) in ((0.25, 12, 15), (0.25, 12, 24), (0.1, 16, 20), (0.5, 10, 12), (0.25, 12, 15), (0.3, 9, 12), (0.2, 13, 18), (0.4, 15, 14)):
        b = KL.gkl_basis(ri, nr, 5 * nr, nfunc=nf, stf="kolstf")
        K = polar_modes(b, nf)
        npp = 5 * nr
        G = numpy.einsum("ipq,jpq->ij", K, K) / (nr * npp)
        if abs(G - numpy.eye(nf)).max() > 1e-8:
            return bad("KL functions are not orthonormal on the polar grid (ri=%g, nr=%d, %d functions)" % (ri, nr, nf), float(abs(G - numpy.eye(nf)).max()), 0.0)
        if abs(K.mean((1, 2))).max() > 1e-8:
            return bad("KL functions are not piston-free (ri=%g, nr=%d)" % (ri, nr), float(abs(K.mean((1, 2))).max()), 0.0)
        ev = numpy.asarray(b["evals"])[:nf]
        if numpy.any(ev <= 0) or numpy.any(numpy.diff(ev) > 1e-12 * ev[0]):
            return bad("variances are not positive and non-increasing (ri=%g, nr=%d)" % (ri, nr), ev.tolist())
        if abs(ev[0] - ev[1]) > 1e-9 * ev[0]:
            return bad("tip and tilt variances differ", [float(ev[0]), float(ev[1])])
        # covariance: -1/2 double pupil average of K_i D K_j = diag(variances), on the polar grid (equal-area cells)
        r = numpy.asarray(b["radp"])[:, None] * numpy.ones((1, npp))
        th = numpy.arange(npp)[None, :] * 2 * numpy.pi / npp * numpy.ones((nr, 1))
        x, y = (r * numpy.cos(th)).ravel(), (r * numpy.sin(th)).ravel()
        d = numpy.sqrt((x[:, None] - x[None, :]) ** 2 + (y[:, None] - y[None, :]) ** 2)
        Dm = KL.stf_kolmogorov(d / 2.)           # separations in units of the diameter: r is normalised by D/2
        Kf = K.reshape(nf, -1)
        C = -0.5 * Kf @ Dm @ Kf.T / (nr * npp) ** 2
        off = C - numpy.diag(numpy.diag(C))
        # (on the native grid the identity is exact up to rounding: measured 1e-14 relative per mode on the unchanged tree)
        if abs(off).max() > 1e-9 * ev[0] or (abs(numpy.diag(C) - ev) / ev).max() > 1e-8:
            return bad("KL functions do not diagonalise the Kolmogorov covariance with the returned variances (ri=%g, nr=%d, %d functions)" % (ri, nr, nf),
                       [float(abs(off).max() / ev[0]), float((abs(numpy.diag(C) - ev) / ev).max())], "< 1e-9 of the tip/tilt variance off the diagonal, < 1e-8 relative per variance")
        key = (ri, nr)
        if key in seen and not numpy.allclose(seen[key], ev[:len(seen[key])][:12], rtol=1e-10):
            return bad("a second basis for the same pupil returns different variances (state carried between calls)")
        seen[key] = ev[:12].copy()


def chk_robust(inp):
    """every pupil / radial sampling in the stated range gives a basis: no NaN kernel, no shape accident in the resampling"""
    import io, contextlib
    for (ri, nr) in ((0.02, 24), (0.23, 28), (0.26, 32), (0.3, 49), (0.3, 98), (0.5, 7), (0.05, 11)):
        try:
            with contextlib.redirect_stdout(io.StringIO()):
                kl, var, pupil, base = aotools.make_kl(8, 20, ri=ri, nr=nr)
        except Exception as ex:
            return bad("make_kl(8, 20, ri=%g, nr=%d) raises %s: %s" % (ri, nr, type(ex).__name__, str(ex)[:120]), type(ex).__name__, "a KL basis")
        if not numpy.all(numpy.isfinite(kl)) or not numpy.all(numpy.isfinite(var)):
            return bad("make_kl(8, 20, ri=%g, nr=%d) returns non-finite values" % (ri, nr))
        ev = numpy.asarray(var)[:8]
        if numpy.any(ev <= 0) or numpy.any(numpy.diff(ev) > 1e-12 * ev[0]):
            return bad("make_kl(8, 20, ri=%g, nr=%d): variances not positive / non-increasing" % (ri, nr), ev.tolist())
    # the kernel contains zero separations: every structure function the builder offers must be finite there
    for stf, kw in (("vk", {"outerscale": 3.}), ("kolmogorov", {})):
        try:
            with contextlib.redirect_stdout(io.StringIO()):
                kl = aotools.make_kl(10, 32, ri=0.2, nr=20, stf=stf, **kw)[0]
        except Exception as ex:
            return bad("make_kl(10, 32, ri=0.2, nr=20, stf=%r) raises %s: %s" % (stf, type(ex).__name__, str(ex)[:100]), type(ex).__name__, "a KL basis")
        if not numpy.all(numpy.isfinite(kl)):
            return bad("make_kl(stf=%r) returns non-finite modes" % stf)


def chk_cartesian(inp):
    r = chk_robust(inp)
    if r:
        return r
    dims = [int(inp["dim"])] if inp and "dim" in inp and 4 <= int(inp["dim"]) <= 80 else [16, 24, 33, 17, 40]
    for dim in dims:
        for ri in (0.25, 0.4):
            kl, var, pupil, base = aotools.make_kl(8, dim, ri=ri, nr=16)
            c = (numpy.arange(dim) - (dim - 1) / 2.) / (dim / 2.)
            X, Y = numpy.meshgrid(c, c)
            R2 = X ** 2 + Y ** 2
            want = ((R2 >= ri ** 2) & (R2 <= 1.0)).astype(float)
            if pupil.shape != (dim, dim) or not numpy.array_equal(pupil, want):
                return bad("returned pupil is not the annulus indicator at pixel centres (dim=%d, ri=%g)" % (dim, ri), int((pupil != want).sum()), 0)
            if kl.shape != (8, dim, dim) or abs(kl * (1 - want)).max() != 0:
                return bad("masked Cartesian modes are not zero outside the annulus (dim=%d)" % dim, float(abs(kl * (1 - want)).max()), 0.0)
            if dim in (16, 33):
                # every true-valued way of asking for masking masks (the flag is documented as a boolean)
                for flag in (numpy.True_, numpy.bool_(True), 1, (ri < 1)):
                    klf = aotools.make_kl(4, dim, ri=ri, nr=16, mask=flag)[0]
                    if abs(klf * (1 - want)).max() != 0:
                        return bad("make_kl(mask=%r): Cartesian modes are not zero outside the annulus (dim=%d)" % (flag, dim), float(abs(klf * (1 - want)).max()), 0.0)
            # follows the polar function at each pixel's (r, theta): compare with the polar function evaluated at the nearest polar cell
            nr, npp = base["nr"], base["np"]
            rr = numpy.sqrt(R2)
            tt = (numpy.arctan2(Y, X) + 2 * numpy.pi) % (2 * numpy.pi)
            cr = numpy.clip((R2 - ri ** 2) / (1 - ri ** 2) * nr, 0, nr - 1).astype(int)
            cp = numpy.clip(tt / (2 * numpy.pi) * npp, 0, npp - 1).astype(int)
            for i in range(1, 6):
                pol = KL.gkl_sfi(base, i)
                lo = numpy.minimum.reduce([pol[numpy.clip(cr + a, 0, nr - 1), (cp + b) % npp] for a in (-1, 0, 1) for b in (-1, 0, 1)])
                hi = numpy.maximum.reduce([pol[numpy.clip(cr + a, 0, nr - 1), (cp + b) % npp] for a in (-1, 0, 1) for b in (-1, 0, 1)])
                inside = want.astype(bool)
                tol = 0.05 * abs(pol).max()
                if numpy.any((kl[i] < lo - tol)[inside]) or numpy.any((kl[i] > hi + tol)[inside]):
                    return bad("Cartesian mode %d does not follow the polar function at each pixel's (r, theta) within the neighbouring polar cells (dim=%d)" % (i, dim))
                # ... and to within the resampling error everywhere, the cells next to theta = 2 pi included: the polar function evaluated at the pixel's
                # (r, theta) by bilinear interpolation with a PERIODIC azimuth (radial samples at (k + 1/16) d, as gkl_radii places them)
                crf = (R2 - ri ** 2) / (1 - ri ** 2) * nr - 1. / 16
                cpf = tt / (2 * numpy.pi) * npp
                k0 = numpy.clip(numpy.floor(crf).astype(int), 0, nr - 2); fr = numpy.clip(crf - k0, 0, 1)
                p0 = numpy.floor(cpf).astype(int) % npp; fp = cpf - numpy.floor(cpf); p1 = (p0 + 1) % npp
                ref = (1 - fr) * ((1 - fp) * pol[k0, p0] + fp * pol[k0, p1]) + fr * ((1 - fp) * pol[k0 + 1, p0] + fp * pol[k0 + 1, p1])
                err = abs(kl[i] - ref)[inside]
                # measured on the unchanged tree: maximum 0.7 % of the mode's maximum, median 0.15 % (the 1/16-cell radial offset of the rendering)
                if err.max() > 0.03 * abs(pol).max():
                    w = numpy.argwhere(inside)[numpy.argmax(err)]
                    return bad("Cartesian mode %d (dim=%d, ri=%g) differs from the polar function at pixel (%d, %d), theta = %.3f rad, by %.1f %% of the mode's maximum (median over the pupil %.2f %%)" % (
                        i, dim, ri, w[0], w[1], float(tt[w[0], w[1]]), 100 * err.max() / abs(pol).max(), 100 * numpy.median(err) / abs(pol).max()), float(err.max() / abs(pol).max()), "< 0.03")


one = lambda t, s: [{}]
CLAUSES = {"polar": (chk_polar, one), "pupil": (chk_cartesian, one), "cartesian": (chk_cartesian, one), "grid": (chk_polar, one), "piston": (chk_polar, one), "azimuthal": (chk_polar, one)}
if __name__ == "__main__":
    main(CLAUSES)
