"""C19 Empirical estimators implement their definitions."""
import sys, os
sys.path.insert(0, os.path.dirname(os.path.dirname(os.path.abspath(__file__))))
from aovc.check import run_check
from contracts import estimators


def build(chk):
    chk.assumptions_used.update(["A-REAL", "A-NP"])
    estimators.obligations(chk)
    chk.notes.append("calculate_structure_function requires every requested lag to leave at least one overlapping row: nbOfPoint*step <= rows + step - 1 (explicit arguments), rows >= cols (defaults)")
    chk.not_decided.append("applied to generated screens the estimator follows the analytic structure function (statistical)")


if __name__ == "__main__":
    sys.exit(run_check("C19", "Empirical estimators implement their definitions", build))
