import sys, os
sys.path.insert(0, os.path.dirname(os.path.abspath(__file__)))
import numpy
from _harness import main
import aotools
from aotools.turbulence.slopecovariance import structure_function_vk as D


def bad(msg, obs=None, exp=None, **kw):
    d = {"message": msg, "observed": obs, "expected": exp}
    d.update(kw)
    return d


def oracle(masks, T, d, H, theta, lam, alts, r0s, L0s):
    """the statement's covariance: finite-difference slopes of the von Karman phase at the projected sub-aperture end points, summed over layers"""
    nw = len(masks)
    meas = []
    for i in range(nw):
        cells = numpy.argwhere(numpy.asarray(masks[i]) == 1)
        for axis in (0, 1):
            for rc in cells:
                meas.append((i, axis, rc))
    n = len(meas)
    M = numpy.zeros((n, n))
    for l, (h, r0, L0) in enumerate(zip(alts, r0s, L0s)):
        pts = []
        for (i, axis, rc) in meas:
            sf = 1 - h / H[i] if H[i] != 0 else 1.
            c = sf * ((rc + 0.5) * d[i] - T / 2.) + numpy.array(theta[i]) * numpy.pi / 180 / 3600 * h
            w = sf * d[i]
            e = numpy.zeros(2); e[axis] = 1
            pts.append((c + w * e / 2, c - w * e / 2, lam[i] / (2 * numpy.pi * w)))
        P = numpy.array([p[0] for p in pts]); Q = numpy.array([p[1] for p in pts]); g = numpy.array([p[2] for p in pts])

        def DD(A, B):
            r = numpy.sqrt(((A[:, None, :] - B[None, :, :]) ** 2).sum(-1))
            out = numpy.zeros_like(r)
            nz = r > 0
            out[nz] = D(r[nz], r0, L0)
            return out
        M += -0.5 * numpy.outer(g, g) * (DD(P, P) - DD(P, Q) - DD(Q, P) + DD(Q, Q))
    return M, meas


CASES = {
    "sym-same": dict(masks=[numpy.ones((2, 2)), numpy.ones((2, 2))], d=[.5, .5], H=[0, 0], theta=[[0, 0], [0, 0]]),
    "asym-same": dict(masks=[[[1, 1, 0], [0, 1, 1], [1, 0, 0]]] * 2, d=[1 / 3., 1 / 3.], H=[0, 0], theta=[[0, 0], [0, 0]]),
    "asym-offaxis": dict(masks=[[[1, 1, 0], [0, 1, 1], [1, 0, 0]], [[0, 1, 1], [1, 1, 0], [0, 0, 1]]], d=[1 / 3., 1 / 3.], H=[0, 0], theta=[[0, 0], [20, -10]]),
    "lgs-lgs-same-alt": dict(masks=[[[1, 1, 0], [0, 1, 1], [1, 0, 0]], [[0, 1, 1], [1, 1, 0], [0, 0, 1]]], d=[1 / 3., 1 / 3.], H=[20000., 20000.], theta=[[5, 0], [20, -10]]),
    "three-wfs": dict(masks=[numpy.ones((2, 2)), [[1, 0], [1, 1]], [[0, 1], [1, 1]]], d=[.5, .5, .5], H=[0, 0, 0], theta=[[0, 0], [15, 5], [-8, 12]]),
    "ngs-lgs": dict(masks=[[[1, 1, 0], [0, 1, 1], [1, 0, 0]], [[0, 1, 1], [1, 1, 0], [0, 0, 1]]], d=[1 / 3., 1 / 3.], H=[0, 20000.], theta=[[0, 0], [20, -10]]),
    "single-wfs": dict(masks=[[[1, 1, 0], [0, 1, 1], [1, 0, 1]]], d=[1 / 3.], H=[0], theta=[[7, -3]]),
    "large-L0": dict(masks=[[[1, 1, 0], [0, 1, 1], [1, 0, 0]], [[0, 1, 1], [1, 1, 0], [0, 0, 1]]], d=[1 / 3., 1 / 3.], H=[0, 0], theta=[[0, 0], [20, -10]], L0s=[300., 1000., 5000.]),
    "small-L0": dict(masks=[numpy.ones((2, 2)), [[1, 0], [1, 1]]], d=[.5, .5], H=[0, 0], theta=[[0, 0], [15, 5]], L0s=[1., 2., 0.5]),
    "int-d": dict(masks=[[[1, 1, 0], [0, 1, 1], [1, 0, 0]], [[0, 1, 1], [1, 1, 0], [0, 0, 1]]], d=[1, 1], H=[0, 0], theta=[[0, 0], [20, -10]], T=3),
    "int-d-array": dict(masks=[numpy.ones((2, 2)), [[1, 0], [1, 1]]], d=numpy.array([2, 2]), H=[0, 0], theta=[[0, 0], [15, 5]], T=4),
    "diff-d": dict(masks=[[[1, 1, 0], [0, 1, 1], [1, 0, 0]], numpy.ones((2, 2))], d=[1 / 3., .5], H=[0, 0], theta=[[0, 0], [5, 3]]),
}


def chk_finite(inp):
    """a guide-star offset that projects to exactly half a sub-aperture in x and y makes two baseline end points coincide: the entries are finite
    (the structure function is 0 at zero separation)"""
    k = numpy.pi / 180 / 3600
    h = 0.5 / (10 * k)
    for _ in range(64):
        if 10. * k * h == 0.5:
            break
        h = numpy.nextafter(h, numpy.inf if 10. * k * h < 0.5 else -numpy.inf)
    ones = numpy.ones((2, 2))
    c = aotools.CovarianceMatrix(2, [ones, ones], 2., [1., 1.], [0, 0], [[0, 0], [10, 10]], [5e-7, 5e-7], 1, [h], [0.2], [25.])
    m = c.make_covariance_matrix()
    if not numpy.all(numpy.isfinite(m)):
        return bad("two 2x2 sensors 10 arcsec apart in x and y, one layer at %.6f m (offset = half a sub-aperture): %d of %d entries are not finite" % (h, int((~numpy.isfinite(m)).sum()), m.size),
                   int((~numpy.isfinite(m)).sum()), 0)


def chk_units(inp):
    """the matrix scales with the product of the two wavelengths, whatever unit they are given in (metres, microns): symmetric, positive semi-definite
    to single precision and equal to the rescaled metre-unit matrix"""
    m = aotools.circle(5, 10)
    mats = []
    for lam in (5.5e-7, 0.55, 550.):
        cm = aotools.CovarianceMatrix(3, [m] * 3, 8., [.8] * 3, [0] * 3, [[10., 0], [-7, 12.], [10., 0]], [lam] * 3, 2, [0., 9000.], [0.05, 0.1], [25., 25.])
        C = cm.make_covariance_matrix().astype(float)
        mats.append(C / lam ** 2)
        w = numpy.linalg.eigvalsh((C + C.T) / 2)
        if abs(C - C.T).max() > 1e-6 * abs(C).max() or w.min() < -1e-5 * abs(C).max():
            return bad("wavelengths given as %g: the covariance matrix is not symmetric positive semi-definite to single precision" % lam, [float(abs(C - C.T).max() / abs(C).max()), float(w.min() / abs(C).max())], "symmetric, >= -1e-5")
    for k, lam in ((1, 0.55), (2, 550.)):
        e = abs(mats[k] - mats[0]).max() / abs(mats[0]).max()
        if e > 1e-5:
            return bad("the matrix for wavelengths %g is not the matrix for 5.5e-7 scaled by the product of the wavelengths" % lam, float(e), "< 1e-5")


def chk_entries(inp):
    if not (inp and "case" in inp) or inp.get("case") == next(iter(CASES)):
        r = chk_finite(inp) or chk_units(inp)
        if r:
            return r
    names = [inp["case"]] if inp and "case" in inp else list(CASES)
    for name in names:
        c = CASES[name]
        nw = len(c["masks"])
        T = c.get("T", 1.0)
        lam = [500e-9, 600e-9, 550e-9][:nw]
        alts, r0s, L0s = [0., 5000., 9000.], [.2, .3, .25], list(c.get("L0s", [25., 10., 30.]))
        masks = [numpy.asarray(m, dtype=float) for m in c["masks"]]
        try:
            cm = aotools.CovarianceMatrix(nw, masks, T, c["d"], c["H"], c["theta"], lam, 3, numpy.array(alts), r0s, L0s)
            M = cm.make_covariance_matrix().astype(float)
        except Exception as ex:
            return bad("building the covariance matrix raises %s for a legal configuration (%s: sub-aperture diameters %r)" % (type(ex).__name__, name, c["d"]), repr(ex)[:200], "a covariance matrix")
        if name in ("three-wfs", "diff-d", "asym-offaxis"):
            # the multi-process build path returns the same matrix (sensors with different numbers of sub-apertures included)
            cmt = aotools.CovarianceMatrix(nw, masks, T, c["d"], c["H"], c["theta"], lam, 3, numpy.array(alts), r0s, L0s, 2)
            Mt = cmt.make_covariance_matrix().astype(float)
            if Mt.shape != M.shape or not numpy.array_equal(Mt, M):
                return bad("the two-process build of the covariance matrix differs from the single-process build (%s)" % name, float(abs(Mt - M).max()) if Mt.shape == M.shape else list(Mt.shape), 0.0)
        O, meas = oracle(masks, T, c["d"], c["H"], c["theta"], lam, alts, r0s, L0s)
        sc = abs(O).max()
        if M.shape != O.shape:
            return bad("covariance matrix shape (%s)" % name, list(M.shape), list(O.shape))
        if abs(M - M.T).max() > 1e-6 * sc:
            return bad("covariance matrix is not symmetric (%s)" % name, float(abs(M - M.T).max() / sc), 0.0)
        err = abs(M - O) / sc
        if err.max() > 5e-6:
            k = numpy.unravel_index(numpy.argmax(err), err.shape)
            (i, e, _), (j, f, _) = meas[k[0]], meas[k[1]]
            # listed finding: y-slopes of sensor i against x-slopes of sensor j (i > j) when the projected widths differ
            widths_differ = any((1 - h / c["H"][i] if c["H"][i] else 1.) * c["d"][i] != (1 - h / c["H"][j] if c["H"][j] else 1.) * c["d"][j] for h in alts)
            only_yx = True
            for (p, q) in zip(*numpy.where(err > 5e-6)):
                (i2, e2, _), (j2, f2, _) = meas[p], meas[q]
                hi, lo = (p, q) if i2 > j2 else (q, p)
                (ih, eh, _), (il, el, _) = meas[hi], meas[lo]
                if not (ih != il and eh == 1 and el == 0):
                    only_yx = False
            tag = "C01-yx-unequal-widths" if (widths_differ and only_yx) else None
            return bad("entry (%s-slope of sensor %d, %s-slope of sensor %d) is not the covariance of the two slope measurements (%s): rel. error %.3g" % ("xy"[e], i, "xy"[f], j, name, err.max()),
                       float(M[k]), float(O[k]), **({"finding": tag} if tag else {}))
        w = numpy.linalg.eigvalsh((M + M.T) / 2)
        if w.min() < -1e-5 * sc:
            return bad("covariance matrix is not positive semi-definite up to single precision (%s)" % name, float(w.min() / sc), ">= -1e-5")
        # additive over layers, r0^(-5/3) and wavelength-product scaling
        parts = 0
        for l in range(3):
            cml = aotools.CovarianceMatrix(nw, masks, T, c["d"], c["H"], c["theta"], lam, 1, numpy.array(alts[l:l + 1]), r0s[l:l + 1], L0s[l:l + 1])
            parts = parts + cml.make_covariance_matrix().astype(float)
        if abs(parts - M).max() > 1e-5 * sc:
            return bad("matrix is not additive over layers (%s)" % name, float(abs(parts - M).max() / sc), 0.0)
        cm2 = aotools.CovarianceMatrix(nw, masks, T, c["d"], c["H"], c["theta"], [2 * x for x in lam], 3, numpy.array(alts), [2 * r for r in r0s], L0s)
        # doubling r0 at fixed L0 changes the von Karman shape too; scaling law is checked with L0/r0 fixed:
        cm3 = aotools.CovarianceMatrix(nw, masks, T, c["d"], c["H"], c["theta"], [2 * x for x in lam], 3, numpy.array(alts), r0s, L0s)
        M3 = cm3.make_covariance_matrix().astype(float)
        if abs(M3 - 4 * M).max() > 1e-5 * 4 * sc:
            return bad("matrix does not scale with the product of the two wavelengths (%s)" % name)


def fam(tier, seed):
    for name in CASES:
        yield {"case": name}


CLAUSES = {"entries": (chk_entries, fam), "kernel": (chk_entries, fam), "geometry": (chk_entries, fam), "assembly": (chk_entries, fam)}
if __name__ == "__main__":
    main(CLAUSES)
