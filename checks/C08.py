"""C08 All closed-form turbulence statistics describe one von Karman model."""
import sys, os
sys.path.insert(0, os.path.dirname(os.path.dirname(os.path.abspath(__file__))))
from aovc.check import run_check
from contracts import turbstats, ftscreen


def build(chk):
    chk.assumptions_used.update(["A-REAL", "A-NP", "A-MATH"])
    chk.math_lemmas.append("x^nu K_nu(x) -> 2^(nu-1) Gamma(nu) as x -> 0 (used for C(0+) and D(0+))")
    turbstats.obligations(chk)
    chk.confirm_known("C08-sf-zero", "zero", {})
    chk.bounded_native("numerical agreement of the copies, D = 2(C(0)-C(r)), Kolmogorov limit, monotonicity, saturation, r0 scaling on a grid of separations", "consistency", "r/L0 from 1e-4 to 30, 3 (r0, L0) pairs, tolerance 5e-3", "")
    # 'the power spectrum used for screens' clause: the spectrum inside ft_phase_screen is the modified von Karman one (C07's contract, re-checked here)
    with chk.borrow("C07"):
        ftscreen.obligations(chk)
        chk.bounded_native("the spectrum ft_phase_screen realises (exact ensemble covariance with unit draws) is the von Karman one, also over repeated calls", "spectrum",
                           "N in {6, 8}, four (delta, r0, L0, l0) sets", "aotools/turbulence/phasescreen.py:ft_phase_screen")
    chk.not_decided.append("agreement with the Hankel transform of the phase power spectrum; Kolmogorov limit as L0 grows; monotonicity; positive semi-definiteness of covariance matrices (real analysis of Bessel functions): bounded native checks only")


if __name__ == "__main__":
    sys.exit(run_check("C08", "All closed-form turbulence statistics describe one von Karman model", build))
