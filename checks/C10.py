"""C10 Optical propagators are linear and conserve power."""
import sys, os
sys.path.insert(0, os.path.dirname(os.path.dirname(os.path.abspath(__file__))))
from aovc.check import run_check
from contracts import optics


def build(chk):
    chk.assumptions_used.update(["A-REAL", "A-NP"])
    chk.math_lemmas.append("energy functional of a word: ||fft x||^2 = N ||x||^2 per axis, ||exp(i phi) x|| = ||x||, ||roll x|| = ||x|| (DFT Parseval, library contract)")
    chk.notes.append("requires: square N x N input, N even, wvl, d1, d2 > 0, z != 0 (f != 0), scalar arguments Python or NumPy floats (twoStepFresnel checked under both: a zero NumPy divisor gives inf, not an exception)")
    optics.c10_obligations(chk)


if __name__ == "__main__":
    sys.exit(run_check("C10", "Optical propagators are linear and conserve power", build))
