"""C20 Library calls are pure: arguments are never modified, no hidden state."""
import sys, os
sys.path.insert(0, os.path.dirname(os.path.dirname(os.path.abspath(__file__))))
import z3
from aovc.check import run_check
from aovc import effects, frontend
from contracts import centroiders, imaging, fourier, atmos, estimators

RECIPE_OF = {}   # qualname -> native recipe name (same names by construction)


def build(chk):
    an = effects.Analyzer()
    funcs = effects.public_functions()
    known_rng = [e for e in chk.load_known() if e.get("id") == "C20-global-rng" and e.get("status") == "open"]
    for mod, q in funcs:
        s = an.summary(mod, q)
        fname = "%s:%s" % (mod.relpath, q)
        chk.functions[fname] = {"sha256": mod.sha256, "dropped": frontend.dropped(mod.funcs[q])}
        base = q.split(".")[-1]
        for k, site in enumerate(s.sites):
            # frame clause: the written object is not (a view of) memory owned by a parameter or a module-level object
            chk.add("%s.frame.%d[line %d: %s]" % (q, k, site.lineno, site.what[:70]), [], z3.BoolVal(site.ok), fname, "effects-analysis (may-alias)", "purity",
                    replay=lambda m, base=base: {"recipe": base}, kind="frame")
        hidden = list(s.hidden)
        if hidden and known_rng and all("global RandomState" in h.what for h in hidden) and q in ("optimal_grouping", "_random_grouping"):
            # listed finding: random restarts draw from NumPy's global RandomState; re-confirmed natively below
            hidden = []
        chk.add("%s.no-hidden-state%s" % (q, ("[" + "; ".join(h.what for h in hidden)[:120] + "]") if hidden else ""), [], z3.BoolVal(not hidden), fname,
                "effects-analysis (global RNG / clock / module state / memoisation)", "purity", replay=lambda m, base=base: {"recipe": base}, kind="frame")
        for u in s.undecided:
            chk.unsupported.append((fname, "effects analysis undecided at line %d: %s" % (u.lineno, u.what)))
    # results are not changed behind the caller's back: no method writes IN PLACE into the object an attribute held when the method was entered
    # if some method returns (a view of) that attribute -- the arrays a screen / covariance object handed out stay what they were
    seen_cls = set()
    for mod, q in funcs:
        if "." in q:
            cls = q.split(".")[0]
            if (mod.relpath, cls) in seen_cls:
                continue
            seen_cls.add((mod.relpath, cls))
            esc, pre = effects.escaping_prestate_writes(an, mod, cls)
            chk.add("%s: no method writes in place into an array that an earlier call returned (attributes returned: %s)%s" % (cls, ", ".join(esc) or "none", (" [" + "; ".join("%s line %d: %s (self.%s)" % (qq.split(".")[-1], st.lineno, st.what[:50], a) for qq, st, a in pre)[:300] + "]") if pre else ""),
                    [], z3.BoolVal(not pre), "%s:%s" % (mod.relpath, cls), "effects-analysis (entry-state objects of self written in place vs. attributes returned by methods)", "methods", kind="frame",
                    replay=lambda m: {})
    chk.confirm_known("C20-global-rng", "purity", {"recipe": "optimal_grouping"})
    # bounded native stand-in in the thorough tier (and the differential check of the analysis): every recipe, before/after comparison
    if True:       # bounded native stand-in, every tier: before/after comparison of every recipe
        fam = chk.native("family", None, None)
        chk.native_evals += int(fam.get("evaluations", 0) or 0)
        chk.bounded.append({"name": "native purity recipes", "bound": "one recipe input per public function (native/C20.py RECIPES)", "evaluations": fam.get("evaluations"), "result": fam.get("status"),
                            "detail": fam.get("message")})
        if fam.get("status") == "fail" and not chk.matches_known([e for e in chk.load_known() if e.get("status") == "open"], None, fam):
            path = chk.write_replay(None, fam.get("inputs"), fam, True)
            chk.violations.append(("native-purity", path, True))
            print("FAILED native purity recipe: %s" % fam.get("message"))
            print("VIOLATION property=C20 replay=%s" % os.path.relpath(path, os.path.dirname(os.path.dirname(os.path.abspath(__file__)))))
    # batch clause: a batched call gives, per item, what the single-item call gives -- the per-item obligations of C15, C16, C09, C17 re-checked here
    chk.assumptions_used.update(["A-REAL", "A-INT"])
    with chk.borrow("C15"):
        centroiders.obligations(chk)
        centroiders.brightest_obligations(chk)
        chk.bounded_native("correlation_centroid / brightest_pixel on a stack give, per frame, what the frame alone gives (frames with different background levels)", "correlation", "see native/C15.py", "aotools/image_processing/centroiders.py:correlation_centroid")
        chk.bounded_native("brightest_pixel: stack = frame (IEEE / dtype bridge of the clause proved over the reals; stacks with 1-3 leading axes)", "brightest", "see native/C15.py", "aotools/image_processing/centroiders.py:brightest_pixel")
    with chk.borrow("C16"):
        imaging.bin_obligations(chk)
    with chk.borrow("C09"):
        fourier.obligations(chk, real_variants=False)     # (the real-input variants have no batch clause of their own)
    with chk.borrow("C17"):
        atmos.axis_obligations(chk)
    with chk.borrow("C19"):
        estimators.obligations(chk)          # temporal power spectra of slope data with leading batch axes
    chk.assumptions_used.update(["A-NP"])
    chk.notes.append("view / copy / in-place behaviour of NumPy calls is taken from the tables in aovc/effects.py (VIEW_FUNCS, VIEW_METHODS, MUTATING_METHODS, MUTATING_FUNCS, PURE_METHODS): trusted")
    chk.notes.append("batch clause (per item = single call): the per-item obligations of C09 (batch axis), C15 (stack vs frame), C16 (binning of stacks), C17 (axis argument) are re-generated and discharged in this check (names prefixed [Cxx])")
    chk.not_decided.append("bit-identity of results across calls beyond 'no hidden state is read' (determinism of NumPy kernels is assumed)")


if __name__ == "__main__":
    sys.exit(run_check("C20", "Library calls are pure: arguments are never modified, no hidden state", build))
