"""Helper to state a contract on a real function and turn it into obligations.

verify(chk, name, function, run, post, ...):
   run(it)   -> sets `requires` with it.ctx.assume(...) and calls the real function symbolically
   post(pr)  -> list of (clause-name, goal) postcondition formulas for one path
Every path contributes: its postcondition clauses, one obligation per definedness condition, one per
frame event (write into a parameter), and `False` under the path condition for a path that raises.
A precondition that no path can satisfy, or a function with zero paths, is reported as vacuous.
If the body is outside the executor's subset the native bounded family of `clause` stands in (labelled bounded).
"""
import z3
from .values import Unsupported, DefinednessError
from .symex import explore, RaiseEx, PyException
from . import frontend


def _closure_dicts(f):
    out = []
    if f is None or not callable(f):
        return out
    for c in (getattr(f, "__closure__", None) or ()):
        try:
            v = c.cell_contents
        except ValueError:
            continue
        if isinstance(v, dict):
            out.append(v)
    for v in (getattr(f, "__defaults__", None) or ()):
        if isinstance(v, dict):
            out.append(v)
    return out


def _shared_dicts(run, post, summaries=None):
    """dict objects that run() (or a callee summary it installs) fills and post() reads: contract-local holders"""
    src = _closure_dicts(run)
    for s in (summaries or {}).values():
        src += _closure_dicts(s)
    dst = _closure_dicts(post)
    out = []
    for d in src:
        if any(d is e for e in dst) and not any(d is e for e in out):
            out.append(d)
    return out


def verify(chk, name, function, run, post, clause=None, replay=None, encoding="qf-arith", summaries=None,
           allow_raise=False, skip_defs=(), max_paths=64, frame=True, cover=True, loop_annotations=None, lemmas=None):
    holders = _shared_dicts(run, post, summaries)
    try:
        results = explore(run, max_paths=max_paths, summaries=summaries or {}, loop_annotations=loop_annotations or {}, holders=holders)
    except Unsupported as ex:
        return fallback(chk, name, function, clause, "outside the executor's subset: %s" % ex)
    except frontend.SourceError as ex:
        return fallback(chk, name, function, clause, "source: %s" % ex)
    if not results:
        chk.unsupported.append((name, "no feasible path (contradictory requires?)"))
        return []
    npaths = 0
    for k, pr in enumerate(results):
        chk.record_path(pr)
        tag = "%s.p%d" % (name, k) if len(results) > 1 else name
        if pr.raised is not None or pr.pyexc is not None:
            hyps = pr.ctx.hyps()
            what = ("raise %s at line %d" % (pr.raised.what, pr.raised.lineno)) if pr.raised is not None else str(pr.pyexc)
            if allow_raise and allow_raise(pr):
                continue
            chk.add("%s.no-exception[%s]" % (tag, what[:80]), hyps, z3.BoolVal(False), function, "definedness", clause, replay, kind="definedness")
            continue
        npaths += 1
        for h, snap in zip(holders, getattr(pr, "holder_snapshots", [])):
            h.clear()
            h.update(snap)          # the holder as this path left it
        try:
            clauses = post(pr) or []
        except Unsupported as ex:
            if clause is not None:
                fallback(chk, tag, function, clause, "postcondition not expressible on this path: %s" % ex)
            else:
                chk.unsupported.append((tag, "postcondition not expressible on this path: %s" % ex))
            continue
        hyps = pr.ctx.hyps()       # after post(): evaluating result elements may instantiate loop-summary facts
        chk.definedness_obligations(tag, pr, function, clause, replay, skip=skip_defs)
        for q, (lname, lf, lassum, lpc) in enumerate(getattr(pr.ctx, "lemmas", [])):
            chk.add("%s.lemma.%d[%s]" % (tag, q, lname), list(lassum) + list(lpc), lf, function, "lemma", clause, replay, kind="lemma")
        if frame:
            chk.frame_obligations(tag, pr, function, clause, replay)
        for item in clauses:
            if len(item) == 2:
                cname, goal = item
                extra = []
                cl = clause
                rp = replay
            else:
                cname, goal, opts = item
                extra = opts.get("hyps", [])
                cl = opts.get("clause", clause)
                rp = opts.get("replay", replay)
            chk.add("%s.%s" % (tag, cname), hyps + list(extra), goal, function, encoding, cl, rp, lemmas=lemmas)
        if cover:
            # reachability: the path's hypotheses are satisfiable (a contradictory precondition proves everything)
            chk.add_cover("%s.reachable" % tag, hyps, z3.BoolVal(True), function)
    if npaths == 0:
        chk.notes.append("%s: every path raises" % name)
    elif clause is not None:
        chk.bridge(clause, name, function)
    return results


class under:
    """context manager for postconditions: element evaluations done inside are definedness-checked under `cond`
    (e.g. the index of the element is in bounds)"""
    def __init__(self, pr, cond):
        self.ctx, self.cond = pr.ctx, cond

    def __enter__(self):
        self.ctx.pc.append(self.cond)
        return self

    def __exit__(self, *a):
        self.ctx.pc.pop()
        return False


def fallback(chk, name, function, clause, why):
    """bounded native stand-in for a function the executor cannot take"""
    if clause is None:
        chk.unsupported.append((name, why))
        return []
    fam = chk.native("family", clause, None)
    n = int(fam.get("evaluations", 0) or 0)
    chk.native_evals += n
    rec = {"name": name, "function": function, "reason": why, "clause": clause, "bound": fam.get("bound", "see native/%s.py family '%s'" % (chk.prop_id, clause)),
           "evaluations": n, "result": fam.get("status")}
    chk.bounded.append(rec)
    if fam.get("status") == "fail":
        known = [e for e in chk.load_known() if e.get("status") == "open"]
        if not chk.matches_known(known, None, fam):
            path = chk.write_replay(None, fam.get("inputs"), fam, True)
            chk.violations.append((name, path, True))
            print("FAILED bounded stand-in %s (%s): %s" % (name, clause, fam.get("message", "")))
            print("VIOLATION property=%s replay=%s" % (chk.prop_id, path.split("/verif/")[-1]))
    elif fam.get("status") != "pass":
        chk.unsupported.append((name, why + " ; native family: " + str(fam.get("error", fam.get("status")))))
    else:
        # not proved: the function is outside the verifier's reach on this tree and only the bounded stand-in speaks for it.  This is
        # the same status as the functions listed as bounded on the unchanged tree: the check reports what was explored (exit 0),
        # the evidence lists the function under bounded_standins with the reason, and nothing is added to `discharged`.
        chk.notes.append("BOUNDED-ONLY %s: %s; the bounded native family '%s' found no violation (NOT a proof)" % (name, why, clause))
        print("BOUNDED-ONLY contract=%s function=%s reason=%s (bounded native family '%s' found no violation; not a proof)" % (name, function, why, clause))
    return []
