"""Side-car contracts on the real AOtools functions (one module per repository module)."""
