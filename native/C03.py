import sys, os
sys.path.insert(0, os.path.dirname(os.path.abspath(__file__)))
import numpy
from _harness import main
import aotools


def bad(msg, obs=None, exp=None):
    return {"message": msg, "observed": obs, "expected": exp}


def system(kind, threads):
    rng = numpy.random.default_rng(4)
    if kind == "unequal-lgs":
        masks = [aotools.circle(3, 6), aotools.circle(2, 6), (rng.random((6, 6)) > 0.4).astype(float)]
        H = [90000., 90000., 20000.]
    elif kind == "ngs-offaxis":
        masks = [(rng.random((5, 5)) > 0.3).astype(float), aotools.circle(2.5, 5), aotools.circle(2, 5)]
        H = [0, 0, 90000.]
    else:
        masks = [aotools.circle(2.5, 5)] * 3
        H = [90000.] * 3
    return aotools.CovarianceMatrix(3, masks, 4.0, [4.0 / len(masks[0])] * 3, H, [[10, 0], [-5, 8], [3, -12]], [5e-7, 6e-7, 5.5e-7], 2, numpy.array([0., 8000.]), [0.2, 0.4], [25., 15.], threads)


def chk_builds(inp):
    kinds = [inp["kind"]] if inp and "kind" in inp else ["equal", "unequal-lgs", "ngs-offaxis"]
    for kind in kinds:
        ref = system(kind, 1).make_covariance_matrix().copy()
        for seq in ([1, 1], [2, 2], [1, 2, 1], [3, 1, 1, 2]):
            cm = system(kind, seq[0])
            for k, t in enumerate(seq):
                cm.threads = t
                M = cm.make_covariance_matrix()
                if M.shape != ref.shape or not numpy.array_equal(M, ref):
                    return bad("system '%s': build %d of the sequence threads=%s is not bit-identical to the single-process matrix of a fresh object" % (kind, k, seq),
                               int((M != ref).sum()) if M.shape == ref.shape else list(M.shape), 0)


CLAUSES = {"builds": (chk_builds, lambda t, s: [{"kind": k} for k in ("equal", "unequal-lgs", "ngs-offaxis")]), "assembly": (chk_builds, lambda t, s: [{"kind": "unequal-lgs"}])}
if __name__ == "__main__":
    main(CLAUSES)
