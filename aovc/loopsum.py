"""Summaries of `for` loops with a symbolic trip count (schemas S1..S5 of DESIGN 4.1).

The loop body is executed ONCE for a generic iteration K (fresh integer variables constrained to the iteration space).
Writes into objects that exist before the loop are captured as *effects* instead of being applied:
   store  A[idx(K)] = v(K)          (S2)      acc   A[region(K)] += d(K)   /  name += d(K)        (S1, S3)
   count  name += c  under g(K)     (S5)      append L.append(v(K)) under g(K)                  (S4)
and the state after the loop is assembled from the generic effect:
   store : A'[x] = v(K*(x))(x) if K*(x) is in range, guarded and hits x, else A[x]; K* is the inverse of the index map (derived
           from the index equalities, or given by a loop annotation) and its soundness  idx(K) = x  =>  K = K*(x)  is an OBLIGATION;
   acc   : A'[x] = A[x] + Sum_K [x in region(K)] d(K)(x)   (a Sigma term);
   count : name' = name + c * rank_g(K) inside the body, name + c * count_g after the loop (ghost rank / count functions);
   append: a symbolic sequence (elements by ghost selection function for conditional appends).
Iterations must be independent: an outer array that is both read and written in the loop body (other than by `+=`), or a name
that is read before it is assigned in an iteration (and is not an accumulator / counter), makes the loop Unsupported.
"""
import ast
import hashlib
import z3

from .values import *      # noqa
from .values import _num
from .arrays import Arr, dim_eq
from . import npmodel, symex
from .symex import SymRange, BreakEx, ContinueEx, ReturnEx, Obj


class Poison:
    def __init__(self, why):
        self.why = why

    def __repr__(self):
        return "<poison: %s>" % self.why


# ----------------------------------------------------------------------------- iteration spaces

class Space:
    """one loop level: generic variable k (position 0..n-1), membership formula, item(k)"""

    def __init__(self, it, iterable):
        self.k = z3.Int(fresh_name("K"))
        self.unit = False
        self.build(it, iterable)

    def build(self, it, iterable):
        k = self.k
        if isinstance(iterable, SymRange):
            lo, hi, step = iterable.lo, iterable.hi, iterable.step
            if is_conc(step) and _num(step) == 1:
                self.unit = True
                self.count = ite(cmp(">=", r_sub(hi, lo), 0), r_sub(hi, lo), 0)
                self.inr = lambda t: b_and(cmp(">=", t, 0), cmp("<", r_add(lo, t), hi))
                self.item = lambda t: r_add(lo, t)
            else:
                it.ctx.definedness(cmp(">", step, 0), "range step positive (modelled case)")
                self.count = None
                self.inr = lambda t: b_and(cmp(">=", t, 0), cmp("<", r_add(lo, r_mul(t, step)), hi))
                self.item = lambda t: r_add(lo, r_mul(t, step))
            self.value_range = (lo, hi, step)
        elif isinstance(iterable, Arr):
            n = iterable.shape[0]
            self.unit = True
            self.count = n
            self.inr = lambda t: b_and(cmp(">=", t, 0), cmp("<", t, n))
            self.item = lambda t: npmodel.getitem(it, iterable, (t,))
        elif isinstance(iterable, npmodel.Enumerate):
            inner = Space(it, iterable.inner)
            inner.k = k
            self.unit = inner.unit
            self.count = inner.count
            self.inr = inner.inr
            self.item = lambda t: (t, inner.item(t))
        elif hasattr(iterable, "__aovc_space__"):
            iterable.__aovc_space__(it, self)
        else:
            raise Unsupported("symbolic loop over %s" % type(iterable).__name__)


# ----------------------------------------------------------------------------- body scan

def names_of_target(t, out=None):
    out = set() if out is None else out
    if isinstance(t, ast.Name):
        out.add(t.id)
    elif isinstance(t, (ast.Tuple, ast.List)):
        for e in t.elts:
            names_of_target(e, out)
    elif isinstance(t, ast.Starred):
        names_of_target(t.value, out)
    return out


class Scan(ast.NodeVisitor):
    """assignments / reads in a loop body; `own` = at this loop level, `nested` = inside inner for-loops"""

    def __init__(self, body):
        self.assigned = set()
        self.aug = {}            # name -> list of (op, value node) at this level
        self.aug_nested = {}     # name -> list of (op, value node) inside nested loops
        self.assigned_nested = set()
        self.reads = {}          # name -> number of loads
        self.has_break = False
        self.has_return = False
        self.depth = 0
        for st in body:
            self.visit(st)

    def visit_Assign(self, n):
        for t in n.targets:
            self._target(t)
        self.visit(n.value)

    def _target(self, t):
        if isinstance(t, (ast.Name, ast.Tuple, ast.List, ast.Starred)):
            (self.assigned if self.depth == 0 else self.assigned_nested).update(names_of_target(t))
            for sub in ast.walk(t):
                if isinstance(sub, (ast.Subscript, ast.Attribute)):
                    self.visit(sub)
        else:
            self.visit(t)

    def visit_AugAssign(self, n):
        if isinstance(n.target, ast.Name):
            (self.aug if self.depth == 0 else self.aug_nested).setdefault(n.target.id, []).append((type(n.op).__name__, n.value))
        else:
            self.visit(n.target)
        self.visit(n.value)

    def visit_For(self, n):
        self.visit(n.iter)
        self.depth += 1
        self._target(n.target)
        for st in n.body + n.orelse:
            self.visit(st)
        self.depth -= 1

    def visit_While(self, n):
        self.visit(n.test)
        self.depth += 1
        for st in n.body + n.orelse:
            self.visit(st)
        self.depth -= 1

    def visit_Name(self, n):
        if isinstance(n.ctx, ast.Load):
            self.reads[n.id] = self.reads.get(n.id, 0) + 1

    def visit_Break(self, n):
        if self.depth == 0:
            self.has_break = True

    def visit_Return(self, n):
        self.has_return = True


# ----------------------------------------------------------------------------- generic scope

class Effect:
    def __init__(self, kind, **kw):
        self.kind = kind
        self.__dict__.update(kw)


class Scope:
    def __init__(self, it, parent, space, lineno):
        self.it = it
        self.parent = parent
        self.space = space
        self.lineno = lineno
        self.birth = Arr_serial()
        self.effects = []
        self.read_roots = {}
        self.guards = []            # local path conditions inside the generic body (stack)
        self.dead = []              # conditions under which the iteration has ended early (continue)

    def vars(self):
        out = []
        s = self
        while s is not None:
            out.insert(0, s.space)
            s = s.parent
        return out

    def is_outer(self, root):
        return getattr(root, "serial", 0) < self.birth

    def guard(self):
        g = list(self.guards) + [b_not(d) for d in self.dead]
        s = self.parent
        while s is not None:
            g = list(s.guards) + [b_not(d) for d in s.dead] + g
            s = s.parent
        return b_and(*g)


_serial = [0]


def Arr_serial():
    _serial[0] += 1
    return _serial[0]


def install_hooks():
    """Arr gets a creation serial; writes / reads consult the active generic scope of the context"""
    if getattr(Arr, "_loopsum_hooked", False):
        return
    Arr._loopsum_hooked = True
    old_init = Arr.__init__

    def new_init(self, *a, **kw):
        old_init(self, *a, **kw)
        self.serial = Arr_serial()
    Arr.__init__ = new_init

    old_write = Arr.write

    def new_write(self, cond_fn, val_fn, ctx=None, what="store"):
        scope = getattr(ctx, "generic", None) if ctx is not None else None
        root = self.rootarr()
        if scope is not None and scope.is_outer(root):
            if self.root is None:
                rc, rv = cond_fn, val_fn
            else:
                fromb = self.fromb

                def rc(bidx, fromb=fromb, cond_fn=cond_fn):
                    c0, idx = fromb(list(bidx))
                    return b_and(c0, cond_fn(idx)) if c0 is not False else False

                def rv(bidx, fromb=fromb, val_fn=val_fn):
                    c0, idx = fromb(list(bidx))
                    return val_fn(idx)
            if root.prov and ctx is not None:
                ctx.on_array_write(root, what)
            scope.effects.append(Effect("store", root=root, cond=rc, val=rv, guard=scope.guard(), what=what, lineno=ctx.lineno))
            return
        return old_write(self, cond_fn, val_fn, ctx, what)
    Arr.write = new_write

    old_snapshot = Arr.snapshot

    def new_snapshot(self):
        sc = CURRENT[0]
        if sc is not None:
            root = self.rootarr()
            s = sc
            while s is not None:
                if s.is_outer(root):
                    s.read_roots[id(root)] = root
                s = s.parent
        return old_snapshot(self)
    Arr.snapshot = new_snapshot


    old_get = Arr.get

    def new_get(self, idx):
        sc = CURRENT[0]
        if sc is None:
            return old_get(self, idx)
        root = self.rootarr()
        pending = []
        s_ = sc
        while s_ is not None:
            pending = [e for e in s_.effects if e.root is root] + pending
            s_ = s_.parent
        if not pending:
            return old_get(self, idx)
        # read of an array that this generic iteration has (captured) writes to: forward the value stored in this iteration
        bidx = list(idx) if self.root is None else self.tob(list(idx))
        ctx = sc.it.ctx
        for e in reversed(pending):
            if e.kind != "store":
                raise Unsupported("read of an array that is accumulated into in the same loop (line %d)" % e.lineno)
            c = e.cond(bidx)
            hit = b_and(e.guard, c)
            if hit is True or (not isinstance(hit, bool) and ctx.valid(z(hit))):
                return e.val(bidx)
            if c is False or (not isinstance(c, bool) and ctx.valid(z3.Not(z(c)))):
                continue
            raise Unsupported("read of an array element that may have been written earlier in the same loop (line %d): loop-carried dependency not modelled" % e.lineno)
        # not written by this iteration: other iterations must not write it either (else the value depends on the iteration order)
        raise Unsupported("read of an array written elsewhere in the same loop (element not written by this iteration)")
    Arr.get = new_get


CURRENT = [None]


def accumulate(it, target, delta, sign, what):
    """target (Arr view or root) += sign*delta inside a generic scope: captured as an `acc` effect on outer roots"""
    scope = it.ctx.generic
    root = target.rootarr()
    D = npmodel.as_arr(it, delta) if not is_scalar(delta) else None
    if D is not None:
        from .arrays import broadcast_shapes
        shape, mt, mv = broadcast_shapes(it.ctx, target.shape, D.shape)
        ds = D.snapshot()
        dfn = lambda idx: ds(mv(idx))
    else:
        dfn = lambda idx: delta
    if sign < 0:
        d0 = dfn
        dfn = lambda idx: s_neg(d0(idx))
    if target.root is None:
        rc = lambda bidx: True
        rv = dfn
    else:
        fromb = target.fromb
        rc = lambda bidx: fromb(list(bidx))[0]
        rv = lambda bidx: dfn(fromb(list(bidx))[1])
    if root.prov:
        it.ctx.on_array_write(root, what)
    scope.effects.append(Effect("acc", root=root, cond=rc, val=rv, guard=scope.guard(), what=what, lineno=it.ctx.lineno))


# ----------------------------------------------------------------------------- ghost rank / count functions

_rank_registry = {}


def rank_functions(cond_key, nvars):
    """(rank, count) ghost symbols for the set of iterations / cells satisfying a condition, keyed by the canonical condition"""
    h = hashlib.sha256(cond_key.encode()).hexdigest()[:10]
    if h not in _rank_registry:
        _rank_registry[h] = (z3.Function("rank_%s" % h, *([z3.IntSort()] * nvars + [z3.IntSort()])), z3.Int("count_%s" % h),
                             [z3.Function("sel_%s_%d" % (h, j), z3.IntSort(), z3.IntSort()) for j in range(nvars)])
    return _rank_registry[h]


def canonical_cond(cond, kvars):
    canon = [z3.Int("c!%d" % j) for j in range(len(kvars))]
    c = z(cond) if not isinstance(cond, bool) else z3.BoolVal(cond)
    return z3.simplify(z3.substitute(c, *list(zip(kvars, canon)))).sexpr()


class SymSeq:
    """python list built by appends in a symbolic loop: prefix (concrete items) + one element per selected iteration"""

    def __init__(self, prefix, spaces, guard, value_fn, it):
        self.prefix = list(prefix)
        self.spaces = spaces
        self.value_fn = value_fn        # K (list of terms) -> value
        self.guard_true = guard is True or (is_z3(guard) and z3.is_true(z3.simplify(guard)))
        kv = [s.k for s in spaces]
        if self.guard_true and len(spaces) == 1 and spaces[0].count is not None:
            self.count = spaces[0].count
            self.sel = lambda p: [p]
            self.rank = None
        else:
            key = canonical_cond(b_and(guard, *[s.inr(s.k) for s in spaces]), kv)
            rank, count, sel = rank_functions(key, len(kv))
            self.rank, self.count = rank, count
            self.sel = lambda p: [f(zi(p)) for f in sel]
            it.ctx.assume(count >= 0)
            self.guard = guard
            self.kv = kv
            if not hasattr(it.ctx, "symseqs"):
                it.ctx.symseqs = []
            it.ctx.symseqs.append(self)

    def length(self):
        return r_add(len(self.prefix), self.count)

    def __aovc_len__(self, it):
        return self.length()

    def element(self, it, p):
        if self.prefix:
            raise Unsupported("symbolic sequence with a concrete prefix")
        K = self.sel(p)
        return self.value_fn(K)

    def instance_axioms(self, p):
        """selection contract instantiated at position p: sel(p) is in range, satisfies the guard, and has rank p"""
        if self.rank is None:
            return z3.BoolVal(True)
        K = self.sel(p)
        sub = list(zip(self.kv, K))
        g = z(b_and(self.guard, *[s.inr(s.k) for s in self.spaces]))
        g = z3.substitute(g, *sub) if not isinstance(g, bool) else z3.BoolVal(g)
        return z3.Implies(z3.And(zi(p) >= 0, zi(p) < self.count), z3.And(g, self.rank(*K) == zi(p)))

    def __aovc_array__(self, it, dt):
        probe = self.element(it, z3.Int(fresh_name("p")))
        n = self.length()
        res = self._as_array(it, dt, probe, n)
        res.symseq = self
        return res

    def _as_array(self, it, dt, probe, n):
        if is_scalar(probe):
            return Arr([n], lambda idx: self.element(it, idx[0]), dt or "float")
        if isinstance(probe, (list, tuple)) and all(is_scalar(v) for v in probe):
            m = len(probe)

            def f(idx):
                row = self.element(it, idx[0])
                j = idx[1]
                if is_conc(j):
                    return row[int(j)]
                r = row[-1]
                for q in range(m - 2, -1, -1):
                    r = ite(cmp("==", j, q), row[q], r)
                return r
            return Arr([n, m], f, dt or "float")
        if isinstance(probe, Arr):
            sub = list(probe.shape)
            return Arr([n] + sub, lambda idx: self.element(it, idx[0]).get(list(idx[1:])), dt or probe.dtype)
        raise Unsupported("numpy.array of a symbolic sequence of %s" % type(probe).__name__)

    def __aovc_getitem__(self, it, key):
        if is_scalar(key):
            it.ctx.definedness(b_and(cmp(">=", key, 0), cmp("<", key, self.length())), "sequence index in range")
            return self.element(it, key)
        raise Unsupported("slice of a symbolic sequence")

    def __aovc_space__(self, it, space):
        n = self.length()
        space.unit = True
        space.count = n
        space.inr = lambda t: b_and(cmp(">=", t, 0), cmp("<", t, n))
        space.item = lambda t: self.element(it, t)


# ----------------------------------------------------------------------------- the summary

def summarise_for(it, s, fr, iterable):
    install_hooks()
    if s.orelse:
        raise Unsupported("for/else over a symbolic range")
    scan = Scan(s.body)
    if scan.has_break or scan.has_return:
        raise Unsupported("break / return inside a loop with a symbolic trip count")
    space = Space(it, iterable)
    parent = getattr(it.ctx, "generic", None)
    scope = Scope(it, parent, space, s.lineno)
    k = space.k
    # loop annotations are keyed by (function name, ordinal of the `for` statement in the function), not by line number
    fn_node = fr.mod.funcs.get(fr.qualname)
    ordinal = None
    if fn_node is not None:
        fors = [n for n in ast.walk(fn_node) if isinstance(n, ast.For)]
        fors.sort(key=lambda n: (n.lineno, n.col_offset))
        for q, n in enumerate(fors):
            if n is s:
                ordinal = q
    scope.ann = it.loop_annotations.get((fr.qualname.split(".")[-1], ordinal), {})
    scope.ordinal = ordinal
    env = fr.env
    # classify loop-carried names
    target_names = names_of_target(s.target)
    accs, counters, temps = {}, {}, set()
    inherited = set()          # names only updated inside nested loops: handled by the innermost loop that updates them
    scope.outer_lists = {id(v) for v in env.values() if isinstance(v, list)}
    for v in env.values():
        if isinstance(v, Obj):
            scope.outer_lists |= {id(a) for a in v.attrs.values() if isinstance(a, list)}
    for name in set(scan.aug_nested) - set(scan.aug) - set(scan.assigned) - set(scan.assigned_nested):
        inherited.add(name)
    scope.inherited_counters = {}
    for name in set(scan.assigned) | set(scan.aug) | target_names | (set(scan.assigned_nested) - inherited):
        if name in target_names:
            continue
        if name in scan.aug_nested and name in scan.aug:
            raise Unsupported("variable %s is updated both in the loop at line %d and in a nested loop" % (name, s.lineno))
        if name in scan.aug and name not in scan.assigned:
            ops = scan.aug[name]
            if name in env and isinstance(env[name], Arr):
                continue      # in-place op on an array object: captured as array effects
            if all(op in ("Add", "Sub") for op, _ in ops) and scan.reads.get(name, 0) == 0 and name in env:
                accs[name] = env[name]
                continue
            if all(op == "Add" and isinstance(v, ast.Constant) and isinstance(v.value, int) for op, v in ops) and name in env and is_scalar(env[name]):
                counters[name] = env[name]
                continue
            if name in env and isinstance(env[name], Arr):
                continue      # in-place op on an array object: handled as array effects
            raise Unsupported("loop-carried variable %s updated by augmented assignment (not an accumulator / counter) at line %d" % (name, s.lineno))
        temps.add(name)
    saved = {}
    for name in temps:
        if name in env:
            saved[name] = env[name]
            env[name] = Poison("%s is assigned in the loop body: its value from an earlier iteration is not modelled" % name)
    # generic iteration
    inr = space.inr(k)
    it.ctx.pc.append(z(inr) if not isinstance(inr, bool) else z3.BoolVal(inr))
    pc_mark = len(it.ctx.pc)
    scope.assumption_mark = len(it.ctx.assumptions)
    for req in scope.ann.get("requires", []):
        # an instance, at the generic iteration, of a universally quantified precondition of the function (assumed, not proved)
        for formula in req(it, [sp.k for sp in scope.vars()]):
            it.ctx.assumptions.append(formula)
    for lemma in scope.ann.get("lemmas", []):
        for name, formula in lemma(it, [sp.k for sp in scope.vars()]):
            it.ctx.lemma("loop %s#%s: %s" % (fr.qualname, ordinal, name), formula)
    old_generic = getattr(it.ctx, "generic", None)
    it.ctx.generic = scope
    old_current = CURRENT[0]
    CURRENT[0] = scope
    scope.acc_names = set(accs)
    scope.counter_names = {}
    for name, v0 in counters.items():
        env[name] = v0      # replaced below when the guard of the increment is known (two-pass): first pass discovers the guard
    # accumulators are removed from the environment during the body (they must not be read)
    for name in accs:
        env[name] = Poison("accumulator %s read inside the loop body" % name)
    scope.scalar_acc = {n: [] for n in accs}
    scope.counter_incr = {n: [] for n in counters}
    try:
        try:
            if counters:
                # pass 1: find the guards of the increments with the counters havoc
                for name in counters:
                    env[name] = z3.Int(fresh_name("havoc_" + name))
                snapshot_env = dict(env)
                trial = Scope(it, parent, space, s.lineno)
                trial.acc_names, trial.scalar_acc, trial.counter_incr, trial.counter_names = set(accs), {n: [] for n in accs}, {n: [] for n in counters}, {}
                it.ctx.generic = trial
                CURRENT[0] = trial
                defs_mark, frame_mark = len(it.ctx.defs), len(it.ctx.frame_events)
                it.assign(s.target, space.item(k), fr)
                run_body(it, s.body, fr, trial)
                del it.ctx.defs[defs_mark:]
                del it.ctx.frame_events[frame_mark:]
                env.clear()
                env.update(snapshot_env)
                it.ctx.generic = scope
                CURRENT[0] = scope
                kv = [sp.k for sp in scope.vars()]
                for name, v0 in counters.items():
                    incs = trial.counter_incr[name]
                    if len(incs) != 1:
                        raise Unsupported("counter %s incremented at %d places" % (name, len(incs)))
                    c, g = incs[0]
                    full = b_and(g, *[sp.inr(sp.k) for sp in scope.vars()])
                    if any(str(hv) in npmodel.free_consts(z(full) if not isinstance(full, bool) else z3.BoolVal(full)) for hv in [env[n2] for n2 in counters if is_z3(env[n2])]):
                        raise Unsupported("the increment of counter %s depends on the counter" % name)
                    rank, count, sel = rank_functions(canonical_cond(full, kv), len(kv))
                    it.ctx.assume(count >= 0)
                    scope.counter_names[name] = (v0, c, rank, count, g)
                    env[name] = r_add(v0, r_mul(c, rank(*kv)))
                    # instance axioms of the ghost rank at the generic iteration
                    it.ctx.assume(z3.And(rank(*kv) >= 0, rank(*kv) <= count))
                    it.ctx.assume(z3.Implies(z(full) if not isinstance(full, bool) else z3.BoolVal(full), rank(*kv) < count))
                    if not hasattr(it.ctx, "ranks"):
                        it.ctx.ranks = []
                    it.ctx.ranks.append((rank, count, full, kv))
            it.assign(s.target, space.item(k), fr)
            run_body(it, s.body, fr, scope)
        finally:
            it.ctx.generic = old_generic
            CURRENT[0] = old_current
            del it.ctx.pc[pc_mark - 1:]
    except (BreakEx,):
        raise Unsupported("break in symbolic loop")
    # facts assumed during the generic iteration (callee contracts, ghost-function axioms) hold for every iteration in range:
    # keep them conditional on the range and re-instantiate them wherever an iteration K*(x) is substituted
    kvs = [sp.k for sp in scope.vars()]
    rng = z3.And(*[z(sp.inr(sp.k)) if not isinstance(sp.inr(sp.k), bool) else z3.BoolVal(sp.inr(sp.k)) for sp in scope.vars()])
    scope.facts = []
    tail = it.ctx.assumptions[scope.assumption_mark:]
    del it.ctx.assumptions[scope.assumption_mark:]
    for a in tail:
        fv = npmodel.free_consts(a) if is_z3(a) else {}
        if any(str(kk) in fv for kk in kvs):
            cond = z3.Implies(rng, a)
            scope.facts.append(cond)
            it.ctx.assumptions.append(cond)
        else:
            it.ctx.assumptions.append(a)
    if scope.parent is not None:
        scope.parent.child_facts = getattr(scope.parent, "child_facts", []) + scope.facts
    assemble(it, s, fr, scope, accs, counters, temps, saved)


def run_body(it, body, fr, scope):
    try:
        it.exec_block(body, fr)
    except ContinueEx:
        pass


def generic_if(it, st, fr):
    """`if` inside a generic iteration: both branches are executed under local guards and merged (no path fork)"""
    scope = it.ctx.generic
    c = it.truth(it.eval(st.test, fr))
    d = c if isinstance(c, bool) else it.ctx.decide(b_and(c)) if False else (c if isinstance(c, bool) else None)
    if isinstance(c, bool):
        it.exec_block(st.body if c else st.orelse, fr)
        return
    dec = it.ctx.decide(c)
    if dec is not None:
        it.exec_block(st.body if dec else st.orelse, fr)
        return
    env0 = dict(fr.env)
    results = []
    for cond, block in ((c, st.body), (b_not(c), st.orelse)):
        fr.env.clear()
        fr.env.update(env0)
        scope.guards.append(cond)
        it.ctx.pc.append(z(cond))
        ended = False
        try:
            try:
                it.exec_block(block, fr)
            except ContinueEx:
                ended = True
        finally:
            it.ctx.pc.pop()
            scope.guards.pop()
        results.append((cond, dict(fr.env), ended))
    (c1, e1, end1), (c2, e2, end2) = results
    if end1:
        scope.dead.append(c1)
        it.ctx.pc.append(z(b_not(c1)))      # rest of the iteration runs under not c1 (popped with the scope's pc mark)
    if end2:
        scope.dead.append(c2)
        it.ctx.pc.append(z(b_not(c2)))
    merged = {}
    MISSING = object()
    for name in set(e1) | set(e2):
        if end1 and not end2:
            v = e2.get(name, MISSING)
        elif end2 and not end1:
            v = e1.get(name, MISSING)
        else:
            a, b = e1.get(name, MISSING), e2.get(name, MISSING)
            if a is b:
                v = a
            elif a is MISSING or b is MISSING:
                v = Poison("%s is assigned on one branch only" % name)
            elif a is not None and b is not None and is_scalar(a) and is_scalar(b):
                v = ite(c1, a, b)
            elif isinstance(a, Arr) and isinstance(b, Arr) and a.ndim == b.ndim and all(dim_eq(p, q) is True for p, q in zip(a.shape, b.shape)):
                sa, sb = a.snapshot(), b.snapshot()
                v = Arr(list(a.shape), (lambda sa, sb, c1: (lambda idx: ite(c1, sa(idx), sb(idx))))(sa, sb, c1), a.dtype)
            else:
                v = Poison("%s holds different non-scalar values on the two branches" % name)
        if v is not MISSING:
            merged[name] = v
    fr.env.clear()
    fr.env.update(merged)


# ----------------------------------------------------------------------------- assembling the post-loop state

def eff_spaces(scope, eff):
    return scope.vars() + [sc.space for sc in getattr(eff, "inner", [])]


def invert(it, scope, eff, X):
    """K*(X): the iteration that can hit element X, from the index equalities of the effect's region condition"""
    spaces = eff_spaces(scope, eff)
    kv = [sp.k for sp in spaces]
    for sc in [x for x in getattr(eff, "inner", [])][::-1] + [scope]:
        cur = sc
        while cur is not None:
            if cur.ann.get("inverse") is not None:
                return [zi(t) for t in cur.ann["inverse"](X)]
            cur = cur.parent if cur is scope or cur.parent is not None else None
            if cur is not None and cur in getattr(eff, "inner", []):
                break
    c = eff.cond(X)
    c = z3.simplify(z(c)) if not isinstance(c, bool) else z3.BoolVal(c)
    conj = list(c.children()) if z3.is_and(c) else [c]
    sol = {}
    progress = True
    while progress and len(sol) < len(kv):
        progress = False
        for e in conj:
            if not z3.is_eq(e):
                continue
            for lhs, rhs in ((e.arg(0), e.arg(1)), (e.arg(1), e.arg(0))):
                diff = lhs - rhs          # == 0
                for k in kv:
                    if str(k) in sol:
                        continue
                    cur = z3.substitute(diff, *[(kk, sol[str(kk)]) for kk in kv if str(kk) in sol]) if sol else diff
                    fv = npmodel.free_consts(z3.simplify(cur))
                    others = [kk for kk in kv if str(kk) != str(k) and str(kk) not in sol and str(kk) in fv]
                    if str(k) not in fv or others:
                        continue
                    b = z3.simplify(z3.substitute(cur, (k, z3.IntVal(0))))
                    a = z3.simplify(z3.substitute(cur, (k, z3.IntVal(1))) - b)
                    if not z3.is_int_value(a) or a.as_long() == 0:
                        continue
                    if not z3.is_int_value(z3.simplify(cur - (a * k + b))) or z3.simplify(cur - (a * k + b)).as_long() != 0:
                        continue
                    av = a.as_long()
                    # a*k + b == 0  ->  k = -b/a
                    sol[str(k)] = z3.simplify((-b) / av) if abs(av) != 1 else z3.simplify(-b * av)
                    progress = True
                    break
                if progress:
                    break
            if progress:
                break
    if len(sol) < len(kv):
        raise Unsupported("cannot invert the index map of the store at line %d (no `inverse` annotation): %s" % (eff.lineno, c))
    return [sol[str(k)] for k in kv]


def assemble(it, s, fr, scope, accs, counters, temps, saved):
    env = fr.env
    spaces = scope.vars()
    kv = [sp.k for sp in spaces]
    own = scope.space
    lift = scope.parent is not None
    by_root = {}
    for e in scope.effects:
        by_root.setdefault(id(e.root), []).append(e)
    # independence of iterations: an outer array read by snapshot and written (not by +=) in the same loop
    for rid, effs in by_root.items():
        if rid in scope.read_roots and any(e.kind == "store" for e in effs):
            raise Unsupported("array written at line %d is also read inside the loop body (loop-carried dependency)" % effs[0].lineno)
    for rid, effs in by_root.items():
        root = effs[0].root
        if lift and scope.parent.is_outer(root):
            # the array lives outside the enclosing generic iteration too: hand the effects up
            scope.parent.effects.extend([Effect(e.kind, root=e.root, cond=e.cond, val=e.val, guard=e.guard, what=e.what, lineno=e.lineno, inner=([scope] + getattr(e, "inner", []))) for e in effs])
            continue
        kinds = {e.kind for e in effs}
        if kinds == {"store"}:
            apply_stores(it, scope, root, effs)
        elif kinds == {"acc"}:
            apply_accs(it, scope, root, effs)
        else:
            raise Unsupported("array both stored into and accumulated into in one loop")
    if lift and (accs or counters):
        pass
    # scalar accumulators
    for name, v0 in accs.items():
        terms = scope.scalar_acc[name]
        total = v0
        for (delta, g, sign) in terms:
            total = it.binop("Add", total, sum_over(it, scope, lambda K, delta=delta, g=g, sign=sign: guarded(delta, g, sign, kv, K, it), label=name))
        env[name] = total
    for name, v0 in counters.items():
        v0, c, rank, count, g = scope.counter_names[name]
        if scope.parent is not None:
            # inside an enclosing generic iteration the running value after this loop is not modelled; the enclosing loop restores the total
            scope.parent.inherited_counters[name] = (v0, c, count)
            env[name] = Poison("counter %s read between nested loops with symbolic trip counts" % name)
        else:
            env[name] = r_add(v0, r_mul(c, count))
    for name, (v0, c, count) in scope.inherited_counters.items():
        if scope.parent is not None:
            scope.parent.inherited_counters[name] = (v0, c, count)
        else:
            env[name] = r_add(v0, r_mul(c, count))
    for name in temps:
        if name in saved or name in env:
            env[name] = Poison("%s was assigned inside a loop with a symbolic trip count (value after the loop not modelled)" % name)
    # appended lists
    if scope.parent is None:
        for (lst, value_fn, g) in getattr(scope, "appends", []):
            seq = SymSeq(list(lst), getattr(scope, "append_spaces", spaces), g, value_fn, it)
            rebind(fr, lst, seq)
    it.ctx.loop_summaries.append("line %d: %d array effect(s), accumulators %s, counters %s" % (s.lineno, len(scope.effects), sorted(accs), sorted(counters)))


def rebind(fr, old, new):
    for k, v in list(fr.env.items()):
        if v is old:
            fr.env[k] = new
        if isinstance(v, Obj):
            for a, av in list(v.attrs.items()):
                if av is old:
                    v.attrs[a] = new


def subst_fn(kv, K):
    pairs = [(k, zi(t)) for k, t in zip(kv, K)]

    def sub(v):
        if isinstance(v, bool) or is_conc(v):
            return v
        if isinstance(v, Cx):
            return Cx(sub(v.re), sub(v.im))
        if isinstance(v, Polar):
            return Polar(sub(v.r), sub(v.phi))
        if is_z3(v):
            return z3.substitute(v, *pairs)
        return v
    return sub


def subst_value(v, kv, K):
    """the value v (built during the generic iteration over kv) re-evaluated at iteration K"""
    sub = subst_fn(kv, K)
    if isinstance(v, (list, tuple)):
        return type(v)(subst_value(x, kv, K) for x in v)
    if isinstance(v, Arr):
        snap = v.snapshot()
        return Arr([sub(d) for d in v.shape], lambda idx: sub(snap(idx)), v.dtype)
    return sub(v)


def eval_at(it, fn, sub):
    """evaluate fn() (built for the generic iteration) and move it to another iteration: the value and every definedness
    condition recorded while evaluating are substituted"""
    mark = len(it.ctx.defs)
    v = fn()
    new = it.ctx.defs[mark:]
    del it.ctx.defs[mark:]
    for (f, msg, pc, ln, func) in new:
        it.ctx.defs.append((sub(f), msg, [sub(q) for q in pc], ln, func))
    return sub(v)


def guarded(delta, g, sign, kv, K, it):
    sub = subst_fn(kv, K)
    d = sub(delta)
    if sign < 0:
        d = s_neg(d)
    gg = sub(g)
    return ite(gg, d, 0) if not (isinstance(gg, bool) and gg) else d


def sum_over(it, scope, body_K, label="acc", spaces=None):
    """Sigma over the generic iteration space of the scope chain (unit-step ranges only)"""
    spaces = spaces if spaces is not None else scope.vars()
    ranges = []
    for sp in spaces:
        if not sp.unit or sp.count is None:
            raise Unsupported("accumulation over a range with a non-unit step")
        ranges.append((0, sp.count))
    return npmodel.sigma(it, ranges, lambda K: body_K(list(K)), label)


def apply_stores(it, scope, root, effs):
    nd = root.ndim
    X = [z3.Int(fresh_name("x")) for _ in range(nd)]
    new_f = root._f
    for e in effs:
        spaces = eff_spaces(scope, e)
        kv = [sp.k for sp in spaces]
        Kstar = invert(it, scope, e, X)
        # soundness of the inverse: any iteration that hits X is K*(X)  (also gives: at most one iteration writes each cell)
        hit = b_and(e.guard, e.cond(X), *[sp.inr(sp.k) for sp in spaces])
        it.ctx.definedness(z3.Implies(z(hit) if not isinstance(hit, bool) else z3.BoolVal(hit), z3.And(*[k == zi(ks) for k, ks in zip(kv, Kstar)])),
                           "loop summary (line %d): the store index is injective over the iterations (inverse map sound)" % e.lineno)
        old = new_f
        facts = []
        for sc in [scope] + list(getattr(e, "inner", [])):
            facts += getattr(sc, "facts", [])
        facts += getattr(scope, "child_facts", [])

        def f(idx, e=e, old=old, X=X, Kstar=Kstar, spaces=spaces, kv=kv, facts=facts):
            Ks = [z3.substitute(zi(t), *[(x, zi(i)) for x, i in zip(X, idx)]) for t in Kstar]
            sub = subst_fn(kv, Ks)
            for fact in facts:
                inst = sub(fact)
                key = inst.sexpr()
                seen = getattr(it.ctx, "_fact_instances", None)
                if seen is None:
                    seen = it.ctx._fact_instances = set()
                if key not in seen:
                    seen.add(key)
                    it.ctx.assumptions.append(inst)
            c = b_and(*[sp.inr(t) for sp, t in zip(spaces, Ks)])
            c = b_and(c, sub(e.guard), sub(e.cond(idx)))
            if c is False:
                return old(idx)
            pushed = False
            if not isinstance(c, bool):
                it.ctx.pc.append(c)
                pushed = True
            try:
                v = eval_at(it, lambda: e.val(idx), sub)
            finally:
                if pushed:
                    it.ctx.pc.pop()
            from .arrays import cast_elem
            return ite(c, cast_elem(v, root.dtype), old(idx))
        new_f = f
    if len(effs) > 1:
        # different store statements may only collide within the same iteration (statement order is then respected)
        for a in range(len(effs)):
            for b in range(a + 1, len(effs)):
                sa_, sb_ = eff_spaces(scope, effs[a]), eff_spaces(scope, effs[b])
                kva, kvb = [sp.k for sp in sa_], [sp.k for sp in sb_]
                kv2 = [z3.Int(fresh_name("K2")) for _ in kvb]
                ha = b_and(effs[a].guard, effs[a].cond(X), *[sp.inr(sp.k) for sp in sa_])
                hb = b_and(effs[b].guard, effs[b].cond(X), *[sp.inr(sp.k) for sp in sb_])
                hb2 = z3.substitute(z(hb) if not isinstance(hb, bool) else z3.BoolVal(hb), *list(zip(kvb, kv2)))
                common = min(len(kva), len(kvb))
                it.ctx.definedness(z3.Implies(z3.And(z(ha) if not isinstance(ha, bool) else z3.BoolVal(ha), hb2), z3.And(*[k == k2 for k, k2 in list(zip(kva, kv2))[:common]])),
                                   "loop summary (line %d): two store statements collide only within one iteration" % effs[a].lineno)
    root._f = new_f
    root.writes += 1


def apply_accs(it, scope, root, effs):
    old = root._f

    def f(idx, old=old):
        total = old(idx)
        for e in effs:
            spaces = eff_spaces(scope, e)
            kv = [sp.k for sp in spaces]

            def body(K, e=e, kv=kv):
                sub = subst_fn(kv, K)
                c = b_and(sub(e.guard), sub(e.cond(idx)))
                if c is False:
                    return 0
                d = eval_at(it, lambda: e.val(idx), sub)
                return d if c is True else ite(c, d, 0)
            total = s_add(total, sum_over(it, scope, body, "acc", spaces))
        return total
    root._f = npmodel.memo_arr(list(root.shape), f, root.dtype)._f
    root.writes += 1
