"""C12 Zernike indexing, modes, normalisations and gradient matrices are right."""
import sys, os
sys.path.insert(0, os.path.dirname(os.path.dirname(os.path.abspath(__file__))))
from aovc.check import run_check
from contracts import zernike


def build(chk):
    chk.assumptions_used.update(["A-REAL", "A-NP"])
    zernike.obligations(chk)
    zernike.mode_obligations(chk)
    zernike.array_obligations(chk)
    # clauses not (yet) under a deductive contract: bounded native stand-ins, labelled bounded
    chk.bounded_native("p2v / rms normalisation", "array.norms", "N in {16,17,32}, first 10 modes", "aotools/functions/zernike.py:zernikeArray")
    chk.bounded_native("orthonormality over the pupil (Gram matrix)", "orthonormal", "N=256, 21 modes, tolerance 0.02", "aotools/functions/zernike.py:zernikeArray")
    chk.bounded_native("gamma matrices reproduce the gradients", "gammas", "nzrad=4, N=256, central differences, 2% tolerance", "aotools/functions/zernike.py:makegammas")
    chk.bounded_native("float sqrt bridge for zernIndex", "noll.index", "j <= 3000 (quick) / 200000 (thorough) and block boundaries up to n = 2^24+1", "aotools/functions/zernike.py:zernIndex")
    chk.not_decided.append("Gram matrix tends to the identity as the grid is refined (limit); exact continuous orthonormality is not proved in this round")
    chk.notes.append("zernIndex is proved over the reals with sqrt exact (A-REAL); the float sqrt is bridged by the bounded native comparison with an integer-only specification")


if __name__ == "__main__":
    sys.exit(run_check("C12", "Zernike indexing, modes, normalisations and gradient matrices are right", build))
