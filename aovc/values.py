"""Symbolic value domain of the aovc executor.

Scalars : python int / Fraction / bool (concrete, exact), z3 ArithRef / BoolRef (symbolic),
          Cx(re, im) complex, Polar(r, phi) = r*exp(i*phi) (produced by numpy.exp of 1j*real).
Arrays  : Arr (functional array: shape + index -> element closure, live views onto a base),
          abstract array values of other encodings (operator words, matrices) plug in via
          the `__aovc_binop__` / `__aovc_method__` protocol.
Python floats never occur: float literals are read as the exact decimal they are written as
(0.423 -> 423/1000) and all arithmetic is over the reals (assumption A-REAL).
"""
from fractions import Fraction
import itertools
import z3


class Unsupported(Exception):
    """Construct or library call outside the modelled subset: the function is not under contract."""


class DefinednessError(Exception):
    """A concrete definedness failure (division by literal zero, index out of range ...)."""


_counter = itertools.count()
MODE = {"log": False}     # log-monomial mode: numpy.pi and irrational constant powers are carried as LogVal


def fresh_name(prefix):
    return "%s!%d" % (prefix, next(_counter))


# ----------------------------------------------------------------------------- scalars

def is_z3(x):
    return isinstance(x, z3.ExprRef)


def is_conc(x):
    return isinstance(x, (int, Fraction, bool)) and not is_z3(x)


def is_real_scalar(x):
    return is_conc(x) or (is_z3(x) and (z3.is_arith(x)))


def is_bool(x):
    return isinstance(x, bool) or (is_z3(x) and z3.is_bool(x))


def lit(x):
    """python literal -> exact value"""
    if isinstance(x, bool):
        return x
    if isinstance(x, int):
        return x
    if isinstance(x, float):
        if x != x or x in (float("inf"), float("-inf")):
            raise Unsupported("non-finite float literal")
        return Fraction(repr(x))
    if isinstance(x, complex):
        return Cx(lit(x.real), lit(x.imag))
    return x


def z(x):
    """to z3 arithmetic / boolean term"""
    if is_z3(x):
        return x
    if isinstance(x, bool):
        return z3.BoolVal(x)
    if isinstance(x, int):
        return z3.IntVal(x)
    if isinstance(x, Fraction):
        if x.denominator == 1:
            return z3.RealVal(x.numerator)
        return z3.RealVal(str(x.numerator) + "/" + str(x.denominator))
    raise Unsupported("cannot convert %r to a z3 term" % (x,))


def zr(x):
    """to z3 Real term"""
    t = z(x)
    if z3.is_bool(t):
        t = z3.If(t, z3.RealVal(1), z3.RealVal(0))
    if z3.is_int(t):
        if z3.is_int_value(t):
            return z3.RealVal(t.as_long())
        return z3.ToReal(t)
    return t


def zi(x):
    """to z3 Int term (value must be integral: Int sort or concrete integer)"""
    if isinstance(x, bool):
        return z3.IntVal(int(x))
    if isinstance(x, int):
        return z3.IntVal(x)
    if isinstance(x, Fraction):
        if x.denominator != 1:
            raise Unsupported("non-integral index %r" % (x,))
        return z3.IntVal(x.numerator)
    if is_z3(x):
        if z3.is_int(x):
            return x
        if z3.is_bool(x):
            return z3.If(x, z3.IntVal(1), z3.IntVal(0))
        s = z3.simplify(x)
        if z3.is_rational_value(s) and s.denominator_as_long() == 1:
            return z3.IntVal(s.numerator_as_long())
        if z3.is_app_of(x, z3.Z3_OP_TO_REAL):
            return x.arg(0)
        raise Unsupported("real-valued term used where an integer is needed: %s" % x)
    raise Unsupported("cannot convert %r to Int" % (x,))


def is_int_valued(x):
    if isinstance(x, bool) or isinstance(x, int):
        return True
    if isinstance(x, Fraction):
        return x.denominator == 1
    if is_z3(x):
        return z3.is_int(x)
    return False


def simp(x):
    if is_z3(x):
        s = z3.simplify(x)
        if z3.is_int_value(s):
            return s.as_long()
        if z3.is_rational_value(s):
            f = Fraction(s.numerator_as_long(), s.denominator_as_long())
            return f
        if z3.is_true(s):
            return True
        if z3.is_false(s):
            return False
        return s
    return x


class Cx:
    """complex scalar re + i*im (re, im real scalars)"""
    __slots__ = ("re", "im")

    def __init__(self, re, im):
        self.re = re
        self.im = im

    def __repr__(self):
        return "Cx(%s, %s)" % (self.re, self.im)


class Polar:
    """r * exp(i*phi), r and phi real scalars; produced by numpy.exp(1j*real)"""
    __slots__ = ("r", "phi")

    def __init__(self, r, phi):
        self.r = r
        self.phi = phi

    def __repr__(self):
        return "Polar(%s, %s)" % (self.r, self.phi)


# uninterpreted real functions, shared by everything so that equal applications are equal terms
_ufs = {}


def UF(name, arity=1, rng=None):
    key = (name, arity)
    if key not in _ufs:
        _ufs[key] = z3.Function(name, *([z3.RealSort()] * arity + [rng or z3.RealSort()]))
    return _ufs[key]


def used_ufs():
    return sorted(k[0] for k in _ufs)


PI = z3.Real("PI")
PI_AXIOMS = [PI > z3.RealVal("3.14159265358"), PI < z3.RealVal("3.14159265359")]

# axioms instantiated for sqrt / cos / sin terms as they are created (collected per context)


def r_add(a, b):
    if is_conc(a) and is_conc(b):
        return _num(a) + _num(b)
    if is_conc(a) and _num(a) == 0:
        return b
    if is_conc(b) and _num(b) == 0:
        return a
    return _arith(a) + _arith(b)


def r_sub(a, b):
    if is_conc(a) and is_conc(b):
        return _num(a) - _num(b)
    if is_conc(b) and _num(b) == 0:
        return a
    return _arith(a) - _arith(b)


def _sqrt_arg(t):
    if is_z3(t) and z3.is_app(t) and t.decl().name() == "sqrt" and t.num_args() == 1:
        return t.arg(0)
    return None


def r_mul(a, b):
    if is_conc(a) and is_conc(b):
        return _num(a) * _num(b)
    sa = _sqrt_arg(a)
    if sa is not None and is_z3(b) and a.eq(b):
        return sa          # sqrt(t)*sqrt(t) = t  (t >= 0 is a definedness obligation of the sqrt)
    if is_conc(a):
        if _num(a) == 0:
            return 0
        if _num(a) == 1:
            return b
    if is_conc(b):
        if _num(b) == 0:
            return 0
        if _num(b) == 1:
            return a
    return _arith(a) * _arith(b)


def r_neg(a):
    if is_conc(a):
        return -_num(a)
    return -_arith(a)


def r_div(a, b, ctx=None):
    """true division"""
    if is_conc(b):
        if _num(b) == 0:
            if ctx is not None:
                ctx.definedness(False, "division by zero")
            raise DefinednessError("division by zero")
        if is_conc(a):
            return Fraction(_num(a)) / Fraction(_num(b))
        if _num(b) == 1:
            return _as_real(a)
        return zr(a) / zr(b)
    if ctx is not None:
        ctx.definedness(z(b) != 0, "divisor non-zero")
    if is_conc(a) and _num(a) == 0:
        return 0
    if ctx is not None and is_z3(a):
        c = _cancel_factor(z(a), z(b))        # (x*b)/b = x: sound under the `divisor non-zero` obligation emitted above
        if c is not None:
            return c
    return zr(a) / zr(b)


def _cancel_factor(t, b):
    """x if t is syntactically a product x*b (or b*x) of two factors, else None"""
    def strip(u):
        return u.arg(0) if z3.is_app(u) and u.decl().kind() == z3.Z3_OP_TO_REAL else u
    t, b = strip(t), strip(b)
    if not (z3.is_int(t) and z3.is_int(b)):
        return None          # integer terms only (shape arithmetic such as (W*n)/n); real quotients are left to the solver
    if z3.is_mul(t) and t.num_args() == 2:
        x, y = strip(t.arg(0)), strip(t.arg(1))
        if y.eq(b):
            return zr(x)
        if x.eq(b):
            return zr(y)
    return None


def _as_real(a):
    if is_conc(a):
        return a
    return zr(a)


def _num(a):
    if isinstance(a, bool):
        return int(a)
    return a


def _arith(a):
    t = z(a)
    if z3.is_bool(t):
        return z3.If(t, z3.IntVal(1), z3.IntVal(0))
    return t


def r_pow(a, b, ctx=None):
    """a ** b over the reals"""
    if is_conc(b):
        bn = Fraction(_num(b))
        if bn.denominator == 1:
            n = int(bn)
            if is_conc(a):
                an = _num(a)
                if n >= 0:
                    return an ** n
                if an == 0:
                    raise DefinednessError("0 ** negative")
                return Fraction(1) / (Fraction(an) ** (-n))
            if 0 <= n <= 8:
                if n == 0:
                    return 1
                r = a
                for _ in range(n - 1):
                    r = r_mul(r, a)
                return r
            if -8 <= n < 0:
                return r_div(1, r_pow(a, -n, ctx), ctx)
        if bn == Fraction(1, 2):
            return r_sqrt(a, ctx)
        if is_conc(a):
            an = Fraction(_num(a))
            # exact rational roots of perfect powers
            if an >= 0:
                num = _iroot(an.numerator, bn.denominator)
                den = _iroot(an.denominator, bn.denominator)
                if num is not None and den is not None:
                    base = Fraction(num, den)
                    p = bn.numerator
                    return base ** p if p >= 0 else Fraction(1) / (base ** (-p))
    if is_conc(a) and isinstance(_num(a), int) and _num(a) >= 1 and is_z3(b) and z3.is_int(b) and not MODE["log"]:
        # integer power with a non-negative integer exponent stays an integer (python semantics); negative exponents are excluded
        if ctx is not None and ctx.valid(b >= 0):
            f = z3.Function("ipow", z3.IntSort(), z3.IntSort(), z3.IntSort())
            t = f(z3.IntVal(_num(a)), b)
            ctx._axiom("ipow", t >= 1)
            return t
    if MODE["log"] and is_conc(a) and is_conc(b) and Fraction(_num(a)) > 0:
        from .logmono import LogVal, log_of_rational
        return LogVal(z3.simplify(log_of_rational(Fraction(_num(a))) * zr(Fraction(_num(b)))))
    if is_conc(a) and _num(a) == 10 and is_z3(b):
        from .logmono import pow10
        return pow10(b)
    f = UF("pow", 2)
    t = f(zr(a), zr(b))
    if ctx is not None:
        ctx.note_pow(zr(a), zr(b), t)
    return t


def _iroot(n, k):
    if n < 0:
        return None
    if n in (0, 1) or k == 1:
        return n
    r = int(round(n ** (1.0 / k)))
    for c in (r - 1, r, r + 1):
        if c >= 0 and c ** k == n:
            return c
    return None


def r_sqrt(a, ctx=None):
    if is_conc(a):
        an = Fraction(_num(a))
        if an < 0:
            raise DefinednessError("sqrt of negative")
        num = _iroot(an.numerator, 2)
        den = _iroot(an.denominator, 2)
        if num is not None and den is not None:
            return Fraction(num, den) if den != 1 else num
    t = UF("sqrt")(zr(a))
    if ctx is not None:
        ctx.note_sqrt(zr(a), t)
    return t


def r_abs(a):
    if is_conc(a):
        return abs(_num(a))
    t = _arith(a)
    return z3.If(t >= 0, t, -t)


def r_floor(a):
    """floor as Int"""
    if is_conc(a):
        f = Fraction(_num(a))
        return f.numerator // f.denominator
    if z3.is_int(a):
        return a
    return z3.ToInt(a)


def r_trunc(a):
    """int(x): truncation toward zero"""
    if is_conc(a):
        f = Fraction(_num(a))
        q = abs(f.numerator) // f.denominator
        return q if f >= 0 else -q
    if z3.is_int(a):
        return a
    if z3.is_bool(a):
        return z3.If(a, z3.IntVal(1), z3.IntVal(0))
    return z3.If(a >= 0, z3.ToInt(a), -z3.ToInt(-a))


def r_round_half_even(a):
    """round(x) / numpy.round(x): nearest integer, ties to even (as Int)"""
    if is_conc(a):
        f = Fraction(_num(a))
        fl = f.numerator // f.denominator
        rem = f - fl
        if rem > Fraction(1, 2):
            return fl + 1
        if rem < Fraction(1, 2):
            return fl
        return fl if fl % 2 == 0 else fl + 1
    if z3.is_int(a):
        return a
    fl = z3.ToInt(a)
    rem = a - z3.ToReal(fl)
    half = z3.RealVal("1/2")
    return z3.If(rem > half, fl + 1, z3.If(rem < half, fl, z3.If(fl % 2 == 0, fl, fl + 1)))


def cmp(op, a, b):
    if hasattr(a, "__aovc_sop__") or hasattr(b, "__aovc_sop__"):
        r = _plug("cmp" + op, a, b)
        if r is not NotImplemented:
            return r
    if is_conc(a) and is_conc(b):
        a, b = _num(a), _num(b)
        return {"<": a < b, "<=": a <= b, ">": a > b, ">=": a >= b, "==": a == b, "!=": a != b}[op]
    if is_bool(a) and is_bool(b) and op in ("==", "!="):
        A, B = z(a), z(b)
        return (A == B) if op == "==" else (A != B)
    A, B = _arith(a), _arith(b)
    return {"<": A < B, "<=": A <= B, ">": A > B, ">=": A >= B, "==": A == B, "!=": A != B}[op]


def b_and(*xs):
    out = []
    for x in xs:
        if isinstance(x, bool):
            if not x:
                return False
            continue
        out.append(x)
    if not out:
        return True
    return z3.And(*out) if len(out) > 1 else out[0]


def b_or(*xs):
    out = []
    for x in xs:
        if isinstance(x, bool):
            if x:
                return True
            continue
        out.append(x)
    if not out:
        return False
    return z3.Or(*out) if len(out) > 1 else out[0]


def b_not(x):
    if isinstance(x, bool):
        return not x
    return z3.Not(x)


def ite(c, a, b):
    if isinstance(c, bool):
        return a if c else b
    if hasattr(a, "__aovc_sop__") or hasattr(b, "__aovc_sop__"):
        r = (a if hasattr(a, "__aovc_sop__") else b).__aovc_sop__("ite", (c, a), b, None)
        if r is not NotImplemented:
            return r
    if isinstance(a, (Cx,)) or isinstance(b, (Cx,)):
        a, b = to_cx(a), to_cx(b)
        return Cx(ite(c, a.re, b.re), ite(c, a.im, b.im))
    if isinstance(a, Polar) or isinstance(b, Polar):
        a, b = to_polar(a), to_polar(b)
        return Polar(ite(c, a.r, b.r), ite(c, a.phi, b.phi))
    if is_bool(a) and is_bool(b):
        return z3.If(c, z(a), z(b))
    A, B = _arith(a), _arith(b)
    if is_conc(a) and is_conc(b) and _num(a) == _num(b):
        return a
    if z3.is_int(A) != z3.is_int(B):
        A, B = zr(A), zr(B)
    if A.eq(B):
        return a
    return z3.If(c, A, B)


# ----------------------------------------------------------------------------- complex

def to_cx(a):
    if isinstance(a, Cx):
        return a
    if isinstance(a, Polar):
        raise Unsupported("polar value used in rectangular complex arithmetic")
    return Cx(a, 0)


def to_polar(a):
    if isinstance(a, Polar):
        return a
    if isinstance(a, Cx):
        if is_conc(a.im) and _num(a.im) == 0:
            return Polar(a.re, 0)
        if is_conc(a.re) and _num(a.re) == 0:
            # i*y = y * exp(i*pi/2)
            return Polar(a.im, r_div(PI, 2))
        raise Unsupported("general complex value in polar arithmetic")
    return Polar(a, 0)


def is_scalar(x):
    return is_conc(x) or is_z3(x) or isinstance(x, (Cx, Polar)) or hasattr(x, "__aovc_sop__")


def _plug(op, a, b, ctx=None):
    """plug-in scalar domains (log-monomials ...) implement __aovc_sop__(op, a, b, ctx)"""
    if hasattr(a, "__aovc_sop__"):
        return a.__aovc_sop__(op, a, b, ctx)
    if b is not None and hasattr(b, "__aovc_sop__"):
        return b.__aovc_sop__(op, a, b, ctx)
    return NotImplemented


def s_add(a, b, ctx=None):
    r = _plug("add", a, b, ctx)
    if r is not NotImplemented:
        return r
    if isinstance(a, Polar) or isinstance(b, Polar):
        a = polar_to_cx(a) if isinstance(a, Polar) else a
        b = polar_to_cx(b) if isinstance(b, Polar) else b
    if isinstance(a, Cx) or isinstance(b, Cx):
        a, b = to_cx(a), to_cx(b)
        return Cx(r_add(a.re, b.re), r_add(a.im, b.im))
    return r_add(a, b)


def s_sub(a, b, ctx=None):
    r = _plug("sub", a, b, ctx)
    if r is not NotImplemented:
        return r
    if isinstance(a, Polar) or isinstance(b, Polar):
        raise Unsupported("difference involving exp(i*phi) values")
    if isinstance(a, Cx) or isinstance(b, Cx):
        a, b = to_cx(a), to_cx(b)
        return Cx(r_sub(a.re, b.re), r_sub(a.im, b.im))
    return r_sub(a, b)


def polar_to_cx(p):
    """r exp(i phi) = r cos(phi) + i r sin(phi)  (cos / sin uninterpreted)"""
    return Cx(r_mul(p.r, UF("cos")(zr(p.phi))), r_mul(p.r, UF("sin")(zr(p.phi))))


def _general_cx(x):
    return isinstance(x, Cx) and not ((is_conc(x.im) and _num(x.im) == 0) or (is_conc(x.re) and _num(x.re) == 0))


def s_mul(a, b, ctx=None):
    r = _plug("mul", a, b, ctx)
    if r is not NotImplemented:
        return r
    if (isinstance(a, Polar) and _general_cx(b)) or (isinstance(b, Polar) and _general_cx(a)):
        a = polar_to_cx(a) if isinstance(a, Polar) else a
        b = polar_to_cx(b) if isinstance(b, Polar) else b
    if isinstance(a, Polar) or isinstance(b, Polar):
        a, b = to_polar(a), to_polar(b)
        return Polar(r_mul(a.r, b.r), r_add(a.phi, b.phi))
    if isinstance(a, Cx) or isinstance(b, Cx):
        a, b = to_cx(a), to_cx(b)
        return Cx(r_sub(r_mul(a.re, b.re), r_mul(a.im, b.im)), r_add(r_mul(a.re, b.im), r_mul(a.im, b.re)))
    return r_mul(a, b)


def s_neg(a):
    r = _plug("neg", a, None)
    if r is not NotImplemented:
        return r
    if isinstance(a, Polar):
        return Polar(r_neg(a.r), a.phi)
    if isinstance(a, Cx):
        return Cx(r_neg(a.re), r_neg(a.im))
    return r_neg(a)


def s_div(a, b, ctx=None):
    r = _plug("div", a, b, ctx)
    if r is not NotImplemented:
        return r
    if isinstance(a, Polar) or isinstance(b, Polar):
        a, b = to_polar(a), to_polar(b)
        return Polar(r_div(a.r, b.r, ctx), r_sub(a.phi, b.phi))
    if isinstance(b, Cx):
        a = to_cx(a)
        den = r_add(r_mul(b.re, b.re), r_mul(b.im, b.im))
        num_re = r_add(r_mul(a.re, b.re), r_mul(a.im, b.im))
        num_im = r_sub(r_mul(a.im, b.re), r_mul(a.re, b.im))
        return Cx(r_div(num_re, den, ctx), r_div(num_im, den, ctx))
    if isinstance(a, Cx):
        return Cx(r_div(a.re, b, ctx), r_div(a.im, b, ctx))
    return r_div(a, b, ctx)


def s_pow(a, b, ctx=None):
    r = _plug("pow", a, b, ctx)
    if r is not NotImplemented:
        return r
    if isinstance(a, (Cx, Polar)) or isinstance(b, (Cx, Polar)):
        if isinstance(a, Polar) and is_conc(b):
            return Polar(r_pow(a.r, b, ctx), r_mul(a.phi, b))
        if isinstance(a, Cx) and is_conc(b) and Fraction(_num(b)).denominator == 1 and 0 <= int(b) <= 4:
            r = Cx(1, 0)
            for _ in range(int(b)):
                r = s_mul(r, a)
            return r
        raise Unsupported("complex power")
    return r_pow(a, b, ctx)


def s_abs(a, ctx=None):
    if isinstance(a, Polar):
        return r_abs(a.r)
    if isinstance(a, Cx):
        return r_sqrt(r_add(r_mul(a.re, a.re), r_mul(a.im, a.im)), ctx)
    return r_abs(a)


def s_abs2(a):
    """|a|^2 without the square root"""
    if isinstance(a, Polar):
        return r_mul(a.r, a.r)
    if isinstance(a, Cx):
        return r_add(r_mul(a.re, a.re), r_mul(a.im, a.im))
    return r_mul(a, a)


def s_real(a):
    if isinstance(a, Cx):
        return a.re
    if isinstance(a, Polar):
        return r_mul(a.r, UF("cos")(zr(a.phi)))
    return a


def s_imag(a):
    if isinstance(a, Cx):
        return a.im
    if isinstance(a, Polar):
        return r_mul(a.r, UF("sin")(zr(a.phi)))
    return 0


def s_conj(a):
    if isinstance(a, Cx):
        return Cx(a.re, r_neg(a.im))
    if isinstance(a, Polar):
        return Polar(a.r, r_neg(a.phi))
    return a


def s_exp(a, ctx=None):
    if isinstance(a, Cx):
        if is_conc(a.re) and _num(a.re) == 0:
            return Polar(1, a.im)
        return Polar(UF("exp")(zr(a.re)), a.im)
    if isinstance(a, Polar):
        raise Unsupported("exp of polar value")
    if is_conc(a) and _num(a) == 0:
        return 1
    t = UF("exp")(zr(a))
    if ctx is not None:
        ctx.note_exp(zr(a), t)
    return t


def s_eq(a, b):
    """equality of two scalars as a formula"""
    r = _plug("eq", a, b)
    if r is not NotImplemented:
        return r
    if isinstance(a, Polar) or isinstance(b, Polar):
        a, b = to_polar(a), to_polar(b)
        return b_and(cmp("==", a.r, b.r), cmp("==", a.phi, b.phi))
    if isinstance(a, Cx) or isinstance(b, Cx):
        a, b = to_cx(a), to_cx(b)
        return b_and(cmp("==", a.re, b.re), cmp("==", a.im, b.im))
    return cmp("==", a, b)
