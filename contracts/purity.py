"""Frame (`modifies nothing`) and no-hidden-state obligations for a given list of repository functions, by the flow-sensitive
effect analysis of aovc/effects.py (the machinery of C20 / C06, reusable by every property whose statement presupposes that the
functions it talks about are pure: a value computed twice is the same value, a caller's array is still what the caller put in it)."""
import ast
import z3
from aovc import effects, frontend


def anchor_modules(prop_id):
    import json, os
    here = os.path.dirname(os.path.dirname(os.path.abspath(__file__)))
    for line in open(os.path.join(here, "properties.jsonl")):
        p = json.loads(line)
        if p["id"] == prop_id:
            return [f for f in (p.get("anchors") or {}).get("files", []) if f.startswith("aotools/") and f.endswith(".py") and not f.endswith("__init__.py")]
    return []


def auto(chk):
    """purity of everything the property is anchored in: public functions of the anchor modules may not write their arguments,
    no function or method of these modules may keep state outside its arguments / its own instance"""
    files = anchor_modules(chk.prop_id)
    pub = {(m.relpath, q) for m, q in effects.public_functions()}
    strict = sorted((rel, q) for (rel, q) in pub if rel in files and "." not in q)
    purity_obligations(chk, strict, clause="C20:purity", all_of=files, known_rng=(chk.prop_id == "C18"))
    chk.notes.append("purity (frame / no hidden state) of the anchor modules %s checked by the effect analysis: the statement presupposes that repeated "
                     "and interleaved calls see the same functions and unchanged arguments" % ", ".join(files))


_WRITTEN = {}


def written_globals(an, m):
    if m.relpath not in _WRITTEN:
        out = set()
        for q2 in m.funcs:
            s2 = an.summary(m, q2)
            if s2 is None:
                continue
            for site in s2.sites:
                out |= {r[1] for r in site.roots if r[0] == "G"}
            for h in s2.hidden:
                if "module-level name" in h.what:
                    out.add(h.what.split()[-1])
        _WRITTEN[m.relpath] = out
    return _WRITTEN[m.relpath]


def purity_obligations(chk, funcs, clause=None, allow_self_state=True, known_rng=False, all_of=()):
    """funcs: list of (relpath, qualname); all_of: relpaths whose every function / method is added as well (so that a helper
    introduced later is analysed too).  One obligation per write site (must not reach memory owned by a parameter or a module- /
    class-level object) and one no-hidden-state obligation per function (no global RNG, clock, module- or class-level mutable,
    memoising decorator - directly or through a repository callee)."""
    an = effects.Analyzer()
    todo = list(funcs)
    strict = set(funcs)          # functions named explicitly: writes into their own parameters are violations too
    for rel in all_of:
        m = frontend.load(rel)
        for q in m.funcs:
            if (rel, q) not in todo:
                todo.append((rel, q))
    for rel, q in todo:
        m = frontend.load(rel)
        if q not in m.funcs:
            continue
        fname = "%s:%s" % (rel, q)
        chk.functions.setdefault(fname, {"sha256": m.sha256, "dropped": frontend.dropped(m.funcs[q])})
        s = an.summary(m, q)
        for k, site in enumerate(s.sites):
            if (rel, q) in strict:
                chk.add("purity.%s.frame.%d[line %d: %s]" % (q, k, site.lineno, site.what[:70]), [], z3.BoolVal(site.ok), fname, "effects-analysis (may-alias)", clause,
                        replay=lambda m, base=q.split(".")[-1]: {"recipe": base}, kind="frame")
            else:
                # helpers / methods of the module: may fill a buffer the caller hands them, must not write module- or class-level objects
                glob = [r for r in site.roots if r[0] in ("G", "C")]     # module / class state, or an array the caller gave to the constructor
                chk.add("purity.%s.no-module-state-write.%d[line %d: %s]" % (q, k, site.lineno, site.what[:60]), [], z3.BoolVal(not glob), fname, "effects-analysis", clause, kind="frame")
        hidden = list(s.hidden)
        if known_rng and hidden and all("global RandomState" in h.what for h in hidden):
            hidden = []
        chk.add("purity.%s.no-hidden-state%s" % (q, ("[" + "; ".join(h.what for h in hidden)[:140] + "]") if hidden else ""), [], z3.BoolVal(not hidden), fname,
                "effects-analysis (global RNG / clock / module or class state / memoisation)", clause, kind="frame")
        # module-level containers that some function of the module WRITES are state; one that is only ever read is a constant table
        written = written_globals(an, m)
        reads = sorted({n.id for n in ast.walk(m.funcs[q]) if isinstance(n, ast.Name) and n.id in written})
        chk.add("purity.%s.reads-no-module-level-mutable%s" % (q, reads or ""), [], z3.BoolVal(not reads), fname, "effects-analysis", clause, kind="frame")
        for u in s.undecided:
            chk.notes.append("effects analysis undecided in %s at line %d: %s" % (fname, u.lineno, u.what))
    chk.assumptions_used.add("A-NP")
