"""Contracts for aotools/turbulence/atmos_conversions.py and aotools/astronomy/_astronomy.py (property C17).

Encoding: log-monomial (aovc/logmono.py).  Every positive input x is the symbol lg_x = log10(x); the real bodies are
executed on those values, so each result is a linear expression in the lg symbols and the LG_p constants; inverse-pair,
composition and scaling clauses are linear-real-arithmetic obligations valid for ALL positive inputs."""
import z3
from aovc.check import num
from aovc.contract import verify
from aovc.logmono import LogVal, axioms, close
from aovc.values import zr, Unsupported
from aovc.arrays import Arr, sym_arr
from aovc.symex import BoundMethod
from fractions import Fraction

ATM = "aotools/turbulence/atmos_conversions.py"
AST = "aotools/astronomy/_astronomy.py"
BANDS = ['U', 'B', 'V', 'R', 'I', 'J', 'H', 'K', 'g', 'r', 'i', 'z']


def pos(name):
    return LogVal.sym(name)


def replay_logs(extra=None):
    def rp(m):
        out = dict(extra or {})
        for d in m.decls():
            n = d.name()
            if n.startswith("lg_"):
                out[n[3:]] = 10.0 ** float(num(m[d]))
            elif d.arity() == 0 and not n.startswith("LG_") and "!" not in n:
                out[n] = num(m[d])
        return out
    return rp


class Positive1D:
    """a length-1 profile array [x] (single layer)"""
    pass


def one(it, v):
    from aovc.npmodel import array
    return array(it, [v])


class SumStub:
    """ndarray whose .sum() is a positive real (mask with at least one transparent pixel)"""
    def __init__(self, name):
        self.s = pos(name)

    def __aovc_attr__(self, it, name):
        return BoundMethod(self, name)

    def __aovc_method__(self, it, name, args, kwargs):
        if name == "sum" and not args and not kwargs:
            it.ctx.trusted_calls.add("ndarray.sum (positive mask sum)")
            return self.s
        return NotImplemented


class VarStub:
    """slope array whose per-row variance var(axis=-1) is the positive real v for every row (then mean over rows is v)"""
    def __init__(self, name):
        self.v = pos(name)

    def __aovc_attr__(self, it, name):
        return BoundMethod(self, name)

    def __aovc_method__(self, it, name, args, kwargs):
        if name == "var":
            ax = kwargs.get("axis", args[0] if args else None)
            if ax not in (-1, (-1)):
                raise Unsupported("var over axis %r: the contract is about the frame axis (-1)" % (ax,))
            it.ctx.trusted_calls.add("ndarray.var(axis=-1) (rows of equal variance)")
            return self.v
        return NotImplemented


def call(chk_it, rel, fn, *args, **kw):
    return chk_it.call_repo(rel, fn, list(args), kw)


def lv_eq(a, b):
    A, B = LogVal.coerce(a), LogVal.coerce(b)
    return A.L == B.L


def obligations(chk):
    c, r0, see, lam, k = pos("cn2"), pos("r0"), pos("seeing"), pos("lamda"), pos("k")
    AX = axioms

    def one_clause(name, function, body, clause, extra_replay=None, encoding="log-monomial"):
        """body(it) -> list of (clause, goal)"""
        holder = {}

        def run(it):
            from aovc import values
            values.MODE["log"] = True
            try:
                holder["goals"] = body(it)
            finally:
                values.MODE["log"] = False
            return None

        def post(pr):
            return [(n, g, {"hyps": AX()}) for n, g in holder["goals"]]
        verify(chk, name, function, run, post, clause=clause, replay=replay_logs(extra_replay), encoding=encoding, frame=False)

    # ---- inverse pairs, both directions, explicit wavelength and default wavelength
    pairs = [("cn2_to_r0", "r0_to_cn2", c, r0), ("r0_to_seeing", "seeing_to_r0", r0, see), ("cn2_to_seeing", "seeing_to_cn2", c, see)]
    for f, g, x, y in pairs:
        def body(it, f=f, g=g, x=x, y=y):
            out = []
            out.append(("%s(%s(x,lam),lam)=x" % (g, f), lv_eq(call(it, ATM, g, call(it, ATM, f, x, lam), lam), x)))
            out.append(("%s(%s(y,lam),lam)=y" % (f, g), lv_eq(call(it, ATM, f, call(it, ATM, g, y, lam), lam), y)))
            out.append(("%s(%s(x))=x[default-wavelength]" % (g, f), lv_eq(call(it, ATM, g, call(it, ATM, f, x)), x)))
            out.append(("%s(%s(y))=y[default-wavelength]" % (f, g), lv_eq(call(it, ATM, f, call(it, ATM, g, y)), y)))
            out.append(("default-wavelength-is-500nm[%s]" % f, lv_eq(call(it, ATM, f, x), call(it, ATM, f, x, Fraction(500, 10**9)))))
            out.append(("default-wavelength-is-500nm[%s]" % g, lv_eq(call(it, ATM, g, y), call(it, ATM, g, y, Fraction(500, 10**9)))))
            return out
        one_clause("inverse[%s,%s]" % (f, g), ATM + ":%s,%s" % (f, g), body, "inverse.%s" % f)

    # ---- composites are the composition of the elementary converters with the same wavelength
    def body_comp(it):
        return [
            ("cn2_to_seeing=r0_to_seeing.cn2_to_r0", lv_eq(call(it, ATM, "cn2_to_seeing", c, lam), call(it, ATM, "r0_to_seeing", call(it, ATM, "cn2_to_r0", c, lam), lam))),
            ("seeing_to_cn2=r0_to_cn2.seeing_to_r0", lv_eq(call(it, ATM, "seeing_to_cn2", see, lam), call(it, ATM, "r0_to_cn2", call(it, ATM, "seeing_to_r0", see, lam), lam))),
        ]
    one_clause("composites", ATM + ":cn2_to_seeing,seeing_to_cn2", body_comp, "composite")

    # ---- scaling exponents (exact): r0 ~ lam^(6/5) cn2^(-3/5); seeing ~ lam^(-1/5)
    def mulk(x, q=1):
        return LogVal(x.L + zr(Fraction(q)) * k.L)

    def body_scale(it):
        base = call(it, ATM, "cn2_to_r0", c, lam)
        return [
            ("r0~cn2^(-3/5)", lv_eq(call(it, ATM, "cn2_to_r0", mulk(c), lam), LogVal(base.L - Fraction(3, 5) * k.L))),
            ("r0~lam^(6/5)", lv_eq(call(it, ATM, "cn2_to_r0", c, mulk(lam)), LogVal(base.L + Fraction(6, 5) * k.L))),
            ("seeing(cn2)~lam^(-1/5)", lv_eq(call(it, ATM, "cn2_to_seeing", c, mulk(lam)), LogVal(call(it, ATM, "cn2_to_seeing", c, lam).L - Fraction(1, 5) * k.L))),
            ("seeing(r0)~lam/r0", lv_eq(call(it, ATM, "r0_to_seeing", mulk(r0), mulk(lam)), call(it, ATM, "r0_to_seeing", r0, lam))),
            ("seeing(r0)~lam^1", lv_eq(call(it, ATM, "r0_to_seeing", r0, mulk(lam)), LogVal(call(it, ATM, "r0_to_seeing", r0, lam).L + k.L))),
        ]
    one_clause("scaling", ATM + ":cn2_to_r0,cn2_to_seeing,r0_to_seeing", body_scale, "scaling")

    # ---- slope variance <-> r0
    wl, dsub = pos("wavelength"), pos("subapDiam")

    def body_slopes(it):
        sv = call(it, ATM, "slope_variance_from_r0", r0, wl, dsub)
        st = VarStub("slopevar")
        st.v = sv
        back = call(it, ATM, "r0_from_slopes", st, wl, dsub)
        st2 = VarStub("v")
        r = call(it, ATM, "r0_from_slopes", st2, wl, dsub)
        return [("r0_from_slopes(slopes with variance slope_variance_from_r0(r0))=r0", lv_eq(back, r0)),
                ("slope_variance_from_r0(r0_from_slopes(slopes with variance v))=v", lv_eq(call(it, ATM, "slope_variance_from_r0", r, wl, dsub), st2.v)),
                ("slope variance ~ r0^(-5/3)", lv_eq(call(it, ATM, "slope_variance_from_r0", mulk(r0), wl, dsub), LogVal(sv.L - Fraction(5, 3) * k.L)))]
    one_clause("slopes", ATM + ":r0_from_slopes,slope_variance_from_r0", body_slopes, "slopes")

    # ---- single layer: isoplanatic angle and coherence time are 0.314 r0/h, 0.314 r0/v (constants to 2e-3)
    h, v = pos("h"), pos("v")
    ARCSEC = LogVal.coerce(Fraction(180 * 3600)).L

    def body_single(it):
        from aovc.logmono import LG
        r0c = call(it, ATM, "cn2_to_r0", c, lam)
        iso = call(it, ATM, "isoplanaticAngle", one(it, c), one(it, h), lam)
        tau = call(it, ATM, "coherenceTime", one(it, c), one(it, v), lam)
        iso_spec = LogVal(LogVal.coerce(Fraction(314, 1000)).L + r0c.L - h.L + ARCSEC - LG("PI"))
        tau_spec = LogVal(LogVal.coerce(Fraction(314, 1000)).L + r0c.L - v.L)
        iso_d = call(it, ATM, "isoplanaticAngle", one(it, c), one(it, h))
        tau_d = call(it, ATM, "coherenceTime", one(it, c), one(it, v))
        return [("isoplanaticAngle([c],[h])=0.314 r0/h arcsec (rel 2e-3)", close(iso, iso_spec, "0.002")),
                ("coherenceTime([c],[v])=0.314 r0/v (rel 2e-3)", close(tau, tau_spec, "0.002")),
                ("isoplanaticAngle exponents exact", LogVal.coerce(iso).L - iso_spec.L == LogVal.coerce(call(it, ATM, "isoplanaticAngle", one(it, mulk(c)), one(it, mulk(h, 2)), mulk(lam, 3))).L - LogVal(iso_spec.L - Fraction(3, 5) * k.L + Fraction(18, 5) * k.L - 2 * k.L).L),
                ("coherenceTime exponents exact", LogVal.coerce(tau).L - tau_spec.L == LogVal.coerce(call(it, ATM, "coherenceTime", one(it, mulk(c)), one(it, mulk(v, 2)), mulk(lam, 3))).L - LogVal(tau_spec.L - Fraction(3, 5) * k.L + Fraction(18, 5) * k.L - 2 * k.L).L),
                ("isoplanaticAngle default wavelength", lv_eq(iso_d, call(it, ATM, "isoplanaticAngle", one(it, c), one(it, h), Fraction(500, 10**9)))),
                ("coherenceTime default wavelength", lv_eq(tau_d, call(it, ATM, "coherenceTime", one(it, c), one(it, v), Fraction(500, 10**9))))]
    one_clause("single-layer", ATM + ":isoplanaticAngle,coherenceTime", body_single, "single")

    # ---- magnitude <-> flux for each of the twelve bands; 5 mag = factor 100; photons ~ area * exposure
    mag = z3.Real("mag")
    flux = pos("flux")
    texp, pxl, wvb = pos("expTime"), pos("pxlScale"), pos("wvlBand")
    for band in BANDS:
        def body_band(it, band=band):
            f = call(it, AST, "magnitude_to_flux", mag, band)
            m_back = call(it, AST, "flux_to_magnitude", f, band)
            m_of = call(it, AST, "flux_to_magnitude", flux, band)
            f_back = call(it, AST, "magnitude_to_flux", m_of, band)
            f5 = call(it, AST, "magnitude_to_flux", mag + 5, band)
            ms = SumStub("masksum")
            ph = call(it, AST, "photons_per_band", mag, ms, pxl, texp, band)
            ms2 = SumStub("masksum")
            ms2.s = mulk(ms.s)
            ph_area = call(it, AST, "photons_per_band", mag, ms2, pxl, texp, band)
            ph_pxl = call(it, AST, "photons_per_band", mag, ms, mulk(pxl), texp, band)
            ph_t = call(it, AST, "photons_per_band", mag, ms, pxl, mulk(texp), band)
            out = [("flux_to_magnitude(magnitude_to_flux(m))=m", zr(m_back) == mag),
                   ("magnitude_to_flux(flux_to_magnitude(f))=f", lv_eq(f_back, flux)),
                   ("flux(m+5)=flux(m)/100", lv_eq(f5, LogVal(f.L - 2))),
                   ("photons_per_band=flux*expTime*area", lv_eq(ph, LogVal(f.L + texp.L + ms.s.L + 2 * pxl.L))),
                   ("photons_per_band~mask.sum()", lv_eq(ph_area, LogVal(LogVal.coerce(ph).L + k.L))),
                   ("photons_per_band~pxlScale^2", lv_eq(ph_pxl, LogVal(LogVal.coerce(ph).L + 2 * k.L))),
                   ("photons_per_band~expTime", lv_eq(ph_t, LogVal(LogVal.coerce(ph).L + k.L)))]
            if band == "V":
                out.append(("default band is V [magnitude_to_flux]", lv_eq(call(it, AST, "magnitude_to_flux", mag), f)))
                out.append(("default band is V [flux_to_magnitude]", zr(call(it, AST, "flux_to_magnitude", flux)) == zr(m_of)))
                out.append(("default band is V [photons_per_band]", lv_eq(call(it, AST, "photons_per_band", mag, ms, pxl, texp), ph)))
            return out
        one_clause("band[%s]" % band, AST + ":magnitude_to_flux,flux_to_magnitude,photons_per_band", body_band, "band", {"band": band})

    def body_permag(it):
        ms = SumStub("masksum")
        ph = call(it, AST, "photons_per_mag", mag, ms, pxl, wvb, texp)
        ms2 = SumStub("masksum")
        ms2.s = mulk(ms.s)
        return [("photons_per_mag~mask.sum()", lv_eq(call(it, AST, "photons_per_mag", mag, ms2, pxl, wvb, texp), LogVal(LogVal.coerce(ph).L + k.L))),
                ("photons_per_mag~pixel_scale^2", lv_eq(call(it, AST, "photons_per_mag", mag, ms, mulk(pxl), wvb, texp), LogVal(LogVal.coerce(ph).L + 2 * k.L))),
                ("photons_per_mag~exposure_time", lv_eq(call(it, AST, "photons_per_mag", mag, ms, pxl, wvb, mulk(texp)), LogVal(LogVal.coerce(ph).L + k.L))),
                ("photons_per_mag(m+5)=photons_per_mag(m)/100", lv_eq(call(it, AST, "photons_per_mag", mag + 5, ms, pxl, wvb, texp), LogVal(LogVal.coerce(ph).L - 2)))]
    one_clause("photons_per_mag", AST + ":photons_per_mag", body_permag, "permag")

    axis_obligations(chk)


def axis_obligations(chk):
    """stacked profiles: f(cn2, h, axis=a)[idx] equals f on the 1-d profile through idx along a (what a loop over profiles
    computes).  Pointwise, with pow uninterpreted and Sigma terms hash-consed: an ignored / hard-coded axis gives different terms."""
    lam = z3.Real("lamda")
    for fn in ("isoplanaticAngle", "coherenceTime", "rytov_variance"):
        for common, (shape_names, axis) in [(cm_, sa_) for cm_ in (False, True) for sa_ in ((("n0", "n1"), -1), (("n0", "n1"), 0), (("n0", "n1"), 1), (("n0", "n1", "n2"), 1), (("n0", "n1", "n2"), -3), (("n0", "n1", "n2"), None))]:
            dims = [z3.Int(n) for n in shape_names]
            nd = len(dims)
            ax = (axis if axis is not None else -1) % nd
            idx = [z3.Int("i%d" % d) for d in range(nd) if d != ax]

            def run(it, fn=fn, dims=dims, axis=axis, ax=ax, idx=idx, nd=nd, common=common):
                for d in dims:
                    it.ctx.assume(d >= 1)
                it.ctx.assume(lam > 0)
                cn2 = sym_arr("cn2", dims)
                # second argument: stacked like cn2, or ONE 1-d altitude / wind vector shared by all profiles (it lies along the axis)
                hh = sym_arr("h", [dims[ax]] if common else dims)
                kw = {} if axis is None else {"axis": axis}
                full = it.call_repo(ATM, fn, [cn2, hh, lam], kw)
                # the single profile through idx along the axis
                def line(a):
                    snap = a.snapshot()
                    return Arr([dims[ax]], lambda k: snap(idx[:ax] + [k[0]] + idx[ax:]), "float")
                single = it.call_repo(ATM, fn, [line(cn2), hh if common else line(hh), lam], {})
                return full, single

            def post(pr, idx=idx, dims=dims, ax=ax):
                full, single = pr.value
                inb = [z3.And(i >= 0, i < d) for i, d in zip(idx, [dd for q, dd in enumerate(dims) if q != ax])]
                shape_ok = z3.BoolVal(isinstance(full, Arr) and len(full.shape) == len(dims) - 1)
                goals = [("result-rank", shape_ok)]
                if isinstance(full, Arr) and len(full.shape) == len(dims) - 1:
                    rest = [dd for q, dd in enumerate(dims) if q != ax]
                    goals.append(("result-shape", z3.And(*[zr(a) == zr(b) for a, b in zip(full.shape, rest)])))
                    goals.append(("stack-equals-loop", z3.Implies(z3.And(*inb), zr(full.get(idx)) == zr(single))))
                return goals
            verify(chk, "axis[%s,rank%d,axis=%s%s]" % (fn, nd, axis, ",common 1-d vector" if common else ""), ATM + ":" + fn, run, post, clause="axis", encoding="pointwise+sigma-hashcons",
                   replay=lambda m, fn=fn, nd=nd, axis=axis: {"fn": fn, "rank": nd, "axis": axis}, skip_defs=("divisor",))
