"""Contracts for the slope covariance builder (properties C01, C03), function by function (a caller is checked against the callee's
contract, not its body):

  K  compute_covariance_xx / yy / xy   the four-point structure-function combination at each pair separation
  S  calculate_wfs_seperations         out[i, j] = pos2[j] - pos1[i]   (the 1e-20 regularisation taken in its limit, A-EPS)
  W  wfs_covariance                    (xx, yy, xy) of the separations of its two position lists, with its two widths
  G  make_covariance_matrix geometry   projected sub-aperture centres and widths per layer and sensor
  A  _make_covariance_matrix(_mp)      block assembly: rectangle, order (all x then all y per sensor), r0_scale, sum over layers
  M  mirror_covariance_matrix          symmetric completion
  L  lemma over K, S, W, G, A          every entry is the covariance of the two finite-difference slope measurements (statement's formula)

The numbers of sensors / layers are concrete per obligation set (their loops unroll; listed as a bound), everything else is symbolic."""
import z3
from aovc.check import num
from aovc.contract import verify
from aovc.values import zr, zi, UF, PI, PI_AXIOMS, Unsupported
from aovc.arrays import sym_arr, Arr
from aovc.symex import RepoClass, Obj
from aovc import frontend, npmodel

SC = "aotools/turbulence/slopecovariance.py"
DVK = UF("D_vk", 3)
EPS = {"1e-20": 0.0}      # A-EPS: the 1e-20 offset added to separations (regularisation of r = 0) is taken in its limit 0
SQ = UF("sqrt")


def sf_summary(it, args, kw):
    """callee contract of structure_function_vk: elementwise an (uninterpreted) function D(|s|; r0, L0) (closed form: C08)"""
    r, r0, L0 = args
    if isinstance(r, Arr):
        return npmodel.map1(it, r, lambda v: DVK(zr(v), zr(r0), zr(L0)), "float")
    return DVK(zr(r), zr(r0), zr(L0))


def Dn(x, y, r0, L0):
    return DVK(SQ(x * x + y * y), r0, L0)


def four_point(kind, sx, sy, d1, d2, r0, L0):
    """statement's kernel without the gain factor: with s = q - p (centre of b minus centre of a), end points p+-d1/2 e, q+-d2/2 f:
         D(p+ - q-) + D(p- - q+) - D(p+ - q+) - D(p- - q-)      (= -[D(p+-q+) - D(p+-q-) - D(p--q+) + D(p--q-)])"""
    e = {"xx": (0, 0), "yy": (1, 1), "xy": (0, 1), "yx": (1, 0)}[kind]

    def term(sp, sq):
        v = [-sx, -sy]                     # p - q
        v[e[0]] = v[e[0]] + sp * d1 / 2
        v[e[1]] = v[e[1]] - sq * d2 / 2
        return Dn(v[0], v[1], r0, L0)
    return term(1, -1) + term(-1, 1) - term(1, 1) - term(-1, -1)


# ============================================================================================================ K, S, W
def kernel_obligations(chk):
    n1, n2 = z3.Ints("n1 n2")
    d1, d2, r0, L0 = z3.Reals("d1 d2 r0 L0")
    i, j = z3.Ints("i j")
    for kind, fn in (("xx", "compute_covariance_xx"), ("yy", "compute_covariance_yy"), ("xy", "compute_covariance_xy")):
        def run(it, fn=fn):
            it.ctx.assume(z3.And(n1 >= 0, n2 >= 0, d1 > 0, d2 > 0, r0 > 0, L0 > 0))
            sep = sym_arr("seperation", [n1, n2, 2], prov={"seperation"})
            return sep, it.call_repo(SC, fn, [sep, d1, d2, r0, L0])

        def post(pr, kind=kind):
            sep, out = pr.value
            ok = isinstance(out, Arr) and out.ndim == 2
            goals = [("rank2", z3.BoolVal(ok))]
            if ok:
                inb = z3.And(i >= 0, i < n1, j >= 0, j < n2)
                goals.append(("shape", z3.And(zi(out.shape[0]) == n1, zi(out.shape[1]) == n2)))
                goals.append(("[i,j] = four-point structure-function combination at separation [i,j] with the two widths",
                              z3.Implies(inb, zr(out.get([i, j])) == four_point(kind, zr(sep.get([i, j, 0])), zr(sep.get([i, j, 1])), d1, d2, r0, L0))))
            return goals
        verify(chk, fn, SC + ":" + fn, run, post, clause="kernel", summaries={(SC, "structure_function_vk"): sf_summary}, replay=lambda m: {}, encoding="pointwise QF_NRA + EUF, callee contract structure_function_vk")

    # separations
    def run_s(it):
        it.literal_overrides = EPS
        it.ctx.assume(z3.And(n1 >= 0, n2 >= 0))
        p1, p2 = sym_arr("wfs1_positions", [n1, 2], prov={"wfs1_positions"}), sym_arr("wfs2_positions", [n2, 2], prov={"wfs2_positions"})
        return p1, p2, it.call_repo(SC, "calculate_wfs_seperations", [n1, n2, p1, p2])

    def post_s(pr):
        p1, p2, out = pr.value
        ok = isinstance(out, Arr) and out.ndim == 3
        goals = [("rank3", z3.BoolVal(ok))]
        if ok:
            c = z3.Int("c")
            inb = z3.And(i >= 0, i < n1, j >= 0, j < n2, c >= 0, c < 2)
            goals.append(("shape=(n1,n2,2)", z3.And(zi(out.shape[0]) == n1, zi(out.shape[1]) == n2, zi(out.shape[2]) == 2)))
            goals.append(("out[i,j] = pos2[j] - pos1[i]", z3.Implies(inb, zr(out.get([i, j, c])) == zr(p2.get([j, c])) - zr(p1.get([i, c])))))
        return goals
    verify(chk, "calculate_wfs_seperations", SC + ":calculate_wfs_seperations", run_s, post_s, clause="kernel", replay=lambda m: {}, encoding="loop-summary S2 (nested enumerate)")

    # wfs_covariance composes them with its own arguments in the right places
    def sep_summary(it, args, kw):
        na, nb, pa, pb = args
        sa, sb = pa.snapshot(), pb.snapshot()
        return Arr([zi(na), zi(nb), 2], lambda idx: zr(sb([idx[1], idx[2]])) - zr(sa([idx[0], idx[2]])), "float")

    def k_summary(kind):
        def f(it, args, kw):
            sep, a1, a2, rr, ll = args
            ss = sep.snapshot()
            return Arr(list(sep.shape[:2]), lambda idx: four_point(kind, zr(ss([idx[0], idx[1], 0])), zr(ss([idx[0], idx[1], 1])), zr(a1), zr(a2), zr(rr), zr(ll)), "float")
        return f
    WS = {(SC, "calculate_wfs_seperations"): sep_summary, (SC, "compute_covariance_xx"): k_summary("xx"), (SC, "compute_covariance_yy"): k_summary("yy"), (SC, "compute_covariance_xy"): k_summary("xy")}

    def run_w(it):
        it.ctx.assume(z3.And(n1 >= 0, n2 >= 0, d1 > 0, d2 > 0, r0 > 0, L0 > 0))
        p1, p2 = sym_arr("wfs1_positions", [n1, 2], prov={"wfs1_positions"}), sym_arr("wfs2_positions", [n2, 2], prov={"wfs2_positions"})
        return p1, p2, it.call_repo(SC, "wfs_covariance", [n1, n2, p1, p2, d1, d2, r0, L0])

    def post_w(pr):
        p1, p2, out = pr.value
        ok = isinstance(out, tuple) and len(out) == 3 and all(isinstance(o, Arr) and o.ndim == 2 for o in out)
        goals = [("returns (xx, yy, xy)", z3.BoolVal(bool(ok)))]
        if ok:
            inb = z3.And(i >= 0, i < n1, j >= 0, j < n2)
            sx, sy = zr(p2.get([j, 0])) - zr(p1.get([i, 0])), zr(p2.get([j, 1])) - zr(p1.get([i, 1]))
            for k_, kind in enumerate(("xx", "yy", "xy")):
                goals.append(("%s[i,j] = kernel_%s(pos2[j] - pos1[i]; diam1, diam2, r0, L0)" % (kind, kind), z3.Implies(inb, zr(out[k_].get([i, j])) == four_point(kind, sx, sy, d1, d2, r0, L0))))
        return goals
    verify(chk, "wfs_covariance", SC + ":wfs_covariance", run_w, post_w, clause="kernel", summaries=WS, replay=lambda m: {}, encoding="callee contracts (separations, kernels)")
    return WS


# ============================================================================================================ system
class System:
    def __init__(self, it, NW, NL, threads=1, cone="positive"):
        """cone='positive': every layer lies below every guide star (the domain of the covariance formula, C01);
        cone='nonzero': a layer may also lie ABOVE a guide star (the code then works with negative meta sub-aperture sizes and still returns
        a finite matrix; C03 speaks about every configuration that builds) -- only the layer exactly AT the guide star (division by 0) is excluded"""
        self.NW, self.NL = NW, NL
        self.nx = [z3.Int("nx%d" % i) for i in range(NW)]
        self.N = [z3.Int("nsub%d" % i) for i in range(NW)]
        self.masks = []
        for i in range(NW):
            it.ctx.assume(z3.And(self.nx[i] >= 1, self.N[i] >= 0))
            m = sym_arr("mask%d" % i, [self.nx[i], self.nx[i]], prov={"pupil_masks[%d]" % i})
            m.sum_override = self.N[i]
            self.masks.append(m)
        self.T = z3.Real("T")
        self.d = [z3.Real("d%d" % i) for i in range(NW)]
        self.H = [z3.Real("H%d" % i) for i in range(NW)]
        self.th = [[z3.Real("thx%d" % i), z3.Real("thy%d" % i)] for i in range(NW)]
        self.lam = [z3.Real("lam%d" % i) for i in range(NW)]
        self.alt = [z3.Real("alt%d" % l) for l in range(NL)]
        self.r0 = [z3.Real("r0_%d" % l) for l in range(NL)]
        self.L0 = [z3.Real("L0_%d" % l) for l in range(NL)]
        for x in [self.T] + self.d + self.lam + self.r0 + self.L0:
            it.ctx.assume(x > 0)
        for a in PI_AXIOMS:
            it.ctx.assume(a)
        for i in range(NW):
            for l in range(NL):
                if cone == "positive":
                    it.ctx.assume(z3.Implies(self.H[i] != 0, 1 - self.alt[l] / self.H[i] > 0))      # the LGS cone does not collapse below the layer
                else:
                    it.ctx.assume(z3.Implies(self.H[i] != 0, 1 - self.alt[l] / self.H[i] != 0))
        self.threads = threads
        mod = frontend.load(SC)
        self.obj = it.call(RepoClass(mod, "CovarianceMatrix"), [NW, self.masks, self.T, self.d, self.H, self.th, self.lam, NL, self.alt, self.r0, self.L0], {"threads": threads})

    def tie_wheres(self, it):
        for k, w in enumerate(getattr(it.ctx, "wheres", [])):
            it.ctx.assume(w.n == self.N[k % self.NW])

    def sf(self, i, l):
        return z3.If(self.H[i] != 0, 1 - self.alt[l] / self.H[i], z3.RealVal(1))

    def centre(self, w, i, l, a, ax):
        cell = z3.ToReal(w.coord[ax](a))
        ground = (cell + z3.RealVal("1/2")) * self.d[i] - self.T / 2
        return self.sf(i, l) * ground + self.th[i][ax] * PI / 180 / 3600 * self.alt[l]

    def width(self, i, l):
        return self.sf(i, l) * self.d[i]


def geometry_obligations(chk, NW=2, NL=2):
    a, c = z3.Ints("a c")
    noop = lambda it, args, kw: None

    def run(it):
        S = System(it, NW, NL)
        # assembly and mirror are contracted separately: here only the geometry is executed
        S.obj.attrs["covariance_matrix"] = None
        it.call_repo(SC, "CovarianceMatrix.make_covariance_matrix", [], {}, self_obj=S.obj)
        S.tie_wheres(it)
        return it, S

    def post(pr):
        it, S = pr.value
        o = S.obj
        pos, dia = o.attrs.get("subap_layer_positions"), o.attrs.get("subap_layer_diameters")
        ok = isinstance(pos, list) and isinstance(dia, list) and len(pos) == NL and len(dia) == NL and len(getattr(it.ctx, "wheres", [])) == NW
        goals = [("positions / diameters per layer and sensor, one numpy.where per sensor", z3.BoolVal(bool(ok)))]
        if not ok:
            return goals
        goals.append(("n_subaps[i] = number of ones of mask i; total = their sum", z3.And(*[zi(npmodel.getitem(it, o.attrs["n_subaps"], (i,))) == S.N[i] for i in range(NW)] + [zi(o.attrs["total_subaps"]) == sum(S.N)])))
        for l in range(NL):
            for i in range(NW):
                P = pos[l][i]
                w = it.ctx.wheres[i]
                inb = z3.And(a >= 0, a < S.N[i])
                goals.append(("layer %d sensor %d: widths = (1 - h/H) * d  (1 for NGS)" % (l, i), zr(dia[l][i]) == S.width(i, l)))
                if isinstance(P, Arr) and P.ndim == 2:
                    goals.append(("layer %d sensor %d: one position per valid sub-aperture" % (l, i), z3.And(zi(P.shape[0]) == S.N[i], zi(P.shape[1]) == 2)))
                    for ax in (0, 1):
                        goals.append(("layer %d sensor %d axis %d: position[a] = projected centre ((cell+1/2) d - D/2)(1 - h/H) + theta h of the a-th valid cell (row-major)" % (l, i, ax),
                                      z3.Implies(inb, zr(P.get([a, ax])) == S.centre(w, i, l, a, ax)), {"hyps": [w.axioms_for(a)]}))
                else:
                    goals.append(("layer %d sensor %d: positions array" % (l, i), z3.BoolVal(False)))
        return goals
    verify(chk, "geometry[%d wfs, %d layers]" % (NW, NL), SC + ":CovarianceMatrix.__init__,CovarianceMatrix.make_covariance_matrix", run, post, clause="geometry", replay=lambda m: {}, max_paths=64,
           summaries={(SC, "CovarianceMatrix._make_covariance_matrix"): noop, (SC, "CovarianceMatrix._make_covariance_matrix_mp"): noop, (SC, "mirror_covariance_matrix"): lambda it, args, kw: args[0]},
           encoding="symbolic execution (sensor / layer loops unrolled), enumeration contract of numpy.where, NGS/LGS path split")


# ============================================================================================================ assembly
def block_summary(calls):
    """callee contract of wfs_covariance for the assembly check: three matrices that are functions of the call's arguments only
    (same arguments => same matrices); the record of calls lets the postcondition name them"""
    def f(it, args, kw):
        n1, n2, p1, p2, w1, w2, rr, ll = args
        key = len(calls)
        fx = [z3.Function("cov_%s!%d" % (k, key), z3.IntSort(), z3.IntSort(), z3.RealSort()) for k in ("xx", "yy", "xy")]
        calls.append({"args": args, "fx": fx})
        return tuple(Arr([zi(n1), zi(n2)], (lambda g: (lambda idx: g(zi(idx[0]), zi(idx[1]))))(g), "float") for g in fx)
    return f


def assembly_obligations(chk, NW=3, NL=2, mp=False):
    a, b = z3.Ints("a b")
    R_, C_ = z3.Ints("R C")

    def run(it):
        calls = []
        it.summaries = dict(it.summaries)
        it.summaries[(SC, "wfs_covariance")] = block_summary(calls)
        S = System(it, NW, NL, threads=(z3.Int("threads") if mp else 1))
        if mp:
            it.ctx.assume(z3.Int("threads") >= 2)
        o = S.obj
        # geometry attributes as opaque per (layer, sensor) values (their content is the geometry contract)
        o.attrs["subap_layer_positions"] = [[sym_arr("pos_l%d_w%d" % (l, i), [S.N[i], 2]) for i in range(NW)] for l in range(NL)]
        o.attrs["subap_layer_diameters"] = [[z3.Real("w_l%d_w%d" % (l, i)) for i in range(NW)] for l in range(NL)]
        for l in range(NL):
            for i in range(NW):
                it.ctx.assume(o.attrs["subap_layer_diameters"][l][i] > 0)
        if mp:
            it.call_repo(SC, "CovarianceMatrix._make_covariance_matrix_mp", [z3.Int("threads")], {}, self_obj=o)
        else:
            it.call_repo(SC, "CovarianceMatrix._make_covariance_matrix", [], {}, self_obj=o)
        pre = o.attrs["covariance_matrix"]
        full = it.call_repo(SC, "mirror_covariance_matrix", [pre])
        return it, S, calls, pre, full

    def post(pr):
        it, S, calls, pre, full = pr.value
        o = S.obj
        ok = isinstance(pre, Arr) and pre.ndim == 2 and isinstance(full, Arr) and len(calls) == NL * NW * (NW + 1) // 2
        goals = [("one wfs_covariance call per layer and sensor pair (i >= j)", z3.BoolVal(bool(ok)))]
        if not ok:
            return goals
        tot = sum(S.N)
        goals.append(("shape", z3.And(zi(pre.shape[0]) == 2 * tot, zi(pre.shape[1]) == 2 * tot, zi(full.shape[0]) == 2 * tot, zi(full.shape[1]) == 2 * tot)))
        P = [sum(S.N[:i]) if i else z3.IntVal(0) for i in range(NW)]
        # which call serves (layer, i, j): the k-th call in loop order layer -> i -> j<=i; its arguments must be those of that pair
        k = 0
        table = {}
        for l in range(NL):
            for i in range(NW):
                for j in range(i + 1):
                    cl = calls[k]
                    k += 1
                    n1, n2, p1, p2, w1, w2, rr, ll = cl["args"]
                    pos, dia = o.attrs["subap_layer_positions"], o.attrs["subap_layer_diameters"]
                    good = (p1 is pos[l][i]) and (p2 is pos[l][j]) and (w1 is dia[l][i]) and (w2 is dia[l][j]) and (rr is S.r0[l]) and (ll is S.L0[l])
                    goals.append(("call %d is wfs_covariance(n_i, n_j, pos[l][i], pos[l][j], w[l][i], w[l][j], r0[l], L0[l]) for (l,i,j)=(%d,%d,%d)" % (k - 1, l, i, j),
                                  z3.And(z3.BoolVal(bool(good)), zi(n1) == S.N[i], zi(n2) == S.N[j])))
                    table[(l, i, j)] = cl["fx"]
        dia = o.attrs["subap_layer_diameters"]
        for i in range(NW):
            for j in range(i + 1):
                for e in (0, 1):
                    for f in (0, 1):
                        Rr = 2 * P[i] + e * S.N[i] + a
                        Cc = 2 * P[j] + f * S.N[j] + b
                        inb = z3.And(a >= 0, a < S.N[i], b >= 0, b < S.N[j])
                        which = {(0, 0): 0, (1, 1): 1, (0, 1): 2, (1, 0): 2}[(e, f)]
                        spec = sum(S.lam[i] * S.lam[j] / (8 * PI * PI * dia[l][i] * dia[l][j]) * table[(l, i, j)][which](a, b) for l in range(NL))
                        nm = "rows %s-slopes of sensor %d x columns %s-slopes of sensor %d" % ("xy"[e], i, "xy"[f], j)
                        goals.append(("block(%s) = sum over layers of lam_i lam_j/(8 pi^2 w_i w_j) * cov_%s" % (nm, ("xx", "yy", "xy")[which]), z3.Implies(inb, zr(pre.get([Rr, Cc])) == spec)))
                        if i > j:
                            goals.append(("upper block (%s)^T is zero before mirroring" % nm, z3.Implies(inb, zr(pre.get([Cc, Rr])) == 0)))
                            goals.append(("mirror fills the upper block: entry = its transpose (%s)" % nm, z3.Implies(inb, z3.And(zr(full.get([Cc, Rr])) == spec, zr(full.get([Rr, Cc])) == spec))))
                        else:
                            # diagonal blocks are computed in full; the mirror keeps them when they are symmetric (same value from both sides)
                            sym_h = zr(pre.get([Rr, Cc])) == zr(pre.get([Cc, Rr]))
                            goals.append(("mirror keeps a symmetric diagonal block entry (%s)" % nm, z3.Implies(z3.And(inb, sym_h), zr(full.get([Rr, Cc])) == spec)))
        # frame of the matrix: every row/column index belongs to exactly one (sensor, axis, sub-aperture): covered by the blocks above
        goals.append(("block offsets partition the index range", z3.And(*[P[i + 1] == P[i] + S.N[i] for i in range(NW - 1)])))
        return goals
    nm = "_make_covariance_matrix_mp" if mp else "_make_covariance_matrix"
    return verify(chk, "assembly[%s, %d wfs, %d layers]" % (nm, NW, NL), SC + ":CovarianceMatrix.%s,mirror_covariance_matrix" % nm, run, post, clause="assembly", replay=lambda m: {},
                  encoding="symbolic execution (sensor / layer loops unrolled), callee contract wfs_covariance (matrices as functions of the call arguments), float32 OR-mirror contract",
                  skip_defs=("broadcast",), max_paths=16)


# ============================================================================================================ lemma over the contracts
def composition_lemma(chk):
    """K + S + W + G + A  =>  the statement: an entry is  -1/2 g_i g_j [D(p+ - q+) - D(p+ - q-) - D(p- - q+) + D(p- - q-)]  summed over layers,
    with p, q the projected centres, g = lambda / (2 pi w).  Per layer and per block kind, as one real-arithmetic identity over D."""
    px, py, qx, qy, wi, wj, li, lj, r0, L0 = z3.Reals("px py qx qy w_i w_j lam_i lam_j r0 L0")
    pos = [wi > 0, wj > 0, li > 0, lj > 0, r0 > 0, L0 > 0] + PI_AXIOMS
    for kind, (e, f) in (("xx", (0, 0)), ("yy", (1, 1)), ("xy", (0, 1)), ("yx", (1, 0))):
        g = li / (2 * PI * wi) * lj / (2 * PI * wj)

        def Dd(sp, sq):
            p, q = [px, py], [qx, qy]
            p[e] = p[e] + sp * wi / 2
            q[f] = q[f] + sq * wj / 2
            return Dn(p[0] - q[0], p[1] - q[1], r0, L0)
        spec = -g / 2 * (Dd(1, 1) - Dd(1, -1) - Dd(-1, 1) + Dd(-1, -1))
        scale = li * lj / (8 * PI * PI * wi * wj)
        if kind == "yx":
            # the code writes cov_xy (x-slope of i with y-slope of j) into the y_i - x_j block: right only for equal projected widths (listed finding)
            code = scale * four_point("xy", qx - px, qy - py, wi, wj, r0, L0)
            chk.add("lemma.entry[yx] = statement's covariance [equal projected widths]", pos + [wi == wj], code == spec, SC + ":contracts K,S,W,G,A", "lemma-over-contracts (QF_NRA + EUF)", "entries")
        else:
            code = scale * four_point(kind, qx - px, qy - py, wi, wj, r0, L0)
            chk.add("lemma.entry[%s] = statement's covariance" % kind, pos, code == spec, SC + ":contracts K,S,W,G,A", "lemma-over-contracts (QF_NRA + EUF)", "entries")
    # diagonal blocks are symmetric (needed by the OR-mirror): kernel(s) for (a,b) equals kernel(-s) for (b,a) when both widths are the sensor's own
    sx, sy, w = z3.Reals("sx sy w")
    for kind in ("xx", "yy", "xy"):
        chk.add("lemma.diagonal-block-symmetric[%s]: kernel(s; w, w) = kernel(-s; w, w)" % kind, [w > 0], four_point(kind, sx, sy, w, w, r0, L0) == four_point(kind, -sx, -sy, w, w, r0, L0),
                SC + ":compute_covariance_" + kind, "lemma-over-contracts (QF_NRA + EUF)", "entries")
    # scaling laws stated in the property
    kk = z3.Real("kk")
    chk.add("lemma.entry scales with the product of the two wavelengths", [kk > 0, wi > 0, wj > 0] + PI_AXIOMS,
            (kk * li) * (kk * lj) / (8 * PI * PI * wi * wj) == kk * kk * (li * lj / (8 * PI * PI * wi * wj)), SC + ":r0_scale", "lemma-over-contracts", "entries")


# ============================================================================================================ C03
def content_key(it, x):
    """structural identity of an argument value (arrays by shape and element at a canonical index)"""
    import hashlib
    if isinstance(x, Arr):
        idx = [z3.Int("ck!%d" % k) for k in range(x.ndim)]
        e = x.get(idx)
        return hashlib.sha256((z3.simplify(zr(e)).sexpr() + "|" + "|".join(str(z3.simplify(zi(d))) if not isinstance(d, int) else str(d) for d in x.shape)).encode()).hexdigest()[:10]
    from aovc.values import is_z3
    return z3.simplify(zr(x)).sexpr() if (is_z3(x) or isinstance(x, (int,))) or hasattr(x, "numerator") else repr(x)


def pure_block_summary(log):
    """wfs_covariance as a pure function of its argument VALUES (justified by its frame obligations below): the three result matrices are
    uninterpreted functions named by the content of the arguments, so equal arguments give the same terms whatever call produced them"""
    def f(it, args, kw):
        import hashlib
        n1, n2 = args[0], args[1]
        key = hashlib.sha256("|".join(content_key(it, a) for a in args).encode()).hexdigest()[:10]
        log.append(key)
        fx = [z3.Function("wfs_cov_%s[%s]" % (k, key), z3.IntSort(), z3.IntSort(), z3.RealSort()) for k in ("xx", "yy", "xy")]
        return tuple(Arr([zi(n1), zi(n2)], (lambda g: (lambda idx: g(zi(idx[0]), zi(idx[1]))))(g), "float") for g in fx)
    return f


def c03_obligations(chk, NW=3, NL=2):
    from aovc import effects
    R_, C_ = z3.Ints("R C")
    threads = z3.Int("threads")

    def run(it):
        log = []
        it.summaries = dict(it.summaries)
        it.summaries[(SC, "wfs_covariance")] = pure_block_summary(log)
        it.ctx.assume(threads >= 2)
        S = System(it, NW, NL, threads=1, cone="nonzero")
        o = S.obj
        mats = []
        for t in (1, threads, 1):
            o.attrs["threads"] = t
            mats.append(it.call_repo(SC, "CovarianceMatrix.make_covariance_matrix", [], {}, self_obj=o))
        S.tie_wheres(it)
        return it, S, mats, log

    def post(pr):
        it, S, mats, log = pr.value
        ok = all(isinstance(m, Arr) and m.ndim == 2 for m in mats)
        goals = [("three builds (threads = 1, k, 1 on the same object) return matrices", z3.BoolVal(bool(ok)))]
        if not ok:
            return goals
        per = NL * NW * (NW + 1) // 2
        goals.append(("every build issues the same %d wfs_covariance tasks in the same order (same argument values)" % per, z3.BoolVal(len(log) == 3 * per and all(log[k * per:(k + 1) * per] == log[:per] for k in range(3)))))
        tot = 2 * sum(S.N)
        inb = z3.And(R_ >= 0, R_ < tot, C_ >= 0, C_ < tot)
        base = mats[0].get([R_, C_])
        for k, nm in ((1, "k worker processes"), (2, "rebuild, 1 process")):
            e = mats[k].get([R_, C_])
            same = z3.simplify(zr(e)).eq(z3.simplify(zr(base)))
            goals.append(("build %d (%s): every entry is the SAME TERM as in the first single-process build (same float operations on the same operands in the same order)" % (k, nm), z3.BoolVal(bool(same))))
            goals.append(("build %d (%s): entries equal (real arithmetic)" % (k, nm), z3.Implies(inb, zr(e) == zr(base))))
        return goals
    verify(chk, "builds[%d wfs, %d layers]" % (NW, NL), SC + ":CovarianceMatrix.make_covariance_matrix,_make_covariance_matrix,_make_covariance_matrix_mp,wfs_covariance_mpwrap,mirror_covariance_matrix", run, post,
           clause="builds", replay=lambda m: {}, max_paths=64, skip_defs=("broadcast",),
           encoding="symbolic execution of four successive builds on one object state; Pool.map by its ordering contract; wfs_covariance as a pure function of its argument values; term identity")
    # frame: a worker's result is a function of its argument tuple only
    an = effects.Analyzer()
    mod = frontend.load(SC)
    # "returns the same matrix again": the matrix a build returned stays what it was -- no later build (or other method) writes in place into the
    # array object that self.covariance_matrix held when the method was entered (each build allocates its own matrix before filling it)
    esc, pre = effects.escaping_prestate_writes(an, mod, "CovarianceMatrix")
    chk.add("CovarianceMatrix: no method writes in place into an array that an earlier call returned to the caller (attributes returned: %s)%s" % (", ".join(esc), (" [" + "; ".join("%s line %d: %s (self.%s)" % (q.split(".")[-1], st.lineno, st.what[:50], a) for q, st, a in pre)[:300] + "]") if pre else ""),
            [], z3.BoolVal(not pre), SC + ":CovarianceMatrix", "effects-analysis (entry-state objects of self written in place vs. attributes returned by methods)", "builds", kind="frame",
            replay=lambda m: {"kind": "equal", "held": True})
    for q in ("wfs_covariance_mpwrap", "wfs_covariance", "calculate_wfs_seperations", "compute_covariance_xx", "compute_covariance_yy", "compute_covariance_xy", "structure_function_vk"):
        s = an.summary(mod, q)
        chk.functions["%s:%s" % (SC, q)] = {"sha256": mod.sha256, "dropped": frontend.dropped(mod.funcs[q])}
        bad = [x for x in s.sites if not x.ok]
        chk.add("%s.pure: writes nothing shared (parameters / module state), reads no hidden state%s" % (q, (" [" + "; ".join(x.what for x in bad)[:100] + "]") if bad else ""), [],
                z3.BoolVal(not bad and not s.hidden and not s.undecided), "%s:%s" % (SC, q), "effects-analysis", "builds", kind="frame")
