"""aovc: verification-condition generator for AOtools (real source -> z3/cvc5 obligations)."""
