"""Small functions executed BOTH by CPython/NumPy and by the symbolic executor on the same concrete inputs (tools/engine_selftest.py):
a differential test of aovc/npmodel.py.  Counted as a test of the ENGINE, never as evidence for a property."""
import numpy
import math


def c_binary(a, b):
    return numpy.add(a, b) * numpy.multiply(a, 2.0) - numpy.subtract(b, a) / numpy.divide(4.0, 1.0 + numpy.square(b))


def c_like(a):
    z = numpy.zeros_like(a)
    o = numpy.ones_like(a)
    f = numpy.full(a.shape, 2.5)
    g = numpy.full_like(a, -1.5)
    return z + 3 * o + f * a + g


def c_moveaxis(a3):
    return numpy.moveaxis(a3, 0, -1) + 0


def c_moveaxis2(a3):
    return numpy.moveaxis(a3, -1, 0) * 2


def c_swapaxes(a3):
    return numpy.swapaxes(a3, 0, 2) + numpy.transpose(a3, (2, 1, 0))


def c_transpose_axes(a3):
    return numpy.transpose(a3, (1, 2, 0)) - 1


def c_flip(a):
    return numpy.flip(a, 0) + numpy.flip(a, axis=1) - numpy.flip(a)


def c_tile(v):
    return numpy.tile(v, (3, 1)) + numpy.tile(v, 2)[:len(v)]


def c_tile2(a):
    return numpy.tile(a, (2, 2))


def c_outer(v, w):
    return numpy.outer(v, w)


def c_cumsum(v):
    return numpy.cumsum(v) - v.cumsum() if False else numpy.cumsum(v)


def c_math(x, y):
    return math.sqrt(x * x + y * y) + math.hypot(x, y) + math.fabs(-x) + math.floor(x + 0.5) + math.ceil(y) + math.pi


def c_var(a):
    return numpy.var(a) + numpy.std(a) ** 2 + a.var() - numpy.mean(a)


def c_slices(a):
    b = a.copy()
    b[1:, :] += a[:-1, :]
    b[:, ::2] = b[:, ::2] * 2
    return b[::-1, 1:] - a[:, 1:]


def c_where_clip(a):
    return numpy.where(a > 0.5, a - 0.5, 0) + numpy.clip(a, 0.2, 0.8) + numpy.maximum(a, 0.4) - numpy.minimum(a, 0.6)


def c_sum_axes(a3):
    return a3.sum(0) + a3.sum(-1).T[:a3.shape[1], :a3.shape[2]] if a3.shape[0] == a3.shape[2] else a3.sum(0)


def c_mean_max(a):
    return numpy.array([a.mean(), a.max(), a.min(), numpy.sum(a), numpy.mean(a[0]), (a ** 2).sum()])


def c_meshgrid(n):
    x, y = numpy.meshgrid(numpy.arange(n) - n / 2., numpy.arange(n) * 0.5)
    return x * 10 + y


def c_linspace(n):
    return numpy.linspace(0, 1, n) + numpy.linspace(-1, 1, n, endpoint=False)


def c_reshape(a):
    return a.reshape(-1)[::2].sum() + numpy.reshape(a, (a.shape[1], a.shape[0]))


def c_append(v):
    return numpy.append(0, v) + numpy.append(v, 7)


def c_fftshift(v):
    return numpy.fft.fftshift(v) + 2 * numpy.fft.ifftshift(v)


def c_round(x, y):
    return numpy.array([round(x), round(y), int(x), int(-y), numpy.round(x + 0.5), numpy.floor(-x), numpy.ceil(-y), x // 2, (-y) // 2, x % 3, (-y) % 3])


def c_zernike_like(n, m, r):
    R = numpy.zeros(r.shape)
    for i in range(0, int((n - m) / 2) + 1):
        R += numpy.array(r ** (n - 2 * i) * (((-1) ** i) * math.factorial(n - i)) / (math.factorial(i) * math.factorial(int(0.5 * (n + m) - i)) * math.factorial(int(0.5 * (n - m) - i))), dtype="float")
    return R


CASES = [
    ("c_binary", ["A", "B"]), ("c_like", ["A"]), ("c_moveaxis", ["A3"]), ("c_moveaxis2", ["A3"]), ("c_swapaxes", ["A3"]), ("c_transpose_axes", ["A3"]),
    ("c_flip", ["A"]), ("c_tile", ["V"]), ("c_tile2", ["A"]), ("c_outer", ["V", "W"]), ("c_cumsum", ["V"]), ("c_math", [1.25, 2.5]), ("c_var", ["A"]),
    ("c_slices", ["A"]), ("c_where_clip", ["A"]), ("c_sum_axes", ["A3"]), ("c_mean_max", ["A"]), ("c_meshgrid", [5]), ("c_linspace", [6]), ("c_reshape", ["A"]),
    ("c_append", ["V"]), ("c_fftshift", ["V"]), ("c_fftshift", ["W"]), ("c_round", [2.5, 3.5]), ("c_round", [7.25, 0.5]), ("c_zernike_like", [4, 2, "V"]),
]
INPUTS = {
    "A": [[0.1, 0.7, 0.3, 0.9], [0.55, 0.2, 0.85, 0.45], [0.6, 0.05, 0.5, 0.75]],
    "B": [[1.0, 2.0, 0.5, 0.25], [0.75, 1.5, 2.5, 0.1], [0.3, 0.9, 1.1, 1.7]],
    "A3": [[[0.1, 0.2], [0.3, 0.4], [0.5, 0.6]], [[1.1, 1.2], [1.3, 1.4], [1.5, 1.6]]],
    "V": [0.5, 0.25, 0.75, 1.0, 0.125],
    "W": [2.0, -1.0, 0.5, 4.0],
}


# ---- second batch: constructs the contracts rely on

def c_digitize(v):
    bins = numpy.linspace(0, 1.2, 4, endpoint=False)
    return numpy.digitize(v, bins) * 1.0


def c_mask_assign(a):
    b = a.copy()
    b[b < 0.5] = 0
    c = numpy.zeros(a.shape)
    c[a > 0.3] = a[a > 0.3] * 2
    return b + c


def c_where_enum(a):
    rows, cols = numpy.where(a > 0.5)
    return rows * 10.0 + cols


def c_hstack(v, w):
    return numpy.hstack([v, w, v])


def c_dot(a, b):
    return a.dot(b.T) + numpy.dot(a, b.T)


def c_fill_diag(n):
    m = numpy.zeros((n, n))
    numpy.fill_diagonal(m, 3.0)
    return m + numpy.identity(n) + numpy.eye(n)


def c_strided(a):
    out = numpy.zeros((a.shape[0], a.shape[1] // 2))
    for i in range(2):
        out += a[:, i::2]
    return out


def c_enumerate_zip(v, w):
    acc = 0
    for k, (x, y) in enumerate(zip(v, w)):
        acc += (k + 1) * x * y
    return acc


def c_try_index(a, size):
    try:
        s = size[0]
    except (IndexError, TypeError):
        s = size
    return a.sum() * s


def c_complex(a, b):
    z = a + 1j * b
    return numpy.array([(numpy.abs(z) ** 2).sum(), z.real.sum(), z.imag.sum(), (z * z.conj()).real.sum(), numpy.abs(z[0, 0] * numpy.exp(1j * 0.3)) ** 2])


def c_int_float(n):
    x = numpy.arange(-n / 2, n / 2) * 0.5
    return numpy.array([len(x), x[0], x[-1], int(n / 2), n // 2, float(n) / 3 * 3])


CASES += [
    ("c_digitize", ["V"]), ("c_mask_assign", ["A"]), ("c_where_enum", ["A"]), ("c_hstack", ["V", "W"]), ("c_dot", ["A", "B"]), ("c_fill_diag", [4]),
    ("c_strided", ["A"]), ("c_enumerate_zip", ["V", "W"]), ("c_complex", ["A", "B"]), ("c_int_float", [6]), ("c_int_float", [7]),
]


def c_builtin_slice(a, n):
    # slice objects built by hand (what `a[..., i::n]` means), summed over the n interleaved sub-samplings
    index = [slice(None)] * a.ndim
    out = numpy.zeros((a.shape[0], a.shape[1] // n))
    for i in range(n):
        index[1] = slice(i, None, n)
        out += a[tuple(index)]
    return out + a[slice(1)].sum() + a[slice(0, 2), slice(1, 3)].sum()


CASES += [("c_builtin_slice", ["A", 2]), ("c_builtin_slice", ["A", 1])]
