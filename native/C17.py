import sys, os, itertools
sys.path.insert(0, os.path.dirname(os.path.abspath(__file__)))
import numpy
from _harness import main
from aotools.turbulence import atmos_conversions as A
from aotools.astronomy import _astronomy as S

BANDS = ['U', 'B', 'V', 'R', 'I', 'J', 'H', 'K', 'g', 'r', 'i', 'z']
TOL = 1e-9


def rel(a, b):
    a, b = numpy.asarray(a, dtype=float), numpy.asarray(b, dtype=float)
    return float(numpy.max(numpy.abs(a - b) / numpy.maximum(numpy.abs(b), 1e-300)))


def bad(msg, obs, exp):
    return {"message": msg, "observed": obs, "expected": exp}


def positives(inp, *names):
    d = {"cn2": 3e-13, "r0": 0.13, "seeing": 0.8, "lamda": 7e-7, "k": 1.7, "h": 8000., "v": 12., "wavelength": 6e-7, "subapDiam": 0.4,
         "flux": 3e4, "mag": 7.3, "expTime": 0.02, "pxlScale": 0.05, "wvlBand": 90., "masksum": 200., "v_": 2e-13, "band": "V"}
    d.update(inp or {})
    return d


def grid(tier, seed):
    rng = numpy.random.default_rng(1234 + seed)
    n = 12 if tier == "quick" else 60
    for _ in range(n):
        yield {"cn2": 10 ** rng.uniform(-15, -11), "r0": 10 ** rng.uniform(-2, 0.3), "seeing": 10 ** rng.uniform(-1, 0.7), "lamda": 10 ** rng.uniform(-6.5, -5.3),
               "k": 10 ** rng.uniform(-0.5, 0.5), "h": 10 ** rng.uniform(2, 4.3), "v": 10 ** rng.uniform(0, 1.7), "wavelength": 10 ** rng.uniform(-6.5, -5.5),
               "subapDiam": 10 ** rng.uniform(-1.3, 0), "flux": 10 ** rng.uniform(0, 9), "mag": rng.uniform(-3, 22), "expTime": 10 ** rng.uniform(-3, 1),
               "pxlScale": 10 ** rng.uniform(-2, 0), "wvlBand": rng.uniform(20, 300), "masksum": float(rng.integers(1, 500)), "v_": 10 ** rng.uniform(-14, -11)}


def mk_inverse(f, g, xname, yname):
    F, G = getattr(A, f), getattr(A, g)

    def chk(inp):
        d = positives(inp)
        x, y, lam = d[xname], d[yname], d["lamda"]
        for (desc, got, want) in (("%s(%s(x,lam),lam)" % (g, f), G(F(x, lam), lam), x), ("%s(%s(y,lam),lam)" % (f, g), F(G(y, lam), lam), y),
                                  ("%s(%s(x))" % (g, f), G(F(x)), x), ("%s(%s(y))" % (f, g), F(G(y)), y),
                                  ("%s default wavelength 500e-9" % f, F(x), F(x, 500e-9)), ("%s default wavelength 500e-9" % g, G(y), G(y, 500e-9))):
            if rel(got, want) > TOL:
                return bad("inverse pair broken: " + desc, got, want)
    return chk


def chk_composite(inp):
    d = positives(inp)
    c, s, lam = d["cn2"], d["seeing"], d["lamda"]
    if rel(A.cn2_to_seeing(c, lam), A.r0_to_seeing(A.cn2_to_r0(c, lam), lam)) > TOL:
        return bad("cn2_to_seeing is not r0_to_seeing o cn2_to_r0", A.cn2_to_seeing(c, lam), A.r0_to_seeing(A.cn2_to_r0(c, lam), lam))
    if rel(A.seeing_to_cn2(s, lam), A.r0_to_cn2(A.seeing_to_r0(s, lam), lam)) > TOL:
        return bad("seeing_to_cn2 is not r0_to_cn2 o seeing_to_r0", A.seeing_to_cn2(s, lam), A.r0_to_cn2(A.seeing_to_r0(s, lam), lam))


def chk_scaling(inp):
    d = positives(inp)
    c, lam, k, r0 = d["cn2"], d["lamda"], d["k"], d["r0"]
    base = A.cn2_to_r0(c, lam)
    tests = [("r0~cn2^(-3/5)", A.cn2_to_r0(c * k, lam), base * k ** (-0.6)), ("r0~lam^(6/5)", A.cn2_to_r0(c, lam * k), base * k ** 1.2),
             ("seeing~lam^(-1/5)", A.cn2_to_seeing(c, lam * k), A.cn2_to_seeing(c, lam) * k ** (-0.2)),
             ("seeing(r0)~lam/r0", A.r0_to_seeing(r0 * k, lam * k), A.r0_to_seeing(r0, lam)), ("seeing(r0)~lam", A.r0_to_seeing(r0, lam * k), A.r0_to_seeing(r0, lam) * k)]
    for desc, got, want in tests:
        if rel(got, want) > TOL:
            return bad("scaling law broken: " + desc, got, want)


def chk_slopes(inp):
    d = positives(inp)
    r0, wl, ds, k = d["r0"], d["wavelength"], d["subapDiam"], d["k"]
    sv = A.slope_variance_from_r0(r0, wl, ds)
    rng = numpy.random.default_rng(5)
    s = rng.normal(size=(2, 7, 400))
    s = (s - s.mean(-1, keepdims=True)) / s.std(-1, keepdims=True) * numpy.sqrt(sv)
    back = A.r0_from_slopes(s, wl, ds)
    if rel(back, r0) > 1e-8:
        return bad("r0_from_slopes(slopes of variance slope_variance_from_r0(r0)) != r0", back, r0)
    # the statement speaks of the slope VARIANCE: a static offset per sub-aperture (reference slopes, a fixed tilt) changes the mean
    # of the slopes, not their variance, so the estimate must not move
    off = numpy.sqrt(sv) * rng.uniform(-3, 3, size=(2, 7, 1))
    back_off = A.r0_from_slopes(s + off, wl, ds)
    if rel(back_off, r0) > 1e-8:
        return bad("r0_from_slopes(slopes of variance slope_variance_from_r0(r0) plus a static offset per sub-aperture) != r0", back_off, r0)
    if rel(A.slope_variance_from_r0(r0 * k, wl, ds), sv * k ** (-5. / 3)) > TOL:
        return bad("slope variance does not scale as r0^(-5/3)", A.slope_variance_from_r0(r0 * k, wl, ds), sv * k ** (-5. / 3))


def chk_single(inp):
    d = positives(inp)
    c, h, v, lam, k = d["cn2"], d["h"], d["v"], d["lamda"], d["k"]
    r0 = A.cn2_to_r0(c, lam)
    iso = A.isoplanaticAngle(numpy.array([c]), numpy.array([h]), lam)
    tau = A.coherenceTime(numpy.array([c]), numpy.array([v]), lam)
    if rel(iso, 0.314 * r0 / h * 180 * 3600 / numpy.pi) > 2e-3:
        return bad("single-layer isoplanatic angle != 0.314 r0/h", iso, 0.314 * r0 / h * 180 * 3600 / numpy.pi)
    if rel(tau, 0.314 * r0 / v) > 2e-3:
        return bad("single-layer coherence time != 0.314 r0/v", tau, 0.314 * r0 / v)
    iso2 = A.isoplanaticAngle(numpy.array([c * k]), numpy.array([h * k ** 2]), lam * k ** 3)
    if rel(iso2 / iso, k ** (-0.6 + 3.6 - 2)) > 1e-8:
        return bad("isoplanatic angle exponents", iso2 / iso, k ** 1.0)
    tau2 = A.coherenceTime(numpy.array([c * k]), numpy.array([v * k ** 2]), lam * k ** 3)
    if rel(tau2 / tau, k ** (-0.6 + 3.6 - 2)) > 1e-8:
        return bad("coherence time exponents", tau2 / tau, k ** 1.0)
    # integer-typed altitude / wind arrays (numpy.arange(0, 25000, 250), numpy.array([10000]) ...) are legal inputs
    for hi in (10000, 6209, 25000, 150):
        for dt in ("int64", "int32"):
            i1 = A.isoplanaticAngle(numpy.array([c]), numpy.array([hi], dtype=dt), lam)
            i2 = A.isoplanaticAngle(numpy.array([c]), numpy.array([float(hi)]), lam)
            if not rel(i1, i2) <= 1e-12:
                return bad("isoplanaticAngle with an integer-typed altitude array (h=%d, %s) differs from the float altitude" % (hi, dt), float(numpy.asarray(i1).ravel()[0]), float(numpy.asarray(i2).ravel()[0]))
            t1 = A.coherenceTime(numpy.array([c]), numpy.array([hi // 100 + 1], dtype=dt), lam)
            t2 = A.coherenceTime(numpy.array([c]), numpy.array([float(hi // 100 + 1)]), lam)
            if not rel(t1, t2) <= 1e-12:
                return bad("coherenceTime with an integer-typed wind array (%s) differs from the float wind" % dt, float(numpy.asarray(t1).ravel()[0]), float(numpy.asarray(t2).ravel()[0]))
    hs = numpy.arange(0, 25000, 250)
    cs = numpy.full(len(hs), c / len(hs))
    if not rel(A.isoplanaticAngle(cs, hs, lam), A.isoplanaticAngle(cs, hs.astype(float), lam)) <= 1e-12:
        return bad("isoplanaticAngle on an integer altitude grid arange(0, 25000, 250) differs from the same grid as floats")
    if rel(A.isoplanaticAngle(numpy.array([c]), numpy.array([h])), A.isoplanaticAngle(numpy.array([c]), numpy.array([h]), 500e-9)) > TOL:
        return bad("isoplanaticAngle default wavelength", None, None)
    if rel(A.coherenceTime(numpy.array([c]), numpy.array([v])), A.coherenceTime(numpy.array([c]), numpy.array([v]), 500e-9)) > TOL:
        return bad("coherenceTime default wavelength", None, None)


def chk_band(inp):
    d = positives(inp)
    bands = [d["band"]] if inp and "band" in inp else BANDS
    m, f, t, p, ms, k = d["mag"], d["flux"], d["expTime"], d["pxlScale"], d["masksum"], d["k"]
    mask = numpy.zeros((40, 40)); mask.flat[:int(ms)] = 1
    for b in bands:
        fl = S.magnitude_to_flux(m, b)
        if abs(S.flux_to_magnitude(fl, b) - m) > 1e-9:
            return bad("flux_to_magnitude(magnitude_to_flux(m)) != m in band " + b, S.flux_to_magnitude(fl, b), m)
        if rel(S.magnitude_to_flux(S.flux_to_magnitude(f, b), b), f) > 1e-9:
            return bad("magnitude_to_flux(flux_to_magnitude(f)) != f in band " + b, S.magnitude_to_flux(S.flux_to_magnitude(f, b), b), f)
        if rel(S.magnitude_to_flux(m + 5, b), fl / 100) > 1e-9:
            return bad("5 magnitudes are not a factor 100 in band " + b, S.magnitude_to_flux(m + 5, b), fl / 100)
        ph = S.photons_per_band(m, mask, p, t, b)
        if rel(ph, fl * t * mask.sum() * p ** 2) > 1e-9:
            return bad("photons_per_band != flux*expTime*area in band " + b, ph, fl * t * mask.sum() * p ** 2)
        if rel(S.photons_per_band(m, mask, p, t * k, b), ph * k) > 1e-9 or rel(S.photons_per_band(m, mask, p * k, t, b), ph * k * k) > 1e-9:
            return bad("photons_per_band not proportional to exposure time / area in band " + b, None, None)
    # catalogue magnitudes held as integers (also unsigned, also in arrays): the same flux as for the float of the same value
    for b in bands[:3]:
        for mi in (0, 1, 5, 12):
            want = S.magnitude_to_flux(float(mi), b)
            for typed in (int(mi), numpy.uint8(mi), numpy.uint16(mi), numpy.int32(mi), numpy.uint64(mi), numpy.float32(mi)):
                got = S.magnitude_to_flux(typed, b)
                if not rel(got, want) <= 1e-6:
                    return bad("magnitude_to_flux(%s(%d), %s) differs from magnitude_to_flux(%d.0, %s)" % (type(typed).__name__, mi, b, mi, b), float(got), float(want))
            arr = S.magnitude_to_flux(numpy.array([mi, mi + 1], dtype="uint8"), b)
            if not (rel(arr[0], want) <= 1e-9 and rel(arr[1], S.magnitude_to_flux(mi + 1.0, b)) <= 1e-9):
                return bad("magnitude_to_flux of a uint8 array differs from the float values in band " + b, numpy.asarray(arr).tolist(), [float(want)])
            ph_u = S.photons_per_band(numpy.uint8(mi), mask, p, t, b)
            if not rel(ph_u, want * t * mask.sum() * p ** 2) <= 1e-9:
                return bad("photons_per_band(uint8 magnitude) != flux*expTime*area in band " + b, float(ph_u), float(want * t * mask.sum() * p ** 2))
    if rel(S.magnitude_to_flux(m), S.magnitude_to_flux(m, 'V')) > 0 or S.flux_to_magnitude(f) != S.flux_to_magnitude(f, 'V'):
        return bad("default band is not V", None, None)


def chk_permag(inp):
    d = positives(inp)
    m, t, p, ms, k, w = d["mag"], d["expTime"], d["pxlScale"], d["masksum"], d["k"], d["wvlBand"]
    mask = numpy.zeros((40, 40)); mask.flat[:int(ms)] = 1
    mask2 = numpy.zeros((40, 40)); mask2.flat[:2 * int(ms)] = 1
    ph = S.photons_per_mag(m, mask, p, w, t)
    for desc, got, want in (("~mask.sum()", S.photons_per_mag(m, mask2, p, w, t), 2 * ph), ("~pixel_scale^2", S.photons_per_mag(m, mask, p * k, w, t), ph * k * k),
                            ("~exposure_time", S.photons_per_mag(m, mask, p, w, t * k), ph * k), ("m+5 -> /100", S.photons_per_mag(m + 5, mask, p, w, t), ph / 100)):
        if rel(got, want) > 1e-9:
            return bad("photons_per_mag " + desc, got, want)


def chk_axis(inp):
    fns = [inp["fn"]] if inp and "fn" in inp else ["isoplanaticAngle", "coherenceTime", "rytov_variance"]
    rng = numpy.random.default_rng(11)
    for fn in fns:
        F = getattr(A, fn)
        for shape in ((4, 4), (3, 5), (3, 3, 3), (2, 4, 3), (5, 1), (1, 5), (3, 1, 5), (1, 1, 4)):
            cn2 = 10 ** rng.uniform(-14, -12, size=shape)
            h = 10 ** rng.uniform(2, 4, size=shape)
            for axis in list(range(-len(shape), len(shape))) + [None]:
                if inp and inp.get("rank") and (len(shape) != inp["rank"] or (inp.get("axis", "x") != "x" and axis != inp.get("axis"))):
                    continue
                kw = {} if axis is None else {"axis": axis}
                ax = -1 if axis is None else axis
                got = F(cn2, h, 6e-7, **kw)
                c2, h2 = numpy.moveaxis(cn2, ax, -1), numpy.moveaxis(h, ax, -1)
                want = numpy.empty(c2.shape[:-1])
                for idx in numpy.ndindex(*c2.shape[:-1]):
                    want[idx] = F(c2[idx], h2[idx], 6e-7)
                if numpy.shape(got) != want.shape or rel(got, want) > 1e-9:
                    return bad("%s on a stack (shape %s, axis %s) differs from looping over the profiles" % (fn, shape, axis), numpy.asarray(got).tolist(), want.tolist())
                # one altitude (wind) vector common to all profiles of the stack, the usual way to hold several profiles on one grid
                h1 = 10 ** rng.uniform(2, 4, size=shape[ax])
                try:
                    got1 = F(cn2, h1, 6e-7, **kw)
                except Exception as ex:
                    return bad("%s on a stack (shape %s, axis %s) with one common 1-d altitude / wind vector raises %s" % (fn, shape, axis, type(ex).__name__), repr(ex)[:200], "the per-profile values")
                want1 = numpy.empty(c2.shape[:-1])
                for idx in numpy.ndindex(*c2.shape[:-1]):
                    want1[idx] = F(c2[idx], h1, 6e-7)
                if numpy.shape(got1) != want1.shape or rel(got1, want1) > 1e-9:
                    return bad("%s on a stack (shape %s, axis %s) with one common 1-d altitude / wind vector differs from looping over the profiles" % (fn, shape, axis),
                               numpy.asarray(got1).tolist(), want1.tolist())


def fam_axis(tier, seed):
    yield {}


CLAUSES = {
    "inverse.cn2_to_r0": (mk_inverse("cn2_to_r0", "r0_to_cn2", "cn2", "r0"), grid),
    "inverse.r0_to_seeing": (mk_inverse("r0_to_seeing", "seeing_to_r0", "r0", "seeing"), grid),
    "inverse.cn2_to_seeing": (mk_inverse("cn2_to_seeing", "seeing_to_cn2", "cn2", "seeing"), grid),
    "composite": (chk_composite, grid), "scaling": (chk_scaling, grid), "slopes": (chk_slopes, grid), "single": (chk_single, grid),
    "band": (chk_band, grid), "permag": (chk_permag, grid), "axis": (chk_axis, fam_axis),
}
if __name__ == "__main__":
    main(CLAUSES)
