"""C18 Profile compression conserves the turbulence it compresses."""
import sys, os
sys.path.insert(0, os.path.dirname(os.path.dirname(os.path.abspath(__file__))))
from aovc.check import run_check
from contracts import profiles


def build(chk):
    chk.assumptions_used.update(["A-REAL", "A-NP", "A-MATH"])
    chk.math_lemmas.append("(x^(3/5))^(5/3) = x for x >= 0")
    profiles.obligations(chk)
    chk.bounded_native("equivalent_layers on regular / irregular / SI-unit profiles incl. the arange witness hmax=15000, L=7 and empty slabs (float edge count, moments)", "equivalent",
                       "6 profiles x L in {1,2,3,5,7,10}, with and without wind", "aotools/turbulence/profile_compression.py:equivalent_layers")
    chk.bounded_native("optimal_grouping: L layers, non-negative, total conserved, heights are input heights in increasing order, cost no worse than the equal split it starts from, three global RNG states", "grouping",
                       "6 profiles x L in {1,2,4,8} x 3 RNG states, R=3", "aotools/turbulence/profile_compression.py:optimal_grouping")
    chk.bounded_native("GCTM: L non-negative layers reproducing the first 2L-1 moments to optimiser accuracy (2e-2)", "gctm", "one regular profile (L in {2,3,5}) and 3 irregular profiles with a ground layer at h=0 (L in {2,3})", "aotools/turbulence/profile_compression.py:GCTM")
    chk.notes.append("slab edges come from numpy.linspace(hmin, hmax, L, endpoint=False): exactly L edges by construction; a float arange (length decided by rounding) would be flagged through the bounded native witness hmax=15000, L=7")
    chk.notes.append("optimal_grouping / GCTM (local search over numba-compiled cost, scipy.optimize.minimize) are outside the executor's subset: bounded native stand-ins only")
    chk.not_decided.append("GCTM reproduces the moments 'to optimiser accuracy' (L-BFGS-B numerics)")


if __name__ == "__main__":
    sys.exit(run_check("C18", "Profile compression conserves the turbulence it compresses", build))
