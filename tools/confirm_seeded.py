#!/usr/bin/env python3
"""Confirm every seeded change under /verif/seeded/<id>/ in a scratch worktree of /repo (outside /repo and /verif):
patch applies, full test suite still passes, demo FAILs with the change and PASSes without it.
Writes the outcome into meta.json["confirmed"].  Scratch worktrees are removed afterwards."""
import json, os, subprocess, sys, tempfile, shutil
from concurrent.futures import ThreadPoolExecutor
VERIF = os.path.dirname(os.path.dirname(os.path.abspath(__file__)))
DIR = "seeded"
if "--dir" in sys.argv:
    k = sys.argv.index("--dir"); DIR = sys.argv[k + 1]; del sys.argv[k:k + 2]
WANT_CHANGED = 1 if DIR == "seeded" else 0      # demo exit code expected with the change applied
PY = "/venv/bin/python"

def sh(cmd, cwd=None, env=None, timeout=1800):
    p = subprocess.run(cmd, shell=True, cwd=cwd, env=env, capture_output=True, text=True, timeout=timeout)
    return p.returncode, (p.stdout + p.stderr)

def confirm(name):
    d = os.path.join(VERIF, DIR, name)
    wt = tempfile.mkdtemp(prefix="aovc_seed_%s_" % name)
    os.rmdir(wt)
    out = {"repo_head": None}
    try:
        rc, o = sh("git -C /repo worktree add -q --detach %s HEAD" % wt)
        if rc: return name, {"error": o}
        out["repo_head"] = sh("git -C /repo rev-parse --short HEAD")[1].strip()
        env = dict(os.environ, PYTHONPATH=wt)
        rc, o = sh("%s %s/demo.py" % (PY, d), cwd=wt, env=env)
        out["demo_clean_exit"] = rc
        rc, o = sh("git apply %s/patch.diff" % d, cwd=wt)
        out["patch_applies"] = (rc == 0)
        if rc: out["apply_error"] = o[-500:]; return name, out
        rc, o = sh("%s -m pytest -q -p no:cacheprovider --timeout=900 -x" % PY, cwd=wt)
        out["tests_pass_with_change"] = (rc == 0)
        out["tests_tail"] = o.strip().splitlines()[-1] if o.strip() else ""
        rc, o = sh("%s %s/demo.py" % (PY, d), cwd=wt, env=env)
        out["demo_changed_exit"] = rc
        out["demo_changed_tail"] = "\n".join(o.strip().splitlines()[-3:])[-400:]
        out["ok"] = out["demo_clean_exit"] == 0 and out["tests_pass_with_change"] and out["demo_changed_exit"] == WANT_CHANGED
    finally:
        sh("git -C /repo worktree remove --force %s" % wt)
        shutil.rmtree(wt, ignore_errors=True)
    return name, out

names = sorted(n for n in os.listdir(os.path.join(VERIF, DIR)) if os.path.exists(os.path.join(VERIF, DIR, n, "patch.diff")))
if len(sys.argv) > 1: names = [n for n in names if any(a in n for a in sys.argv[1:])]
with ThreadPoolExecutor(6) as ex:
    for name, out in ex.map(confirm, names):
        mp = os.path.join(VERIF, DIR, name, "meta.json")
        try: meta = json.load(open(mp))
        except Exception: meta = {}
        meta["confirmed"] = out
        json.dump(meta, open(mp, "w"), indent=1)
        print(name, "OK" if out.get("ok") else "NOT-CONFIRMED", {k: v for k, v in out.items() if k in ("demo_clean_exit", "patch_applies", "tests_pass_with_change", "demo_changed_exit")})
sh("git -C /repo worktree prune")
