"""Contracts for aotools/fouriertransform.py (property C09), operator-word encoding."""
import z3
from aovc import frontend, opword
from aovc.opword import Lin
from aovc.check import num
from aovc.contract import verify, fallback
from aovc.values import zr, zi, Unsupported

FT = "aotools/fouriertransform.py"


def spec_ft_word(it, x, delta, axes, inverse=False):
    """the statement's centred transform on the last axis/axes: origin at sample floor(N/2) on both sides,
    X[k] = delta * sum_n x[n] exp(-2 pi i (k-h)(n-h)/N)   (inverse: +, scale N*delta_f per axis with NumPy's 1/N)"""
    w = x
    for ax in axes:
        n = x.shape[ax]
        h = it.floordiv(n, 2)
        w = w.with_op(("roll", ax, -h))
    for ax in axes:
        w = w.with_op(("ifft" if inverse else "fft", ax))
    for ax in axes:
        n = x.shape[ax]
        h = it.floordiv(n, 2)
        w = w.with_op(("roll", ax, h))
    sc = 1
    for ax in axes:
        sc = sc * (zr(x.shape[ax]) * delta if inverse else delta)
    return w.scaled(sc)


def obligations(chk, real_variants=True):
    B, N = z3.Ints("B N")
    delta = z3.Real("delta")
    for (f, g, rank2) in (("ft", "ift", False), ("ft2", "ift2", True)):
        shape = [B, N, N] if rank2 else [B, N]
        axes = [1, 2] if rank2 else [1]
        power = 2 if rank2 else 1

        def run(it, f=f, g=g, shape=shape):
            it.ctx.assume(B >= 1)
            it.ctx.assume(N >= 1)
            it.ctx.assume(delta > 0)
            x = Lin(shape)
            df = 1 / (zr(N) * delta)
            fwd = it.call_repo(FT, f, [x, delta])
            inv = it.call_repo(FT, g, [x, delta])
            rt1 = it.call_repo(FT, g, [fwd, df])
            rt2 = it.call_repo(FT, f, [it.call_repo(FT, g, [x, delta]), df])
            return it, x, fwd, inv, rt1, rt2

        def post(pr, f=f, g=g, axes=axes, power=power):
            it, x, fwd, inv, rt1, rt2 = pr.value
            valid = it.ctx.valid
            out = []
            for w, nm in ((fwd, f), (inv, g), (rt1, g + "(" + f + ")"), (rt2, f + "(" + g + ")")):
                out.append(("%s.linear-in-input" % nm, z3.BoolVal(isinstance(w, Lin) and not any(op[0] == "re" for op in w.ops))))
            if not all(isinstance(w, Lin) for w in (fwd, inv, rt1, rt2)):
                return out
            for n_, fml in opword.equal_obligations(it, fwd, spec_ft_word(it, x, delta, axes), valid):
                out.append(("%s.centred-scaled-last-axes.%s" % (f, n_), fml))
            for n_, fml in opword.equal_obligations(it, inv, spec_ft_word(it, x, delta, axes, inverse=True), valid):
                out.append(("%s.centred-scaled-last-axes.%s" % (g, n_), fml))
            for n_, fml in opword.equal_obligations(it, rt1, x, valid):
                out.append(("%s(%s(x,d),1/(N d))=x.%s" % (g, f, n_), fml))
            for n_, fml in opword.equal_obligations(it, rt2, x, valid):
                out.append(("%s(%s(X,d),1/(N d))=X.%s" % (f, g, n_), fml))
            # Parseval: sum|X|^2 * df^p = sum|x|^2 * d^p with df = 1/(N d)
            df = 1 / (zr(N) * delta)
            out.append(("%s.parseval" % f, zr(opword.energy_factor(it, fwd)) * df ** power == delta ** power))
            out.append(("%s.parseval" % g, zr(opword.energy_factor(it, inv)) * df ** power == delta ** power))
            return out

        def replay(m, f=f):
            return {"fn": f, "N": num(m.eval(N, model_completion=True)), "B": max(1, min(3, int(num(m.eval(B, model_completion=True))))), "delta": num(m.eval(delta, model_completion=True))}
        verify(chk, "%s/%s" % (f, g), FT + ":%s,%s" % (f, g), run, post, clause="complex.%s" % ("2d" if rank2 else "1d"), replay=replay, encoding="operator-words", frame=False)

    # as exported: what aotools.ft / ift / ft2 / ift2 denote (static resolution of the star-import chain)
    init = frontend.load("aotools/__init__.py")
    for name in ("ft", "ift", "ft2", "ift2", "rft", "irft", "rft2", "irft2"):
        r = frontend.resolve_name(init, name)
        ok = r is not None and r[0] == "func" and r[1].relpath == FT and r[2] == name
        chk.functions["aotools/__init__.py:<exports>"] = {"sha256": init.sha256, "dropped": []}
        chk.add("export.aotools.%s-is-fouriertransform.%s" % (name, name), [], z3.BoolVal(bool(ok)), "aotools/__init__.py:" + name, "static-resolution", "export",
                replay=lambda m, name=name: {"name": name})

    # real-input variants: rfft / irfft on half spectra are outside the word encoding; bounded native stand-in
    if real_variants:
        fallback(chk, "rft/irft/rft2/irft2", FT + ":rft,irft,rft2,irft2", "real", "numpy.fft.rfft/irfft (half spectra) are not in the operator-word encoding")
