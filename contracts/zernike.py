"""Contracts for aotools/functions/zernike.py (property C12)."""
import z3
from aovc.check import num
from aovc.contract import verify
from aovc.values import zr, zi, UF
from aovc.arrays import Arr, sym_arr

ZK = "aotools/functions/zernike.py"


def absz(x):
    return z3.If(x >= 0, x, -x)


def bracket_lemmas(j, n):
    """squaring the bracket 2n+1 <= sqrt(8(j-1)+1) < 2n+3 that int() establishes (nonlinear step given to the solver as lemmas,
    each proved as its own obligation): n(n+1)/2 <= j-1 < (n+1)(n+2)/2"""
    nr = z3.ToReal(n)
    return [("(2n+1)^2 <= 8j-7", (2 * nr + 1) * (2 * nr + 1) <= 8 * z3.ToReal(j) - 7),
            ("8j-7 < (2n+3)^2", 8 * z3.ToReal(j) - 7 < (2 * nr + 3) * (2 * nr + 3))]


ZN = z3.Function("zernIndex.n", z3.IntSort(), z3.IntSort())
ZM = z3.Function("zernIndex.m", z3.IntSort(), z3.IntSort())


def zernIndex_summary(it, args, kwargs):
    """callee contract of zernIndex used at call sites: (n, m) are functions of j constrained by the proved postcondition"""
    j = zi(args[0])
    it.ctx.definedness(j >= 1, "zernIndex: j >= 1")
    n, m = ZN(j), ZM(j)
    a = absz(m)
    it.ctx.assume(z3.And(n >= 0, a <= n, (n - a) % 2 == 0, n * (n + 1) <= 2 * (j - 1), 2 * (j - 1) < (n + 1) * (n + 2), z3.Implies(m != 0, (j % 2 == 0) == (m > 0))))
    return [n, m]


RAD = z3.Function("zernikeRadialFunc", z3.IntSort(), z3.IntSort(), z3.RealSort(), z3.RealSort())


def radial_summary(it, args, kwargs):
    """callee contract of zernikeRadialFunc used at call sites: elementwise the radial polynomial R_n^m(r) (an uninterpreted function
    of (n, m, r); its defining sum is the callee's own postcondition)"""
    from aovc.npmodel import map1
    n, m, r = zi(args[0]), zi(args[1]), args[2]
    it.ctx.definedness(z3.And(m >= 0, m <= n, (n - m) % 2 == 0), "zernikeRadialFunc: 0 <= m <= n, n - m even")
    return map1(it, r, lambda v: RAD(n, m, zr(v)), "float")


def radial_spec_sum(it, n, m, r):
    """the statement's definition: sum_{i=0}^{(n-m)/2} (-1)^i (n-i)! / (i! ((n+m)/2-i)! ((n-m)/2-i)!) r^(n-2i)"""
    from aovc.npmodel import sigma
    fact = z3.Function("fact", z3.IntSort(), z3.IntSort())
    powf = UF("pow", 2)

    def body(k):
        i = k[0]
        return powf(zr(r), z3.ToReal(n - 2 * i)) * z3.ToReal(powf(z3.RealVal(-1), z3.ToReal(i)) * 1 if False else 1) * 0 if False else \
            powf(zr(r), z3.ToReal(n - 2 * i)) * (powf(z3.RealVal(-1), z3.ToReal(i)) * z3.ToReal(fact(n - i))) / z3.ToReal(fact(i) * fact((n + m) / 2 - i) * fact((n - m) / 2 - i))
    return sigma(it, [(0, (n - m) / 2 + 1)], body, "radial")


def obligations(chk):
    j, j2 = z3.Ints("j j2")

    def run1(it):
        it.ctx.assume(j >= 1)
        return it.call_repo(ZK, "zernIndex", [j])

    def post1(pr):
        n, m = zi(pr.value[0]), zi(pr.value[1])
        lem = bracket_lemmas(j, n)
        H = {"hyps": [f for _, f in lem]}
        a = absz(m)
        goals = [("lemma." + nm, f) for nm, f in lem]
        goals += [("P1.n>=0", n >= 0, H), ("P1.|m|<=n", a <= n, H), ("P1.n-|m|-even", (n - a) % 2 == 0, H),
                  ("P2.even-j-cosine-odd-j-sine", z3.Implies(m != 0, (j % 2 == 0) == (m > 0)), H),
                  ("block.n(n+1)/2<=j-1<(n+1)(n+2)/2", z3.And(n * (n + 1) <= 2 * (j - 1), 2 * (j - 1) < (n + 1) * (n + 2)), H)]
        return goals
    verify(chk, "zernIndex", ZK + ":zernIndex", run1, post1, clause="noll.index", replay=lambda m_: {"j": num(m_.eval(j, model_completion=True))}, encoding="QF_NIRA + squaring lemmas")

    # two indices: injective and ordered by n then |m|
    def run2(it):
        it.ctx.assume(j >= 1)
        it.ctx.assume(j2 >= 1)
        return it.call_repo(ZK, "zernIndex", [j]), it.call_repo(ZK, "zernIndex", [j2])

    def post2(pr):
        (n1, m1), (n2, m2) = [(zi(a), zi(b)) for a, b in pr.value]
        lem = bracket_lemmas(j, n1) + bracket_lemmas(j2, n2)
        # triangular numbers increase strictly: n1 < n2 => (n1+1)(n1+2) <= n2(n2+1)
        tri = [("triangular-monotone-12", z3.Implies(n1 < n2, (n1 + 1) * (n1 + 2) <= n2 * (n2 + 1))), ("triangular-monotone-21", z3.Implies(n2 < n1, (n2 + 1) * (n2 + 2) <= n1 * (n1 + 1)))]
        H = {"hyps": [f for _, f in lem + tri]}
        a1, a2 = absz(m1), absz(m2)
        goals = [("lemma." + nm, f) for nm, f in lem]
        goals += [("lemma." + nm, f, {"hyps": [z3.And(n1 >= 0, n2 >= 0)]}) for nm, f in tri]
        goals += [("P3.injective", z3.Implies(z3.And(n1 == n2, m1 == m2), j == j2), H),
                  ("P4.ordered-by-n-then-|m|", z3.Implies(j < j2, z3.Or(n1 < n2, z3.And(n1 == n2, a1 <= a2))), H)]
        return goals
    verify(chk, "zernIndex.pair", ZK + ":zernIndex", run2, post2, clause="noll.index", replay=lambda m_: {"j": num(m_.eval(j, model_completion=True)), "j2": num(m_.eval(j2, model_completion=True))},
           encoding="QF_NIRA + squaring / monotonicity lemmas", max_paths=200)

    # surjective: explicit inverse J(n, m)
    N_, M_ = z3.Ints("n_ m_")
    a_ = absz(M_)
    T2 = N_ * (N_ + 1)          # twice the triangular number
    base = T2 / 2 + a_
    want_even = M_ > 0
    J = z3.If(M_ == 0, T2 / 2 + 1, z3.If((base % 2 == 0) == want_even, base, base + 1))

    def run3(it):
        it.ctx.assume(z3.And(N_ >= 0, a_ <= N_, (N_ - a_) % 2 == 0))
        it.ctx.assume(T2 % 2 == 0)          # product of consecutive integers is even (proved below as a lemma)
        return it.call_repo(ZK, "zernIndex", [J])

    def post3(pr):
        n, m = zi(pr.value[0]), zi(pr.value[1])
        lem = bracket_lemmas(J, n)
        tri = [("triangular-monotone-a", z3.Implies(n < N_, (n + 1) * (n + 2) <= N_ * (N_ + 1))), ("triangular-monotone-b", z3.Implies(N_ < n, (N_ + 1) * (N_ + 2) <= n * (n + 1)))]
        H = {"hyps": [f for _, f in lem + tri]}
        goals = [("lemma." + nm, f) for nm, f in lem]
        goals += [("lemma." + nm, f, {"hyps": [n >= 0]}) for nm, f in tri]
        goals += [("P5.zernIndex(J(n,m)).n=n", n == N_, H), ("P5.zernIndex(J(n,m)).m=m", m == M_, H), ("P5.J>=1", J >= 1, H)]
        return goals
    verify(chk, "zernIndex.onto", ZK + ":zernIndex", run3, post3, clause="noll.onto", replay=lambda m_: {"n": num(m_.eval(N_, model_completion=True)), "m": num(m_.eval(M_, model_completion=True))},
           encoding="QF_NIRA + lemmas", max_paths=200)
    q = z3.Int("q")
    chk.add("lemma.product-of-consecutive-integers-is-even", [z3.Or(N_ == 2 * q, N_ == 2 * q + 1)], (N_ * (N_ + 1)) % 2 == 0, ZK + ":zernIndex", "lemma (witness q = n div 2)", "noll.onto", kind="lemma")


def mode_obligations(chk):
    from aovc import sigma
    from aovc.npmodel import map1
    from contracts.pupil import circle_summary, circle_spec, PUPIL
    n, m, N, A, B = z3.Ints("n m N A B")
    rot = z3.Real("rot")
    p, q = z3.Ints("p q")

    # ---- zernikeRadialFunc is the radial polynomial of the statement, in its Jacobi form:
    #      R_n^m(r) = (-1)^k r^m P_k^(m,0)(1 - 2 r^2), k = (n - m)/2  (identical, as a polynomial, to the factorial sum
    #      sum_i (-1)^i (n-i)! / (i! ((n+m)/2-i)! ((n-m)/2-i)!) r^(n-2i): mathematical lemma A-MATH; the library call eval_jacobi is trusted;
    #      the agreement of the running code with the factorial sum in EXACT rational arithmetic is the bounded native clause `radial`)
    def run_r(it):
        it.ctx.assume(z3.And(m >= 0, m <= n, (n - m) % 2 == 0, A >= 1, B >= 1))
        r = sym_arr("r", [A, B], prov={"r"})
        return it, r, it.call_repo(ZK, "zernikeRadialFunc", [n, m, r])

    def post_r(pr):
        from aovc.values import s_pow, s_mul, s_sub
        it, r, out = pr.value
        goals = [("shape", z3.BoolVal(isinstance(out, Arr) and out.ndim == 2))]
        if not (isinstance(out, Arr) and out.ndim == 2):
            return goals
        goals.append(("shape.dims", z3.And(zi(out.shape[0]) == A, zi(out.shape[1]) == B)))
        code = zr(out.get([p, q]))
        rv = r.get([p, q])
        k = (n - m) / 2
        jac = UF("eval_jacobi", 4)(z3.ToReal(k), z3.ToReal(m), z3.RealVal(0), 1 - 2 * zr(s_mul(rv, rv)))
        spec = zr(s_mul(s_mul(s_pow(-1, k, it.ctx), s_pow(rv, m, it.ctx)), jac))
        inb = z3.And(p >= 0, p < A, q >= 0, q < B)
        goals.append(("radial-polynomial-in-Jacobi-form:(-1)^k r^m P_k^(m,0)(1-2r^2), k=(n-m)/2", z3.Implies(inb, code == spec)))
        return goals
    verify(chk, "zernikeRadialFunc", ZK + ":zernikeRadialFunc", run_r, post_r, clause="radial",
           replay=lambda mm: {"n": num(mm.eval(n, model_completion=True)), "m": num(mm.eval(m, model_completion=True))}, encoding="pointwise; eval_jacobi as an uninterpreted library function")
    chk.math_lemmas.append("Zernike radial polynomial = Jacobi polynomial: sum_i (-1)^i (n-i)!/(i! ((n+m)/2-i)! ((n-m)/2-i)!) r^(n-2i) = (-1)^k r^m P_k^(m,0)(1-2r^2), k=(n-m)/2 (Born & Wolf; checked in exact rational arithmetic for n <= 30 and selected n <= 100 by the native clause `radial`)")

    # ---- zernike_nm: norm * R_n^|m|(r) * trig(|m| theta + rot) inside the pupil, 0 outside
    SUM = {(ZK, "zernikeRadialFunc"): radial_summary, (PUPIL, "circle"): circle_summary}

    def run_nm(it):
        it.ctx.assume(z3.And(n >= 0, absz(m) <= n, (n - absz(m)) % 2 == 0, N >= 1))
        return it, it.call_repo(ZK, "zernike_nm", [n, m, N, rot])

    def post_nm(pr):
        it, Z = pr.value
        goals = [("shape-NxN", z3.BoolVal(isinstance(Z, Arr) and Z.ndim == 2))]
        if not (isinstance(Z, Arr) and Z.ndim == 2):
            return goals
        goals.append(("shape-NxN.dims", z3.And(zi(Z.shape[0]) == N, zi(Z.shape[1]) == N)))
        inb = z3.And(p >= 0, p < N, q >= 0, q < N)
        half = z3.ToReal(N) / 2
        x = (z3.ToReal(q) - half + z3.RealVal("1/2")) / half
        y = (z3.ToReal(p) - half + z3.RealVal("1/2")) / half
        inside = circle_spec(half, N, 0, 0, "middle")(p, q)
        r = UF("sqrt")(x * x + y * y)
        th = UF("arctan2", 2)(y, x)
        am = absz(m)
        norm = z3.If(m == 0, UF("sqrt")(z3.ToReal(n + 1)), UF("sqrt")(z3.ToReal(2 * (n + 1))))
        trig = z3.If(m == 0, z3.RealVal(1), z3.If(m > 0, UF("cos")(z3.ToReal(am) * th + rot), UF("sin")(z3.ToReal(am) * th + rot)))
        val = zr(Z.get([p, q]))
        goals.append(("vanishes-outside-the-inscribed-pupil", z3.Implies(z3.And(inb, z3.Not(inside)), val == 0)))
        # the two masks of the code (R <= 1 and circle(N/2, N)) agree: small nonlinear steps given as lemmas, each proved on its own
        # schema over fresh reals (proved once): u^2 + v^2 <= h^2, h > 0  =>  (u/h)^2 + (v/h)^2 <= 1 ; used at u, v = pixel offsets, h = N/2
        u_, v_, h_ = z3.Reals("u_ v_ h_")
        goals.append(("lemma.schema:u^2+v^2<=h^2,h>0=>(u/h)^2+(v/h)^2<=1", z3.Implies(z3.And(u_ * u_ + v_ * v_ <= h_ * h_, h_ > 0), (u_ / h_) * (u_ / h_) + (v_ / h_) * (v_ / h_) <= 1)))
        U_, V_ = z3.ToReal(q) - half + z3.RealVal("1/2"), z3.ToReal(p) - half + z3.RealVal("1/2")
        inst = z3.Implies(z3.And(U_ * U_ + V_ * V_ <= half * half, half > 0), (U_ / half) * (U_ / half) + (V_ / half) * (V_ / half) <= 1)
        l1 = z3.Implies(z3.And(inb, inside), x * x + y * y <= 1)
        l2 = z3.Implies(z3.And(r >= 0, r * r <= 1), r <= 1)
        goals.append(("lemma.inside-pupil-implies-x^2+y^2<=1", l1, {"hyps": [inst]}))
        goals.append(("lemma.r>=0-and-r^2<=1-implies-r<=1", l2))
        goals.append(("inside:noll-factor*radial*trig", z3.Implies(z3.And(inb, inside), val == norm * RAD(n, am, r) * trig), {"hyps": [l1, l2]}))
        return goals
    verify(chk, "zernike_nm", ZK + ":zernike_nm", run_nm, post_nm, clause="mode",
           replay=lambda mm: {"n": num(mm.eval(n, model_completion=True)), "m": num(mm.eval(m, model_completion=True)), "N": num(mm.eval(N, model_completion=True))},
           encoding="pointwise, callee contracts (circle, zernikeRadialFunc)", summaries=SUM)


ZMODE = z3.Function("zernike_noll.mode", z3.IntSort(), z3.IntSort(), z3.RealSort(), z3.IntSort(), z3.IntSort(), z3.RealSort())


def noll_summary(it, args, kwargs):
    """callee contract of zernike_noll at call sites: an N x N array whose elements are a function of (j, N, rot, row, col)"""
    j, N_ = zi(args[0]), zi(args[1])
    rot = zr(args[2] if len(args) > 2 else kwargs.get("rot", 0))
    it.ctx.definedness(j >= 1, "zernike_noll: j >= 1")
    return Arr([N_, N_], lambda idx: ZMODE(j, N_, rot, zi(idx[0]), zi(idx[1])), "float")


def array_obligations(chk):
    from aovc import sigma
    from aovc.npmodel import sigma as mk_sigma
    from contracts.pupil import circle_summary, PUPIL
    N, maxJ, L = z3.Ints("N maxJ L")
    rot = z3.Real("rot")
    p, q, x = z3.Ints("p q x")
    j1, j2, j3 = z3.Ints("j1 j2 j3")
    SUM = {(ZK, "zernike_noll"): noll_summary, (PUPIL, "circle"): circle_summary}
    inb = z3.And(p >= 0, p < N, q >= 0, q < N)

    # zernike_noll = zernike_nm o zernIndex
    def run_noll(it):
        it.ctx.assume(z3.And(j1 >= 1, N >= 1))
        S2 = {(ZK, "zernIndex"): zernIndex_summary, (ZK, "zernikeRadialFunc"): radial_summary, (PUPIL, "circle"): circle_summary}
        a = it.call_repo(ZK, "zernike_noll", [j1, N, rot])
        b = it.call_repo(ZK, "zernike_nm", [ZN(j1), ZM(j1), N, rot])
        return a, b
    verify(chk, "zernike_noll", ZK + ":zernike_noll", run_noll,
           lambda pr: [("is zernike_nm(zernIndex(j))", z3.Implies(inb, zr(pr.value[0].get([p, q])) == zr(pr.value[1].get([p, q]))))], clause="mode",
           replay=lambda mm: {"j": num(mm.eval(j1, model_completion=True)), "N": num(mm.eval(N, model_completion=True))},
           summaries={(ZK, "zernIndex"): zernIndex_summary, (ZK, "zernikeRadialFunc"): radial_summary, (PUPIL, "circle"): circle_summary}, max_paths=200)

    # count: Zs[j-1] = zernike_noll(j)  for j = 1..maxJ  (loop summary S2);  list: Zs[i] = zernike_noll(J[i])  => list equals the matching slices
    def run_count(it):
        it.ctx.assume(z3.And(N >= 1, maxJ >= 0))
        return it.call_repo(ZK, "zernikeArray", [maxJ, N], {"rot": rot})

    def post_count(pr):
        Zs = pr.value
        ok = isinstance(Zs, Arr) and Zs.ndim == 3
        goals = [("rank3", z3.BoolVal(ok))]
        if ok:
            goals.append(("shape=(maxJ,N,N)", z3.And(zi(Zs.shape[0]) == maxJ, zi(Zs.shape[1]) == N, zi(Zs.shape[2]) == N)))
            goals.append(("Zs[j-1]=zernike_noll(j)", z3.Implies(z3.And(inb, x >= 0, x < maxJ), zr(Zs.get([x, p, q])) == ZMODE(x + 1, N, rot, p, q))))
        return goals
    verify(chk, "zernikeArray[count]", ZK + ":zernikeArray", run_count, post_count, clause="array.list-vs-count", summaries=SUM, encoding="loop-summary S2, callee contract zernike_noll",
           replay=lambda mm: {"maxJ": num(mm.eval(maxJ, model_completion=True)), "N": num(mm.eval(N, model_completion=True))})

    def run_list(it):
        it.ctx.assume(z3.And(N >= 1, j1 >= 1, j2 >= 1, j3 >= 1))
        return it.call_repo(ZK, "zernikeArray", [[j1, j2, j3], N], {"rot": rot})

    def post_list(pr):
        Zs = pr.value
        ok = isinstance(Zs, Arr) and Zs.ndim == 3
        goals = [("rank3", z3.BoolVal(ok))]
        if ok:
            goals.append(("shape=(3,N,N)", z3.And(zi(Zs.shape[0]) == 3, zi(Zs.shape[1]) == N, zi(Zs.shape[2]) == N)))
            for k_, jj in enumerate((j1, j2, j3)):
                goals.append(("Zs[%d]=zernike_noll(J[%d]) (= slice J[%d]-1 of the count array)" % (k_, k_, k_), z3.Implies(inb, zr(Zs.get([k_, p, q])) == ZMODE(jj, N, rot, p, q))))
        return goals
    verify(chk, "zernikeArray[list]", ZK + ":zernikeArray", run_list, post_list, clause="array.list-vs-count", summaries=SUM, encoding="unrolled list of 3 symbolic indices, callee contract zernike_noll",
           replay=lambda mm: {"J": [num(mm.eval(t, model_completion=True)) for t in (j1, j2, j3)], "N": num(mm.eval(N, model_completion=True))})

    # phaseFromZernikes: sum_z c[z] * zernikeArray(len(c), size, norm, rot)[z]
    ZARR = {}

    def array_summary(it, args, kwargs):
        J, N_ = args[0], zi(args[1])
        norm = kwargs.get("norm", args[2] if len(args) > 2 else "noll")
        r_ = zr(kwargs.get("rot", args[3] if len(args) > 3 else 0))
        if not isinstance(norm, str):
            raise Exception("symbolic norm")
        f = ZARR.setdefault(norm, z3.Function("zernikeArray[%s]" % norm, z3.IntSort(), z3.IntSort(), z3.RealSort(), z3.IntSort(), z3.IntSort(), z3.IntSort(), z3.RealSort()))
        Jn = zi(J)
        return Arr([Jn, N_, N_], lambda idx: f(Jn, N_, r_, zi(idx[0]), zi(idx[1]), zi(idx[2])), "float")

    for norm in ("noll", "p2v", "rms"):
        def run_phase(it, norm=norm):
            it.ctx.assume(z3.And(N >= 1, L >= 0))
            c = sym_arr("zCoeffs", [L], prov={"zCoeffs"})
            return it, c, it.call_repo(ZK, "phaseFromZernikes", [c, N], {"norm": norm, "rot": rot})

        def post_phase(pr, norm=norm):
            it, c, ph = pr.value
            ok = isinstance(ph, Arr) and ph.ndim == 2
            goals = [("rank2", z3.BoolVal(ok))]
            if not ok:
                return goals
            goals.append(("shape=(size,size)", z3.And(zi(ph.shape[0]) == N, zi(ph.shape[1]) == N)))
            f = ZARR[norm]
            spec = zr(mk_sigma(it, [(0, L)], lambda k: f(L, N, rot, k[0], p, q) * zr(c.get([k[0]])), "spec"))
            code = zr(ph.get([p, q]))
            side, hyps = sigma.relate_pairwise(it.ctx, code, spec)
            goals += [("phase." + nm, z3.Implies(inb, g)) for nm, g in side]
            goals.append(("phase=sum_z c[z]*Z_z", z3.Implies(inb, code == spec), {"hyps": hyps}))
            return goals
        verify(chk, "phaseFromZernikes[%s]" % norm, ZK + ":phaseFromZernikes", run_phase, post_phase, clause="phase.linear-combination", summaries={(ZK, "zernikeArray"): array_summary},
               encoding="loop-summary S1 (array accumulate) + sigma-extensionality", replay=lambda mm: {"L": num(mm.eval(L, model_completion=True)), "N": num(mm.eval(N, model_completion=True))})
