import sys, os
sys.path.insert(0, os.path.dirname(os.path.abspath(__file__)))
import numpy
from _harness import main
import aotools


def bad(msg, obs=None, exp=None):
    return {"message": msg, "observed": obs, "expected": exp}


def chk_sf(inp):
    R, C = int(inp.get("R", 12)), int(inp.get("C", 12))
    step, nb = inp.get("step"), inp.get("nb")
    if R < 1 or C < 1 or R > 200 or C > 200:
        return
    # phase held in an integer type (fixed-point storage): the ramp of slope a still gives a^2 (j step)^2, also where a^2 j^2 does not fit the type
    ramp = numpy.outer(numpy.arange(16) * 20, numpy.ones(4))
    for dt, scale in (("int16", 10), ("int32", 3000), ("uint16", 10), ("uint32", 5000), ("int64", 1), ("float32", 1)):
        got = aotools.calculate_structure_function((ramp * scale).astype(dt), 4)
        want = (20. * scale) ** 2 * numpy.arange(4) ** 2
        if got.shape != want.shape or not numpy.allclose(got, want, rtol=1e-6):
            return bad("calculate_structure_function of a %s ramp of slope %g is not a^2 j^2" % (dt, 20. * scale), numpy.asarray(got).tolist(), want.tolist())
    rng = numpy.random.default_rng(R * 31 + C)
    for kind in ("random", "ramp", "spike"):
        if kind == "random":
            ph = rng.normal(size=(R, C)).cumsum(0)
        elif kind == "ramp":
            ph = numpy.outer(numpy.arange(R) * 0.7, numpy.ones(C))
        else:
            ph = numpy.zeros((R, C)); ph[min(1, R - 1)] = 1.0
        if step is None:
            st, n = 1, C / 4
            sf = aotools.calculate_structure_function(ph.copy())
        else:
            st, n = int(step), int(nb)
            if st < 1 or n < 1:
                return
            sf = aotools.calculate_structure_function(ph.copy(), nbOfPoint=n, step=st)
        xm = int(min(n, R / st - 1))
        if len(sf) != max(xm, 0):
            return bad("length of the structure function", len(sf), xm)
        for j in range(len(sf)):
            if j * st >= R:
                return bad("lag %d (step %d) leaves no overlapping row of a %dx%d phase: the estimator returns %r" % (j, st, R, C, float(sf[j])), float(sf[j]), "a lag with at least one overlapping row")
            want = 0.0 if j == 0 else numpy.mean((ph[:R - j * st] - ph[j * st:]) ** 2)
            if not abs(sf[j] - want) <= 1e-9 * max(1, abs(want)):
                return bad("sf[%d] (%s phase %dx%d, step %d) is not the mean squared difference at lag %d" % (j, kind, R, C, st, j * st), float(sf[j]), float(want))
        if kind == "random" and step is not None:
            # integer-typed phase (quantised screens): same numbers as the same phase in floating point
            q = numpy.round(ph * 7).astype("int64")
            for dt in ("int64", "int32", "int16"):
                s_int = aotools.calculate_structure_function(q.astype(dt), nbOfPoint=n, step=st)
                s_flt = aotools.calculate_structure_function(q.astype(float), nbOfPoint=n, step=st)
                if len(s_int) != len(s_flt) or not numpy.allclose(numpy.asarray(s_int, dtype=float), s_flt, rtol=1e-12, atol=1e-12):
                    return bad("structure function of an integer-typed (%s) phase differs from that of the same phase as float (%dx%d, step %d)" % (dt, R, C, st),
                               numpy.asarray(s_int, dtype=float).tolist()[:4], numpy.asarray(s_flt).tolist()[:4])
        if kind == "ramp":
            for j in range(len(sf)):
                if abs(sf[j] - (0.7 * j * st) ** 2) > 1e-9 * max(1, (0.7 * j * st) ** 2):
                    return bad("ramp of slope a: sf[j] != a^2 (j step)^2", float(sf[j]), (0.7 * j * st) ** 2)


def fam_sf(tier, seed):
    for R, C in ((8, 8), (12, 12), (16, 8), (33, 20), (6, 64), (5, 9)):
        yield {"R": R, "C": C, "step": None, "nb": None}
        for step in (1, 2, 3):
            for nb in (1, 2, 4):
                yield {"R": R, "C": C, "step": step, "nb": nb}


def chk_tps(inp):
    B, F, NC = int(inp.get("B", 2)), int(inp.get("F", 16)), int(inp.get("NC", 5))
    if min(B, F, NC) < 1 or F > 600 or NC > 60 or B > 4:
        return
    x = numpy.random.default_rng(F).normal(size=(B, F, NC))
    m, e = aotools.calc_slope_temporalps(x.copy())
    k = numpy.arange(F // 2)
    W = numpy.exp(-2j * numpy.pi * numpy.outer(k, numpy.arange(F)) / F)
    P = numpy.abs(numpy.einsum("kf,bfc->bkc", W, x)) ** 2
    if m.shape != (B, F // 2) or not numpy.allclose(m, P.mean(-1), rtol=1e-9, atol=1e-9):
        return bad("mean spectrum is not the mean over sub-apertures of |DFT along frames|^2 (n_frames=%d)" % F, numpy.asarray(m).tolist()[:1], P.mean(-1).tolist()[:1])
    if not numpy.allclose(e, P.std(-1) / numpy.sqrt(NC), rtol=1e-9, atol=1e-9):
        return bad("error is not std over sub-apertures / sqrt(n)", None, None)
    # sub-apertures that are dark (exactly zero in every frame) are sub-apertures too: the average is over ALL of them
    xd = x.copy(); xd[..., 0] = 0
    if NC > 2:
        xd[0, :, -1] = 0
    md, ed = aotools.calc_slope_temporalps(xd.copy())
    Pd = numpy.abs(numpy.einsum("kf,bfc->bkc", W, xd)) ** 2
    if md.shape != (B, F // 2) or not numpy.allclose(md, Pd.mean(-1), rtol=1e-9, atol=1e-9) or not numpy.allclose(ed, Pd.std(-1) / numpy.sqrt(NC), rtol=1e-9, atol=1e-9):
        return bad("with dark sub-apertures the mean spectrum / its error are not the mean / std over ALL sub-apertures (n_frames=%d, %d sub-apertures)" % (F, NC), numpy.asarray(md).tolist()[:1], Pd.mean(-1).tolist()[:1])
    m2, _ = aotools.calc_slope_temporalps(2 * x)
    if not numpy.allclose(m2, 4 * m, rtol=1e-9):
        return bad("power spectrum is not quadratic in amplitude", float((m2 / m).mean()), 4.0)
    # pure sinusoid peaks at its bin
    kb = max(1, (F // 2) // 3)
    if F // 2 > 2:
        s = numpy.sin(2 * numpy.pi * kb * numpy.arange(F) / F)[:, None] * numpy.ones((1, NC))
        ms, _ = aotools.calc_slope_temporalps(s)
        if int(numpy.argmax(ms)) != kb:
            return bad("pure sinusoid at bin %d peaks at bin %d" % (kb, int(numpy.argmax(ms))), int(numpy.argmax(ms)), kb)


def fam_tps(tier, seed):
    for F in (1, 2, 7, 16, 30, 101, 127):
        yield {"B": 2, "F": F, "NC": 4}


def chk_axis(inp):
    rate, n = float(inp.get("frame_rate", 100.)), int(inp.get("n_frames", 16))
    if n < 1 or rate <= 0:
        return
    t = aotools.get_tps_time_axis(rate, n)
    want = numpy.arange(n // 2) * rate / n
    if len(t) != n // 2 or not numpy.allclose(t, want, rtol=1e-12, atol=0):
        return bad("frequency axis is not k*frame_rate/n_frames", numpy.asarray(t).tolist(), want.tolist())


CLAUSES = {"sf.definition": (chk_sf, fam_sf), "tps.definition": (chk_tps, fam_tps), "tps.axis": (chk_axis, lambda t, s: [{"frame_rate": r, "n_frames": n} for r in (100., 7.5) for n in (1, 2, 9, 16, 101)])}
if __name__ == "__main__":
    main(CLAUSES)
