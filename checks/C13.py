"""C13 Karhunen-Loeve modes are orthonormal and diagonalise Kolmogorov covariance."""
import sys, os
sys.path.insert(0, os.path.dirname(os.path.dirname(os.path.abspath(__file__))))
from aovc.check import run_check
from contracts import kl


def build(chk):
    chk.assumptions_used.update(["A-REAL", "A-NP"])
    kl.obligations(chk)
    chk.bounded_native("polar KL functions: orthonormal, piston-free, diagonalise the Kolmogorov covariance with the returned variances (positive, non-increasing, tip = tilt); repeated bases agree", "polar",
                       "8 bases (ri 0.1-0.5, nr 9-16 odd and even, up to 24 functions), npp = 5 nr, tolerances 1e-8 (orthonormality, per-variance) / 1e-9 (off-diagonal covariance)", "aotools/functions/karhunenLoeve.py:gkl_basis,gkl_fcom,gkl_kernel,gkl_sfi")
    chk.bounded_native("Cartesian rendering: pupil = annulus indicator (odd and even sizes), zero outside when masked, follows the polar function within the neighbouring polar cells", "cartesian",
                       "dim in {16,24,33,17,40} x ri in {0.25,0.4}, 8 modes", "aotools/functions/karhunenLoeve.py:make_kl,pcgeom,pol2car")
    chk.notes.append("gkl_fcom (two `while True` selection loops over eigen-decompositions) and pol2car (map_coordinates resampling) are outside the executor's subset: their clauses are bounded native stand-ins only")
    chk.not_decided.append("the discrete kernel equals -1/2 the double pupil average (quadrature error), positivity of variances and 'tip and tilt first' in general, accuracy of the Cartesian resampling")


if __name__ == "__main__":
    sys.exit(run_check("C13", "Karhunen-Loeve modes are orthonormal and diagonalise Kolmogorov covariance", build))
