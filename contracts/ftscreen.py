"""Contracts for aotools/turbulence/phasescreen.py (property C07)."""
import z3
from aovc.check import num
from aovc.contract import verify, under
from aovc.values import zr, zi, UF, PI, PI_AXIOMS, Cx, Unsupported
from aovc.arrays import sym_arr, Arr
from aovc.symex import BoundMethod
from aovc import opword, npmodel
from aovc.opword import Lin
from contracts.fourier import spec_ft_word

PS = "aotools/turbulence/phasescreen.py"
N = z3.Int("N")
r0, delta, L0, l0 = z3.Reals("r0 delta L0 l0")


class Screen:
    """result of phasescreen.ift2 at a call site: the contract's operator (centred inverse DFT, scale (N delta_f)^2) applied to a coefficient array"""
    def __init__(self, coeffs, delta_f, real=False, extra=None):
        self.coeffs, self.delta_f, self.is_real, self.extra = coeffs, delta_f, real, extra

    def __aovc_attr__(self, it, name):
        if name == "real":
            return Screen(self.coeffs, self.delta_f, True, self.extra)
        if name == "shape":
            return tuple(self.coeffs.shape)
        return BoundMethod(self, name)

    def __aovc_binop__(self, it, op, other, swapped):
        if op == "Add" and isinstance(other, Arr) and self.extra is None:
            return Screen(self.coeffs, self.delta_f, self.is_real, other)
        raise Unsupported("operation %s on a screen" % op)


def ift2_summary(it, args, kw):
    G, df = args[0], args[1]
    FFT = args[2] if len(args) > 2 else kw.get("FFT")
    if FFT is not None:
        raise Unsupported("accelerated FFT object")
    return Screen(G, df)


def psd_spec(f, r0_, L0_, l0_):
    """modified von Karman spectrum of the statement: 0.023 r0^(-5/3) exp(-(f/fm)^2) (f^2 + 1/L0^2)^(-11/6), fm = 5.92/l0/(2 pi)"""
    powf, expf = UF("pow", 2), UF("exp")
    fm = z3.RealVal("5.92") / l0_ / (2 * PI)
    f0 = 1 / L0_
    return z3.RealVal("0.023") * powf(r0_, z3.RealVal("-5/3")) * expf(-1 * ((f / fm) * (f / fm))) / powf(f * f + f0 * f0, z3.RealVal("11/6"))


def obligations(chk):
    p, q = z3.Ints("p q")
    SQ = UF("sqrt")

    # ---- the inverse-transform wrapper: centred inverse DFT for even N, DC coefficient index N/2 goes to DFT bin 0
    df = z3.Real("delta_f")

    def run_i(it):
        it.ctx.assume(z3.And(N >= 2, N % 2 == 0, df > 0))
        G = Lin([N, N])
        return it, G, it.call_repo(PS, "ift2", [G, df])

    def post_i(pr):
        it, G, out = pr.value
        goals = [("linear in the coefficients", z3.BoolVal(isinstance(out, Lin)))]
        if isinstance(out, Lin):
            spec = spec_ft_word(it, G, df, [0, 1], inverse=True)
            goals += [("ift2 = centred inverse DFT scaled by (N delta_f)^2 [even N]." + n_, f) for n_, f in opword.equal_obligations(it, out, spec, it.ctx.valid)]
            h = N / 2
            goals.append(("the coefficient at index N/2 is the zero-frequency (DC) term: input roll sends it to DFT bin 0", (N / 2 + h) % N == 0))
        return goals
    verify(chk, "phasescreen.ift2", PS + ":ift2", run_i, post_i, clause="transform", replay=lambda m: {"N": num(m.eval(N, model_completion=True))}, encoding="operator words", frame=False)

    # ---- ft_phase_screen
    def run_s(it):
        for a in PI_AXIOMS:
            it.ctx.assume(a)
        it.ctx.assume(z3.And(N >= 2, N % 2 == 0, r0 > 0, delta > 0, L0 > 0, l0 > 0))
        gen = npmodel.GenObj(None)
        out = it.call_repo(PS, "ft_phase_screen", [r0, N, delta, L0, l0], {"seed": gen})
        return it, gen, out

    def post_s(pr):
        it, gen, out = pr.value
        ok = isinstance(out, Screen) and out.is_real and isinstance(out.coeffs, Arr) and out.coeffs.ndim == 2 and out.extra is None
        goals = [("screen = real part of ift2(coefficients, 1)", z3.BoolVal(bool(ok)))]
        if not ok:
            return goals
        cn = out.coeffs
        goals.append(("inverse transform called with unit frequency spacing (the del_f factor is in the coefficients)", zr(out.delta_f) == 1))
        goals.append(("coefficient grid N x N", z3.And(zi(cn.shape[0]) == N, zi(cn.shape[1]) == N)))
        goals.append(("exactly two draws from the generator given as seed", z3.BoolVal(gen.draws == 2)))
        inb = z3.And(p >= 0, p < N, q >= 0, q < N)
        with under(pr, inb):
            c = cn.get([p, q])
        goals.append(("coefficients are complex", z3.BoolVal(isinstance(c, Cx))))
        if not isinstance(c, Cx):
            return goals
        A = z3.Function("draw!g%s!1" % gen.id, z3.IntSort(), z3.IntSort(), z3.RealSort())
        B = z3.Function("draw!g%s!2" % gen.id, z3.IntSort(), z3.IntSort(), z3.RealSort())
        del_f = 1 / (zr(N) * delta)
        half = zr(N) / 2
        f = SQ((zr(q) - half) * del_f * ((zr(q) - half) * del_f) + (zr(p) - half) * del_f * ((zr(p) - half) * del_f))
        dc = z3.And(p == N / 2, q == N / 2)
        w = z3.If(dc, z3.RealVal(0), SQ(psd_spec(f, r0, L0, l0))) * del_f
        goals.append(("Re c[p,q] = a[p,q] * sqrt(PSD(f[p,q])) * del_f, a = first normal draw; zero frequency removed", z3.Implies(inb, zr(c.re) == A(p, q) * w)))
        goals.append(("Im c[p,q] = b[p,q] * sqrt(PSD(f[p,q])) * del_f, b = second (independent) normal draw", z3.Implies(inb, zr(c.im) == B(p, q) * w)))
        goals.append(("frequency grid: f[p,q] = del_f * sqrt((q - N/2)^2 + (p - N/2)^2) vanishes exactly at the removed index (N/2, N/2)",
                      z3.Implies(z3.And(inb, (zr(q) - half) * (zr(q) - half) + (zr(p) - half) * (zr(p) - half) == 0), dc)))
        # amplitude scaling r0^(-5/6) for fixed draws: the weight squared is proportional to r0^(-5/3) (one instance of the power law)
        kk = z3.Real("kk")
        powf = UF("pow", 2)
        law = powf(kk * r0, z3.RealVal("-5/3")) == powf(kk, z3.RealVal("-5/3")) * powf(r0, z3.RealVal("-5/3"))
        goals.append(("lemma: PSD(f; k r0) = k^(-5/3) PSD(f; r0)  => amplitude scales as r0^(-5/6) for fixed draws", z3.Implies(kk > 0, psd_spec(f, kk * r0, L0, l0) == powf(kk, z3.RealVal("-5/3")) * psd_spec(f, r0, L0, l0)),
                      {"hyps": [law]}))
        return goals
    verify(chk, "ft_phase_screen", PS + ":ft_phase_screen", run_s, post_s, clause="spectrum", summaries={(PS, "ift2"): ift2_summary},
           replay=lambda m: {"N": num(m.eval(N, model_completion=True))}, encoding="pointwise term equality (pow / exp uninterpreted), callee contract ift2, generator contract")

    # ---- sub-harmonic screen: high-frequency screen + low-frequency sum over three 3x3 grids, DC weights removed
    def hi_summary(it, args, kw):
        seed = kw.get("seed", args[6] if len(args) > 6 else None)
        g = npmodel.call_ext(it, "numpy.random.default_rng", [seed], {})
        g.draws += 2          # the high-frequency screen consumes two draws of the generator it is given (contract above)
        a = sym_arr("phs_hi", [zi(args[1]), zi(args[1])])
        a.hi_args = (args, kw)
        return a

    def run_sh(it):
        for a in PI_AXIOMS:
            it.ctx.assume(a)
        it.ctx.assume(z3.And(N >= 2, N % 2 == 0, r0 > 0, delta > 0, L0 > 0, l0 > 0))
        gen = npmodel.GenObj(None)
        out = it.call_repo(PS, "ft_sh_phase_screen", [r0, N, delta, L0, l0], {"seed": gen})
        return it, gen, out

    def post_sh(pr):
        it, gen, out = pr.value
        ok = isinstance(out, Arr) and out.ndim == 2
        goals = [("returns an N x N array", z3.BoolVal(ok))]
        if not ok:
            return goals
        goals.append(("shape", z3.And(zi(out.shape[0]) == N, zi(out.shape[1]) == N)))
        goals.append(("high-frequency screen (2 draws) plus 3 grids x 2 draws of 3x3 from the SAME generator: 8 draws, all distinct", z3.BoolVal(gen.draws == 8)))
        inb = z3.And(p >= 0, p < N, q >= 0, q < N)
        HI = z3.Function("phs_hi", z3.IntSort(), z3.IntSort(), z3.RealSort())
        with under(pr, inb):
            val = zr(out.get([p, q]))
        # low-frequency part (spec): sum over grids g = 1..3 and (i, j) in 3x3 of Re[(a + i b) w exp(2 pi i (fx x + fy y))], minus its mean
        x = (zr(q) - zr(N) / 2) * delta
        y = (zr(p) - zr(N) / 2) * delta
        cosf, sinf = UF("cos"), UF("sin")
        lo = z3.RealVal(0)
        for g in (1, 2, 3):
            dfg = 1 / (3 ** g * (zr(N) * delta))
            A = z3.Function("draw!g%s!%d" % (gen.id, 1 + 2 * g), z3.IntSort(), z3.IntSort(), z3.RealSort())
            B = z3.Function("draw!g%s!%d" % (gen.id, 2 + 2 * g), z3.IntSort(), z3.IntSort(), z3.RealSort())
            for i in range(3):
                for j in range(3):
                    if i == 1 and j == 1:
                        continue          # the DC weight of every sub-harmonic grid is removed
                    fx, fy = (j - 1) * dfg, (i - 1) * dfg
                    f = SQ(fx * fx + fy * fy)
                    w = SQ(psd_spec(f, r0, L0, l0)) * dfg
                    ph = 2 * PI * (fx * x + fy * y)
                    lo = lo + (A(i, j) * w * cosf(ph) - B(i, j) * w * sinf(ph))
        from aovc import sigma
        sums = sigma.find_sums(val)
        goals.append(("mean of the low-frequency part removed (one mean over the screen)", z3.BoolVal(len(sums) == 1)))
        if len(sums) == 1:
            mean = sums[0] / (zr(N) * zr(N))
            from aovc import cas
            nm1 = "screen = high-frequency screen + (sum of 3 x 8 sub-harmonics with weights sqrt(PSD) del_f on grids of spacing 1/(3^g N delta)) - its mean"
            if cas.is_zero(val - (HI(p, q) + lo - mean), max_size=400000):
                goals.append((nm1 + " [identity of terms, sympy]", z3.BoolVal(True)))
            else:
                goals.append((nm1, z3.Implies(inb, val == HI(p, q) + lo - mean)))
            rng_, body = sigma.instantiate(it.ctx, sums[0])
            bp, bq = rng_[0][0], rng_[1][0]
            lo_b = z3.substitute(lo, (p, bp), (q, bq))
            nm2 = "the removed mean is the mean of that low-frequency sum"
            if cas.is_zero(body - lo_b, max_size=400000):
                goals.append((nm2 + " [identity of terms, sympy]", z3.BoolVal(True)))
            else:
                goals.append((nm2, z3.Implies(sigma.in_range(rng_), body == lo_b)))
        return goals
    verify(chk, "ft_sh_phase_screen", PS + ":ft_sh_phase_screen", run_sh, post_sh, clause="subharmonics", summaries={(PS, "ft_phase_screen"): hi_summary},
           replay=lambda m: {"N": num(m.eval(N, model_completion=True))}, encoding="unrolled sub-harmonic grids, pointwise term equality, generator contract, callee contract ft_phase_screen")
