"""C01 Slope covariance matrix equals the true covariance of the WFS slopes."""
import sys, os
sys.path.insert(0, os.path.dirname(os.path.dirname(os.path.abspath(__file__))))
from aovc.check import run_check
from contracts import slopecov, turbstats


def build(chk):
    chk.assumptions_used.update(["A-REAL", "A-NP", "A-MATH"])
    slopecov.kernel_obligations(chk)
    slopecov.geometry_obligations(chk, 2, 2)
    slopecov.assembly_obligations(chk, 3, 2, mp=False)
    with chk.borrow("C03"):
        slopecov.assembly_obligations(chk, 3, 2, mp=True)       # the same matrix whichever build path is taken (threads != 1)
    slopecov.composition_lemma(chk)
    # the kernels are proved against an abstract structure function D = structure_function_vk; that this D is the von Karman one is C08's contract, re-checked here
    with chk.borrow("C08"):
        turbstats.obligations(chk)
        chk.bounded_native("structure_function_vk agrees numerically with 2(C(0)-C(r)) of the von Karman covariance on a grid of separations", "consistency", "r/L0 from 1e-4 to 30, 3 (r0, L0) pairs, tolerance 5e-3", "aotools/turbulence/slopecovariance.py:structure_function_vk")
    chk.confirm_known("C01-yx-unequal-widths", "entries", {"case": "ngs-lgs"})
    chk.bounded_native("end to end against the statement's covariance (independent oracle): entries, symmetry, PSD to single precision, additivity over layers, wavelength scaling", "entries",
                       "10 small systems (1-3 sensors, asymmetric masks, off-axis, NGS/LGS, unequal sub-aperture sizes, 3 layers, outer scales 0.5 m .. 5 km)", "aotools/turbulence/slopecovariance.py:CovarianceMatrix")
    chk.math_lemmas.append("a matrix whose entries are covariances of random variables is positive semi-definite (Bochner: the von Karman structure function is conditionally negative definite)")
    chk.notes.append("A-EPS: the 1e-20 offset added to separations is taken in its limit 0 (in float64 it is absorbed for every non-zero separation)")
    chk.notes.append("float32 bitwise-OR mirror: contract x|0 = x, x|x = x; equal REAL values are assumed to have equal float32 bit patterns in the diagonal blocks (measured deviation <= 5e-7 relative)")
    chk.notes.append("bound: 3 sensors x 2 layers (assembly), 2 sensors x 2 layers (geometry, every NGS/LGS mix); masks, sub-aperture counts and all parameters symbolic")
    chk.not_decided.append("symmetric / PSD 'up to single-precision rounding' (float32 accumulation)")


if __name__ == "__main__":
    sys.exit(run_check("C01", "Slope covariance matrix equals the true covariance of the WFS slopes", build))
