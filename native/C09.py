import sys, os
sys.path.insert(0, os.path.dirname(os.path.abspath(__file__)))
import numpy
from _harness import main
import aotools
from aotools import fouriertransform as FT


def bad(msg, obs=None, exp=None, **kw):
    d = {"message": msg, "observed": obs, "expected": exp}
    d.update(kw)
    return d


def spec_ft(x, delta, naxes, inverse=False):
    """direct evaluation of the statement's centred transform on the last naxes axes (O(N^2) per axis)"""
    out = numpy.asarray(x, dtype=complex)
    for ax in range(-naxes, 0):
        N = out.shape[ax]
        h = N // 2
        k = numpy.arange(N) - h
        sign = +1 if inverse else -1
        M = numpy.exp(sign * 2j * numpy.pi * numpy.outer(k, k) / N) * delta
        out = numpy.moveaxis(numpy.tensordot(M, numpy.moveaxis(out, ax, 0), axes=(1, 0)), 0, ax)
    return out


def chk_complex(dim):
    def chk(inp):
        N = int(inp.get("N", 5)); B = inp.get("B", 2); delta = float(inp.get("delta", 0.3))
        if N < 1 or N > 64:
            return None
        rng = numpy.random.default_rng(int(inp.get("seed", 3)))
        names = [("ft", "ift")] if dim == 1 else [("ft2", "ift2")]
        shape = ((B,) if B else ()) + (N,) * dim
        if isinstance(B, (list, tuple)):
            shape = tuple(B) + (N,) * dim
        x = rng.normal(size=shape) + 1j * rng.normal(size=shape)
        y = rng.normal(size=shape) + 1j * rng.normal(size=shape)
        df = 1. / (N * delta)
        for (f, g) in names:
            for mod, label in ((FT, "aotools.fouriertransform"), (aotools, "aotools")):
                F, G = getattr(mod, f), getattr(mod, g)
                X = F(x, delta)
                if X.shape != x.shape:
                    return bad("%s.%s changes the shape" % (label, f), list(X.shape), list(x.shape))
                want = spec_ft(x, delta, dim)
                if abs(X - want).max() > 1e-9 * max(1, abs(want).max()):
                    return bad("%s.%s is not the centred transform of the statement (origin at sample N//2, last %d axes, scale delta^%d)" % (label, f, dim, dim), X, want)
                wanti = spec_ft(x, delta, dim, inverse=True)
                Xi = G(x, delta)
                if abs(Xi - wanti).max() > 1e-9 * max(1, abs(wanti).max()):
                    return bad("%s.%s is not the centred inverse transform of the statement" % (label, g), Xi, wanti)
                if abs(G(X, df) - x).max() > 1e-9:
                    return bad("%s.%s(%s(x,d),1/(N d)) != x" % (label, g, f), G(X, df), x)
                if abs(F(G(x, delta), df) - x).max() > 1e-9:
                    return bad("%s.%s(%s(X,d),1/(N d)) != X" % (label, f, g), F(G(x, delta), df), x)
                e1, e2 = (abs(x) ** 2).sum() * delta ** dim, (abs(X) ** 2).sum() * df ** dim
                if abs(e1 - e2) > 1e-9 * e1:
                    return bad("Parseval fails for %s.%s" % (label, f), e2, e1)
                if abs(F(2 * x - 3j * y, delta) - (2 * X - 3j * F(y, delta))).max() > 1e-9 * abs(X).max():
                    return bad("%s.%s is not linear" % (label, f))
                # homogeneity at extreme amplitudes (linearity does not depend on the size of the numbers)
                Xi0 = G(x, delta)
                for amp in (1e-15, 1e-19, 1e11):
                    for H, base, nm in ((F, X, f), (G, Xi0, g)):
                        got = H(amp * x, delta)
                        if numpy.shape(got) != numpy.shape(base) or not abs(got - amp * base).max() <= 1e-9 * amp * abs(base).max():
                            return bad("%s.%s(a*x) != a*%s(x) for a=%g (a complex field of small / large overall magnitude)" % (label, nm, nm, amp), numpy.asarray(got), amp * base)
                    if not abs(G(F(amp * x, delta), df) - amp * x).max() <= 1e-9 * amp * abs(x).max():
                        return bad("%s.%s(%s(a*x)) != a*x for a=%g" % (label, g, f, amp))
                # real-dtype input (float64 / float32 / int arrays are legal inputs of the complex transforms)
                xr = rng.normal(size=shape)
                for xin, tolr in ((xr, 1e-9), (xr.astype("float32"), 2e-5), (numpy.round(xr * 10).astype(int), 1e-9)):
                    wr = spec_ft(numpy.asarray(xin, dtype=float), delta, dim)
                    got = F(xin, delta)
                    if numpy.shape(got) != numpy.shape(wr) or not abs(got - wr).max() <= tolr * max(1, abs(wr).max()):
                        return bad("%s.%s of a real (%s) array is not the centred transform of the statement" % (label, f, numpy.asarray(xin).dtype), numpy.asarray(got), wr)
                    if not abs(G(got, df) - xin).max() <= tolr * max(1, abs(numpy.asarray(xin, dtype=float)).max()):
                        return bad("%s.%s(%s(x)) != x for a real (%s) array x" % (label, g, f, numpy.asarray(xin).dtype))
                    wri = spec_ft(numpy.asarray(xin, dtype=float), delta, dim, inverse=True)
                    goti = G(xin, delta)
                    if numpy.shape(goti) != numpy.shape(wri) or not abs(goti - wri).max() <= tolr * max(1, abs(wri).max()):
                        return bad("%s.%s of a real (%s) array is not the centred inverse transform of the statement" % (label, g, numpy.asarray(xin).dtype), numpy.asarray(goti), wri)
                # batch: per item
                if x.ndim > dim:
                    it0 = x.reshape((-1,) + x.shape[-dim:])[0]
                    if abs(F(it0, delta) - X.reshape((-1,) + x.shape[-dim:])[0]).max() > 1e-9 * abs(X).max():
                        return bad("%s.%s on a batch differs from the single item" % (label, f))
    return chk


def fam_complex(tier, seed):
    Ns = list(range(1, 10)) + [16, 17] if tier == "quick" else list(range(1, 34))
    for N in Ns:
        for B in (0, 2, [2, 3]):
            for delta in (1.0, 0.25):
                yield {"N": N, "B": B, "delta": delta, "seed": seed + N}


def chk_export(inp):
    names = [inp["name"]] if inp and "name" in inp else ["ft", "ift", "ft2", "ift2", "rft", "irft", "rft2", "irft2"]
    for n in names:
        if getattr(aotools, n) is not getattr(FT, n):
            return bad("aotools.%s is %s.%s, not aotools.fouriertransform.%s" % (n, getattr(aotools, n).__module__, getattr(aotools, n).__name__, n))


def chk_real(inp):
    """real-input variants: inverse pair and Parseval on the half spectrum (listed finding: they are not, for any N)"""
    for N in ([int(inp["N"])] if inp and "N" in inp else range(1, 10)):
        x = numpy.random.default_rng(N).normal(size=(2, N))
        delta = 0.5
        try:
            X = FT.rft(x, delta)
            back = FT.irft(X, 1. / (N * delta))
            ok = back.shape == x.shape and abs(back - x).max() < 1e-9
        except Exception as ex:
            ok = False
            back = repr(ex)
        if not ok:
            return bad("irft(rft(x, d), 1/(N d)) != x for N=%d (real-input variants are not inverse pairs)" % N, back, x, finding="C09-real-variants")
        x2 = numpy.random.default_rng(N).normal(size=(N, N))
        try:
            back2 = FT.irft2(FT.rft2(x2, delta), 1. / (N * delta))
            ok = back2.shape == x2.shape and abs(back2 - x2).max() < 1e-9
        except Exception as ex:
            ok = False
        if not ok:
            return bad("irft2(rft2(x, d), 1/(N d)) != x for N=%d" % N, None, None, finding="C09-real-variants")


CLAUSES = {
    "complex.1d": (chk_complex(1), fam_complex),
    "complex.2d": (chk_complex(2), fam_complex),
    "export": (chk_export, lambda t, s: [{}]),
    "real": (chk_real, lambda t, s: [{}]),
}
if __name__ == "__main__":
    main(CLAUSES)
