"""Contracts for aotools/turbulence/profile_compression.py (property C18): equivalent_layers deductively, the other methods by bounded native stand-ins."""
import z3
from aovc.check import num
from aovc.contract import verify
from aovc.values import zr, zi, UF
from aovc.arrays import sym_arr, Arr
from aovc import npmodel, sigma

PC = "aotools/turbulence/profile_compression.py"


def obligations(chk):
    n, L = z3.Ints("n L")
    i, k = z3.Ints("i k")
    for with_wind in (False, True):
        def run(it, with_wind=with_wind):
            it.ctx.assume(z3.And(n >= 1, L >= 1))
            h = sym_arr("h", [n], prov={"h"})
            p = sym_arr("p", [n], prov={"p"})
            w = sym_arr("w", [n], prov={"w"}) if with_wind else None
            out = it.call_repo(PC, "equivalent_layers", [h, p, L], {"w": w} if with_wind else {})
            return it, h, p, w, out

        def post(pr, with_wind=with_wind):
            it, h, p, w, out = pr.value
            nret = 3 if with_wind else 2
            ok = isinstance(out, tuple) and len(out) == nret and all(isinstance(o, Arr) and o.ndim == 1 for o in out) and len(getattr(it.ctx, "digitizes", [])) == 1
            goals = [("returns %d arrays; slabs assigned by one numpy.digitize" % nret, z3.BoolVal(bool(ok)))]
            if not ok:
                return goals
            h_el, cn2_el = out[0], out[1]
            dg = it.ctx.digitizes[0]
            for nm, o in zip(("h", "cn2", "w"), out):
                goals.append(("exactly L layers returned (%s)" % nm, zi(o.shape[0]) == L))
            # slab edges: L lower edges, the first one is min(h)
            edges = dg.bins
            goals.append(("L slab edges (never L+1)", zi(edges.shape[0]) == L))
            mins = npmodel.find_extremes(it, zr(edges.get([0])))
            goals.append(("first edge is min(h)", z3.BoolVal(len(mins) == 1 and it.ctx.extremes[mins[0].sexpr()].kind == "min") if mins else z3.BoolVal(False)))
            ink = z3.And(k >= 0, k < n)
            cls = dg.f(k)
            hy = [dg.contract(k, 0), dg.range(k)] + ([npmodel.extreme_bound(it, mins[0], [k])] if mins else [])
            goals.append(("first edge equals min(h) exactly", zr(edges.get([0])) == zr(mins[0])) if mins else ("first edge equals min(h) exactly", z3.BoolVal(False)))
            goals.append(("no layer is dropped: every input layer k falls in a slab 1..L", z3.Implies(ink, z3.And(cls >= 1, cls <= L)), {"hyps": hy}))
            # strengths: slab sums
            ini = z3.And(i >= 0, i < L)
            ps, hs = p.snapshot(), h.snapshot()
            spec_c = zr(npmodel.sigma(it, [(0, n)], lambda kk: z3.If(dg.f(kk[0]) == i + 1, zr(ps([kk[0]])), z3.RealVal(0)), "spec"))
            code_c = zr(cn2_el.get([i]))
            side, hyps = sigma.relate_pairwise(it.ctx, code_c, spec_c)
            goals += [("strength." + nm, z3.Implies(ini, g)) for nm, g in side]
            goals.append(("cn2_el[i] = sum of the strengths of the layers in slab i", z3.Implies(ini, code_c == spec_c), {"hyps": hyps}))
            # total conserved (partition rule: every layer in exactly one slab)
            total_code = zr(npmodel.arr_sum(it, cn2_el))
            total_in = zr(npmodel.arr_sum(it, p))
            sc, sp_ = sigma.find_sums(total_code), sigma.find_sums(total_in)
            if len(sc) == 1 and len(sp_) == 1:
                o_, h_ = sigma.partition(it.ctx, sc[0], sp_[0], lambda vk: dg.f(vk), offset=1)
                # hypotheses of the side conditions: the digitize range / first-edge contract at the bound variable
                ri, _ = sigma.instantiate(it.ctx, sigma.find_sums(sigma.instantiate(it.ctx, sc[0])[1])[0]) if sigma.find_sums(sigma.instantiate(it.ctx, sc[0])[1]) else ([], None)
                bvk = ri[0][0] if ri else k
                hyk = [dg.contract(bvk, 0), dg.range(bvk)] + ([npmodel.extreme_bound(it, mins[0], [bvk])] if mins else [])
                goals += [("total." + nm, g, {"hyps": hyk}) for nm, g in o_]
                goals.append(("total Cn2 conserved exactly: sum(cn2_el) = sum(p)", total_code == total_in, {"hyps": [h_]}))
            else:
                goals.append(("total Cn2 conserved exactly: structure of the sums", z3.BoolVal(False)))
            # non-negative strengths
            oo, hh = [], []
            for sm in sigma.find_sums(code_c):
                o2, h2 = sigma.nonneg(it.ctx, sm)
                ra, _ = sigma.instantiate(it.ctx, sm)
                oo += [(n2, g2, {"hyps": [zr(ps([ra[0][0]])) >= 0]}) for n2, g2 in o2]
                hh.append(h2)
            goals += [("nonneg." + n2, z3.Implies(ini, g2), o3) for n2, g2, o3 in oo]
            goals.append(("strengths are non-negative (for non-negative input strengths)", z3.Implies(ini, code_c >= 0), {"hyps": hh}))
            # 5/3 height moment per slab (hence in total): cn2_el[i] * h_el[i]^(5/3) = sum over the slab of p h^(5/3)
            powf = UF("pow", 2)
            for nm, arr_in, arr_out in (("height", h, h_el),) + ((("wind", w, out[2]),) if with_wind else ()):
                xs = arr_in.snapshot()
                mom = zr(npmodel.sigma(it, [(0, n)], lambda kk: z3.If(dg.f(kk[0]) == i + 1, zr(ps([kk[0]])) * powf(zr(xs([kk[0]])), z3.RealVal("5/3")), z3.RealVal(0)), "mom"))
                val = zr(arr_out.get([i]))
                sums_v = sigma.find_sums(val)
                side_m, hyps_m = [], []
                # relate every Sum inside h_el[i] with the spec sums (strength sum and moment sum)
                spec_sums = sigma.find_sums(mom) + sigma.find_sums(spec_c)
                for sv in sums_v:
                    matched = False
                    for ss in spec_sums:
                        o4, h4 = sigma.ext(it.ctx, sv, ss)
                        if all(it.ctx.valid(z3.Implies(ini, g4)) for _, g4 in o4):
                            hyps_m.append(h4)
                            matched = True
                            break
                    if not matched:
                        side_m.append(("%s.unmatched-sum" % nm, z3.BoolVal(False)))
                goals += side_m
                ratio = mom / spec_c
                law = z3.Implies(ratio >= 0, powf(powf(ratio, z3.RealVal("3/5")), z3.RealVal("5/3")) == ratio)       # power law (x^(3/5))^(5/3) = x, x >= 0  (A-MATH)
                goals.append(("%s moment of slab i conserved: cn2_el[i] * x_el[i]^(5/3) = sum_slab p x^(5/3)  [slab with turbulence]" % nm,
                              z3.Implies(z3.And(ini, spec_c > 0, mom >= 0), spec_c * powf(val, z3.RealVal("5/3")) == mom), {"hyps": hyps_m + hyps + [law]}))
                goals.append(("%s of a slab without turbulence is 0 (its moment contribution is 0)" % nm, z3.Implies(z3.And(ini, spec_c == 0), val == 0), {"hyps": hyps}))
            return goals
        verify(chk, "equivalent_layers[%s]" % ("with wind" if with_wind else "heights only"), PC + ":equivalent_layers", run, post, clause="equivalent", replay=lambda m: {},
               encoding="loop-summary S2 with early continue, boolean-mask sums, digitize / min contracts, Sigma rules (extensionality, partition)", skip_defs=("divisor non-zero",), max_paths=8)
